// random port trees + random savefiles + independent oracle for the required order
#include <rtosc/ports.h>
#include <rtosc/savefile.h>
#include <string>
#include <vector>
#include <deque>
#include <map>
#include <set>
#include <random>
#include <memory>
#include <algorithm>
#include <cstdio>
#include <cstring>
#include <cstdlib>
using namespace rtosc;

struct DynPorts : Ports { DynPorts() : Ports({}) {} void set(const std::vector<Port>& v) { ports = v; refreshMagic(); } };

struct Node {
    std::string name;         // plain name
    bool subtree=false; int enumN=0; // enumN>0: name#N
    std::vector<std::pair<std::string,std::string>> deps; // (type, relpath)
    std::vector<std::unique_ptr<Node>> kids;
    std::string portname, meta, selfdep, selfmeta;
    std::unique_ptr<DynPorts> ports;
};
static const char* NAMES1[] = {"alpha","beta","gamma","delta","kappa","omega","sigma","theta"};
static const char* NAMES2[] = {"a","ab","abc","b","ba","bab","c","ca"};
static const char** NAMES = NAMES1; static bool FLAG_SELF=false;
static std::mt19937 rng;
static int rnd(int n){ return std::uniform_int_distribution<int>(0,n-1)(rng); }
static bool FLAG_RDEPENDS_NOTRAIL=false, FLAG_SUBTREE_RDEPENDS=false, FLAG_PATHDEPS=true, FLAG_RDEPENDS=true;

static void gen(Node& parent, int depth)
{
    int n = 3 + rnd(3);
    std::vector<int> idx(8); for(int i=0;i<8;++i) idx[i]=i; std::shuffle(idx.begin(), idx.end(), rng);
    for(int i=0;i<n;++i) {
        std::unique_ptr<Node> k(new Node);
        k->name = NAMES[idx[i]];
        k->subtree = depth < 3 && rnd(3)==0;
        if(rnd(3)==0) k->enumN = 3;
        // deps to earlier sibling leaves
        std::vector<std::string> targets;
        for(int j=0;j<i;++j) {
            Node& s = *parent.kids[j];
            if(!s.subtree && !s.enumN) targets.push_back(s.name);
            if(FLAG_PATHDEPS && s.subtree && !s.enumN) for(auto& g : s.kids) if(!g->subtree && !g->enumN) targets.push_back(s.name + "/" + g->name);
        }
        if(!targets.empty()) {
            if(rnd(3)==0) k->deps.push_back({"enabled by", targets[rnd(targets.size())]});
            if(rnd(3)==0) k->deps.push_back({"default depends", targets[rnd(targets.size())]});
            if(FLAG_RDEPENDS && rnd(3)==0 && (!k->subtree || FLAG_SUBTREE_RDEPENDS)) {
                std::string l; int m=1+rnd(2); for(int q=0;q<m;++q) { l += targets[rnd(targets.size())]; l += ","; }
                if(FLAG_RDEPENDS_NOTRAIL) l.pop_back(); k->deps.push_back({"depends", l});
            }
        }
        if(k->subtree) gen(*k, depth+1);
        parent.kids.push_back(std::move(k));
    }
    if(FLAG_SELF && rnd(2)==0) { std::vector<std::string> t; for(auto& k: parent.kids) if(!k->subtree && !k->enumN) t.push_back(k->name); if(!t.empty()) { parent.selfdep = t[rnd(t.size())]; for(auto& k: parent.kids) if(k->name==parent.selfdep) k->deps.clear(); parent.selfmeta = std::string(":internal")+'\0'+":enabled by"+'\0'+"="+parent.selfdep+'\0'+'\0'; } }
    std::vector<Port> v;
    for(auto& k : parent.kids) {
        k->portname = k->name;
        if(k->enumN) k->portname += "#" + std::to_string(k->enumN);
        k->portname += k->subtree ? "/" : "::i";
        std::string m = k->subtree ? "" : std::string(":parameter") + '\0' + ":default" + '\0' + "=0" + '\0';
        for(auto& d : k->deps) { m += ":" + d.first; m += '\0'; m += "=" + d.second; m += '\0'; }
        m += '\0';
        k->meta = m;
        v.push_back(Port{k->portname.c_str(), k->meta.c_str(), k->subtree ? k->ports.get() : nullptr, [](const char*, RtData&){}});
    }
    parent.ports.reset(new DynPorts); parent.ports->set(v);
}
// fix up: child Ports pointer must be set after child's gen(); redo port vectors bottom-up
static void rebuild(Node& n)
{
    std::vector<Port> v;
    for(auto& k : n.kids) { if(k->subtree) rebuild(*k);
        v.push_back(Port{k->portname.c_str(), k->meta.c_str(), k->subtree ? k->ports.get() : nullptr, [](const char*, RtData&){}}); }
    if(!n.selfdep.empty()) v.insert(v.begin(), Port{"self:", n.selfmeta.c_str(), nullptr, [](const char*, RtData&){}});
    n.ports->set(v);
}

// ---- oracle
static Node* find_child(Node& n, const std::string& seg, bool want_subtree)
{
    for(auto& k : n.kids) {
        if(k->subtree != want_subtree) continue;
        if(k->enumN) { if(seg.size()==k->name.size()+1 && !seg.compare(0,k->name.size(),k->name) && isdigit(seg.back())) return k.get();
                       if(!want_subtree && seg==k->name) return k.get(); }
        else if(seg==k->name) return k.get();
    }
    return nullptr;
}
static std::set<std::string> g_vis;
static void must_precede(Node& root, const std::string& path, const std::set<std::string>& file, std::set<std::string>& out, int depth=0)
{
    if(depth==0) g_vis.clear();
    if(depth>0 && !g_vis.insert(path).second) return;
    // split
    std::vector<std::string> segs; size_t p=1; while(p<=path.size()) { size_t q=path.find('/',p); if(q==std::string::npos) q=path.size(); segs.push_back(path.substr(p,q-p)); p=q+1; }
    Node* cur=&root; std::string dir="/";
    auto selfchk=[&](Node& n, const std::string& d){ if(n.selfdep.empty()) return; std::string abs=d+n.selfdep; if(file.count(abs)) out.insert(abs); else must_precede(root, abs, file, out, depth+1); };
    selfchk(root, "/");
    for(size_t i=0;i<segs.size();++i) {
        bool last = i+1==segs.size();
        Node* k = find_child(*cur, segs[i], !last);
        if(!k) return;
        for(auto& d : k->deps) {
            std::string l=d.second; size_t s=0;
            while(s<l.size()) { size_t c=l.find(',',s); if(c==std::string::npos) c=l.size(); std::string t=l.substr(s,c-s); s=c+1; if(t.empty()) continue;
                std::string abs = dir + t;
                if(file.count(abs)) out.insert(abs); else must_precede(root, abs, file, out, depth+1); }
        }
        dir += segs[i] + "/"; cur=k; if(k->subtree) selfchk(*k, dir);
    }
}
static void leaves(Node& n, const std::string& dir, std::vector<std::pair<std::string,bool>>& out)
{
    for(auto& k : n.kids) {
        if(k->subtree) { if(k->enumN) for(int i=0;i<k->enumN;++i) leaves(*k, dir+k->name+std::to_string(i)+"/", out); else leaves(*k, dir+k->name+"/", out); }
        else out.push_back({dir+k->name, k->enumN>0});
    }
}
struct LogDisp : savefile_dispatcher_t {
    std::vector<std::string> order;
    int on_dispatch(size_t, char* portname, size_t, size_t nargs, rtosc_arg_val_t*) override { order.push_back(portname); return nargs; }
    bool do_dispatch(const char*) override { return true; }
};
static void dumptree(Node& n, int ind) { if(!n.selfdep.empty()) printf("%*sself: [enabled by=%s]\n", ind, "", n.selfdep.c_str()); for(auto& k: n.kids) { printf("%*s%s", ind, "", k->portname.c_str()); for(auto&d:k->deps) printf("  [%s=%s]", d.first.c_str(), d.second.c_str()); puts(""); if(k->subtree) dumptree(*k, ind+2); } }

int main(int argc, char** argv)
{
    int seeds = argc>1 ? atoi(argv[1]) : 200;
    if(argc>2) FLAG_SUBTREE_RDEPENDS = atoi(argv[2]); if(argc>3) FLAG_RDEPENDS = atoi(argv[3]); if(argc>4) FLAG_PATHDEPS = atoi(argv[4]); if(argc>5) FLAG_RDEPENDS_NOTRAIL = atoi(argv[5]); if(argc>6 && atoi(argv[6])) NAMES = NAMES2; if(argc>7) FLAG_SELF = atoi(argv[7]);
    int bad=0; if(getenv("DUMPSEED")) { rng.seed(atoi(getenv("DUMPSEED"))); Node root; gen(root,1); rebuild(root); dumptree(root,2); return 0; }
    for(int seed=0; seed<seeds && bad<5; ++seed) {
        rng.seed(seed);
        Node root; gen(root, 1); rebuild(root);
        std::vector<std::pair<std::string,bool>> all; leaves(root, "/", all);
        for(int f=0; f<20 && bad<5; ++f) {
            std::shuffle(all.begin(), all.end(), rng);
            size_t n = std::min<size_t>(all.size(), 2+rnd(7));
            std::vector<std::string> lines; std::set<std::string> file;
            for(size_t i=0;i<n;++i) { file.insert(all[i].first); lines.push_back(all[i].first + (all[i].second ? " [1 2 3]" : " 1")); }
            for(int perm=0; perm<6; ++perm) {
                std::shuffle(lines.begin(), lines.end(), rng);
                std::string text; for(auto& l: lines) text += l + "\n";
                LogDisp d; if(getenv("TRACE")) { FILE* t=fopen("/tmp/wt/C13_h/_probe/last.txt","w"); fprintf(t,"seed %d\n%s", seed, text.c_str()); fclose(t); }
                int r = dispatch_printed_messages(text.c_str(), *root.ports, nullptr, &d);
                std::string err;
                if(r != (int)n) err = "rval " + std::to_string(r) + " != " + std::to_string(n);
                if(d.order.size()!=n) err += " dispatched " + std::to_string(d.order.size());
                std::map<std::string,int> pos; for(size_t i=0;i<d.order.size();++i) pos[d.order[i]]=i;
                for(auto& m : file) { std::set<std::string> pre; must_precede(root, m, file, pre);
                    for(auto& p : pre) if(p!=m && pos.count(p) && pos.count(m) && pos[p] > pos[m]) err += " [" + p + " must precede " + m + "]"; }
                if(!err.empty()) { ++bad; printf("seed %d: %s\nfile:\n%s order:", seed, err.c_str(), text.c_str()); for(auto&o:d.order) printf(" %s", o.c_str()); puts("\ntree:"); dumptree(root,2); break; }
            }
        }
    }
    printf("done, bad=%d\n", bad);
    return bad!=0;
}
