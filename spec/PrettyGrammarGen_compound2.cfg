CONSTANTS MaxTokens = 2  SimMode = FALSE  PoolName = "compound"
INIT Init
NEXT Next
CONSTRAINT Emit
CHECK_DEADLOCK FALSE
