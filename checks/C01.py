"""C01 - OSC 1.0 wire format: spec-exact encoding, lossless decoding.
spec/OscWire.tla is the pointer-free transcription of the wire rules; OscWireGen
enumerates messages (TLC BFS) and checks the laws; the real constructors and
accessors are run on every enumerated message (engine A) and on seeded random
messages up to the property's stated sizes (engine B); OscWireTrace judges both."""
import os
from vlib import core

PAYLOAD = set("ifsbhtdScrm")


def tags_of(rec):
    return "".join(a["t"] for a in rec["args"])


def sig_for(rec, clause):
    t = tags_of(rec)
    return dict(clause=clause, tags=t, addr_len=len(rec["addr"]))


def judge(ctx, log_path, recs_src):
    rej = ctx.validate("OscWireTrace", "OscWireTrace.cfg", log_path)
    recs = ctx.read_ndjson(log_path)
    for i, r in enumerate(recs, 1):
        t = tags_of(r)
        ctx.evaluations += 1
        if any(c in PAYLOAD for c in t):
            ctx.nontrivial.add((bytes(r["addr"]).decode("latin1"), t, str([a["v"] for a in r["args"]])))
    for line, clauses in sorted(rej.items()):
        r = recs[line - 1]
        case = dict(k="msg", addr=r["addr"], args=r["args"])
        for c in clauses:
            what = "clause %s fails for address %r tags ',%s'" % (c, bytes(r["addr"]).decode("latin1"), tags_of(r))
            if c == "crash":
                what += " (signal %s %s)" % (r.get("sig"), r.get("asan_what", ""))
            ctx.reject(sig_for(r, c), case, what)
    return recs


def run(ctx):
    ctx.rule = ("engine A: every state of OscWireGen (all type strings up to Depth over the 15 value tags and [ ], boundary values, "
                "address lengths) ; engine B: seeded random messages (addresses 1..64, up to 40 tags, strings/blobs up to 40 bytes, "
                "NaN payloads, NULL blobs); non-trivial = distinct message with at least one payload-carrying tag")
    ctx.assumptions = ["x86-64 SysV va_list layout (run-time varargs calls)",
                       "floats whose bits do not survive float->double->float (signalling NaNs) are not passed through the varargs constructor",
                       "TLC integers: 16-bit limbs, message sizes < 2^31"]
    if ctx.replay:
        import json
        case = json.load(open(ctx.replay))["case"]
        p = ctx.write_ndjson("replay_in.ndjson", [case])
        ctx.driver("wire_driver", "asan", ["msg", "in", p, ctx.path("replay_log.ndjson")])
        judge(ctx, ctx.path("replay_log.ndjson"), "replay")
        return
    thorough = ctx.tier == "thorough"
    cfg = "OscWireGen_thorough.cfg" if thorough else "OscWireGen_quick.cfg"
    vec, r = ctx.vectors("OscWireGen", cfg, "vec")
    if len(vec) != r.distinct:
        raise core.Broken("generator wrote %d vectors for %d states" % (len(vec), r.distinct))
    ctx.bounds = dict(gen_cfg=cfg, gen_states=r.distinct)
    ctx.exhaustive = True
    inp = ctx.write_ndjson("vec.ndjson", vec)
    ctx.driver("wire_driver", "asan", ["msg", "in", inp, ctx.path("logA.ndjson")])
    nrand = 200000 if thorough else 15000
    ctx.driver("wire_driver", "asan", ["msg", "random", ctx.seed, nrand, ctx.path("logB.ndjson")])
    with open(ctx.path("log.ndjson"), "w") as f:
        for n in ("logA.ndjson", "logB.ndjson"):
            f.write(open(ctx.path(n)).read())
    recs = judge(ctx, ctx.path("log.ndjson"), "A+B")
    ctx.notes["engineA_vectors"] = len(vec)
    ctx.notes["engineB_random_records"] = nrand
    for r in (recs[len(vec) // 2], recs[-1]):
        ctx.sample(dict(addr=bytes(r["addr"]).decode("latin1"), tags=tags_of(r), encoded_len=r.get("ret_a")))
    os.remove(ctx.path("log.ndjson"))
