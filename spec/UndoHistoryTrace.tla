---------------------------- MODULE UndoHistoryTrace ----------------------------
(* Trace validation for C15.  Each line of the log is one execution of the real      *)
(* UndoHistory: a list of calls with what was observed after each - cursor, number   *)
(* and contents of the retained entries, and the messages handed to the callback.    *)
(* x picks the execution; an event is consumed iff some action of UndoHistory.tla    *)
(* produces exactly the observed state.  An execution that cannot be continued       *)
(* prints <<"REJECT", x, {...}, l>> (l = the offending call); a fully explained one  *)
(* prints <<"DONE", x>>.                                                            *)
EXTENDS UndoHistory, Json, IOUtils
Log == ndJsonDeserialize(IOEnv.TRACE)
VARIABLES x, l
tvars == <<vars, x, l>>
Evs == Log[x].ev
Ev == Evs[l]
Entries(h) == [i \in 1..Len(h) |-> [a |-> h[i].a, ty |-> h[i].ty, old |-> h[i].old, new |-> h[i].new]]
TInit == Init /\ x \in 1..Len(Log) /\ l = 1
\* end-to-end executions also log the parameters themselves: they are the model's store
ParamsOk == IF "params" \notin DOMAIN Ev THEN TRUE ELSE \A a \in DOMAIN Ev.params : (IF a \in DOMAIN store' THEN store'[a].v ELSE 0) = Ev.params[a]
Observed == /\ pos' = Ev.pos /\ Entries(hist') = Ev.entries /\ out' = Ev.out /\ ParamsOk
StepRec == /\ Ev.op = "rec"
           /\ Record([a |-> Ev.a, ty |-> Ev.ty, old |-> Ev.old, new |-> Ev.new])
           /\ store' = [a \in DOMAIN store \cup {Ev.a} |-> IF a = Ev.a THEN [ty |-> Ev.ty, v |-> Ev.new] ELSE store[a]]
\* end to end: a message to a parameter port (harness: the real macros).  The port must emit an /undo_change event exactly when the value
\* changes, carrying the TRUE previous value; that event is what the history records (action Set of UndoHistory.tla)
Cur(a) == IF a \in DOMAIN store THEN store[a].v ELSE 0
StepSet == /\ Ev.op = "set" /\ Ev.matches = 1
           /\ IF Cur(Ev.a) = Ev.v
              THEN /\ ~ Ev.got_event /\ out' = <<>> /\ UNCHANGED <<hist, pos, store, clock>>
              ELSE /\ Ev.got_event /\ Ev.ev_old = Cur(Ev.a) /\ Ev.ev_new = Ev.v
                   /\ Record([a |-> Ev.a, ty |-> Ev.ty, old |-> Cur(Ev.a), new |-> Ev.v])
                   /\ store' = [a \in DOMAIN store \cup {Ev.a} |-> IF a = Ev.a THEN [ty |-> Ev.ty, v |-> Ev.v] ELSE store[a]]
StepSeek == Ev.op = "seek" /\ Seek(Ev.k)
StepTick == Ev.op = "tick" /\ clock' = clock + Ev.d /\ out' = <<>> /\ UNCHANGED <<hist, pos, store>>
Step == /\ l >= 1 /\ l <= Len(Evs)
        /\ (StepRec \/ StepSet \/ StepSeek \/ StepTick)
        /\ Observed
        /\ step' = [op |-> Ev.op] /\ l' = l + 1 /\ UNCHANGED x
Stuck == /\ l >= 1 /\ l <= Len(Evs) /\ ~ ENABLED Step
         /\ PrintT(<<"REJECT", x, {"call_not_explained"}, l>>)
         /\ l' = 0 /\ UNCHANGED <<vars, x>>
Finish == /\ l = Len(Evs) + 1 /\ PrintT(<<"DONE", x>>) /\ l' = 0 - 1 /\ UNCHANGED <<vars, x>>
TNext == Step \/ Stuck \/ Finish
TSpec == TInit /\ [][TNext]_tvars
=============================================================================
