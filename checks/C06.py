"""C06 - ThreadLink is a lossless FIFO between two threads under every interleaving.
(1) TLC model-checks spec/ThreadLink.tla (one action per shared access) exhaustively for a
    small ring: Fifo, LaFifo, HasNextExact, NoOverlap, Bounds; four specification mutants
    must be rejected (vacuity guard).
(2) engine A: behaviours drawn by TLC -simulate are forced step by step on the real
    rtosc::ThreadLink (coroutines + RTOSC_VERIF_POINT hooks); ThreadLinkReplay judges hook
    structure and observables.
(3) engine B: API-level histories from random coroutine schedules on several ring sizes and
    from two free-running OS threads are explained (or not) by ThreadLinkTrace."""
import json, os
from vlib import core

SHAPES = {4: 2, 6: 3, 8: 4, 9: 3, 12: 4, 16: 4}     # cells -> max message words (as in the driver)


def overlapping(ev):
    """does any write operation overlap a poll operation in this history?"""
    wopen = popen = False
    for e in ev:
        k = e["e"]
        if k == "wb":
            wopen = True
        elif k == "we":
            wopen = False
        elif k == "pb":
            popen = True
        elif k == "pe":
            popen = False
        if wopen and popen:
            return True
    return False


def trace_validate(ctx, hist_path, label):
    recs = ctx.read_ndjson(hist_path)
    byN = {}
    for i, r in enumerate(recs, 1):
        byN.setdefault(r["N"], []).append(i)
    accepted = set()
    for N, idx in sorted(byN.items()):
        cfg = ctx.path("TLT_%s_%d.cfg" % (label, N))
        with open(cfg, "w") as f:
            f.write('CONSTANTS N = %d  Lens = {2}  K = 1000000  P = 1000000  Bug = "none"\nSPECIFICATION TSpec\nINVARIANT Announce Safe\nVIEW TView\nCHECK_DEADLOCK FALSE\n' % N)
        r = ctx.tlc("ThreadLinkTrace", cfg, env={"TRACE": hist_path}, workers=16, timeout=1500, xmx="16g")
        if r.violated:
            raise core.Broken("ThreadLinkTrace reported %s\n%s" % (r.violated, r.out[-1500:]))
        import re
        for m in re.finditer(r'<<\s*"ACCEPTED",\s*(\d+)\s*>>', r.out):
            accepted.add(int(m.group(1)))
    for i, r in enumerate(recs, 1):
        ctx.evaluations += 1
        if overlapping(r["ev"]):
            ctx.nontrivial.add((label, i))
        if i in accepted:
            ctx.traces += 1
        else:
            ctx.reject(dict(clause="history_not_explained", source=label, N=r["N"]), dict(kind="history", N=r["N"], ev=r["ev"]),
                       "no interleaving of ThreadLink.tla explains this %s history (%d events, ring of %d cells)" % (label, len(r["ev"]), r["N"]))
    return recs


def run_tsan(ctx, seed, count):
    # the same free-running threads once more under the race detector: its reports are violations (unsynchronised access to the ring), the
    # histories are judged like the others; silence of the detector proves nothing (the interleaving search above is the deciding part)
    p = ctx.driver("threadlink_driver", "tsanhooks", ["threads", seed, count, ctx.path("hist_tsan.ndjson")],
                   env={"TSAN_OPTIONS": "halt_on_error=0 exitcode=0 report_signal_unsafe=0"})
    races = p.stderr.count("WARNING: ThreadSanitizer: data race")
    ctx.notes["race_detector_reports"] = races
    if races:
        first = p.stderr[p.stderr.find("WARNING: ThreadSanitizer: data race"):][:900]
        where = [ln.strip() for ln in first.splitlines() if "#0" in ln or "#1" in ln][:4]
        ctx.reject(dict(clause="data_race_reported_by_the_race_detector"), dict(kind="tsan", seed=seed),
                   "ThreadSanitizer reported %d data race(s) while one thread wrote and one thread polled: %s" % (races, "; ".join(where)))
    trace_validate(ctx, ctx.path("hist_tsan.ndjson"), "threads_tsan")


def replay(ctx, N, cfg, num, depth, tag):
    raw = ctx.path("sim_%s.raw" % tag)
    if os.path.exists(raw):
        os.remove(raw)
    r = ctx.tlc("ThreadLinkSim", cfg, env={"OUT": raw, "DEPTH": depth}, workers=4, simulate=num, depth=depth, seed=ctx.seed, timeout=900)
    if r.violated:
        raise core.Broken("ThreadLink.tla violated %s in simulation" % r.violated)
    seen, beh = set(), []
    for line in open(raw):
        s = json.loads(line)
        if s not in seen:
            seen.add(s)
            beh.append(s)
    os.remove(raw)
    inp = ctx.path("beh_%s.ndjson" % tag)
    with open(inp, "w") as f:
        for b in beh:
            f.write(b + "\n")
    out = ctx.path("replay_%s.ndjson" % tag)
    ctx.driver("threadlink_driver", "hooks", ["replay", N, SHAPES[N], inp, out])
    rej = ctx.validate("ThreadLinkReplay", "ThreadLinkReplay.cfg", out)
    recs = ctx.read_ndjson(out)
    nstruct = 0
    for i, rec in enumerate(recs, 1):
        ctx.evaluations += len(rec["exp"])
        if any(e["th"] == "w" and e["act"] != "start" for e in rec["exp"]) and overlapping(rec["ev"]):
            ctx.nontrivial.add(("replay", tag, i))
        cl = rej.get(i, [])
        if "structure" in cl:
            nstruct += 1
        if "observable" in cl:
            ctx.reject(dict(clause="replay_observable_mismatch", N=N), dict(kind="behaviour", N=N, exp=rec["exp"]),
                       "same schedule, different hasNext/read result than ThreadLink.tla (ring of %d cells, %d steps)" % (N, len(rec["exp"])))
    ctx.notes["replay_%s" % tag] = dict(behaviours=len(recs), structure_mismatches=nstruct)
    # the API-level histories of the replayed schedules go through engine B as well
    hp = ctx.path("replay_hist_%s.ndjson" % tag)
    with open(hp, "w") as f:
        for rec in recs:
            f.write(json.dumps(dict(N=rec["N"], ev=rec["ev"])) + "\n")
    trace_validate(ctx, hp, "replayed_" + tag)
    if recs:
        rec = recs[len(recs) // 2]
        ctx.sample(dict(kind="behaviour", N=N, steps=[(e["th"], e["act"], e["at"]) for e in rec["exp"][:24]]))
    return nstruct, len(recs)


def run(ctx):
    ctx.rule = ("(a) exhaustive TLC search of ThreadLink.tla for a small ring; (b) TLC-simulated behaviours forced on the real code through the hook points; "
                "(c) histories from seeded random coroutine schedules and from two real threads; evaluations = scheduled steps + histories; "
                "non-trivial = distinct behaviour/history in which a write operation overlaps a poll operation")
    ctx.assumptions = ["sequentially consistent interleavings (the code uses seq_cst std::atomic); weaker memory orders are outside the model",
                       "messages are 2..4 words with unique content per (id, offset); rings of 4..16 words",
                       "real-thread histories are ordered by tickets of one atomic counter taken before a call and after its return"]
    if ctx.replay:
        case = json.load(open(ctx.replay))["case"]
        if case["kind"] == "tsan":
            run_tsan(ctx, case["seed"], 200)
        elif case["kind"] == "history":
            p = ctx.write_ndjson("replay_hist.ndjson", [dict(N=case["N"], ev=case["ev"])])
            trace_validate(ctx, p, "replay")
        else:
            inp = ctx.path("beh.ndjson")
            with open(inp, "w") as f:
                f.write(json.dumps(case["exp"]) + "\n")
            ctx.driver("threadlink_driver", "hooks", ["replay", case["N"], SHAPES[case["N"]], inp, ctx.path("replay.ndjson")])
            rej = ctx.validate("ThreadLinkReplay", "ThreadLinkReplay.cfg", ctx.path("replay.ndjson"))
            if "observable" in rej.get(1, []):
                ctx.reject(dict(clause="replay_observable_mismatch", N=case["N"]), case, "same schedule, different hasNext/read result than ThreadLink.tla")
        return
    thorough = ctx.tier == "thorough"
    # (1) the design: exhaustive model checking + specification mutants
    r = ctx.spec_law("ThreadLink", "ThreadLink_big.cfg" if thorough else "ThreadLink_none.cfg", workers=16, timeout=3000, xmx="24g")
    ctx.bounds["model"] = "N=8 Lens={0,2,3,4} K=5 P=6" if thorough else "N=6 Lens={0,2,3} K=4 P=4"
    ctx.exhaustive = True
    for b in ("publish_first", "release_first", "no_slot", "no_resync"):
        ctx.spec_mutant("ThreadLink", "ThreadLink_%s.cfg" % b, workers=8)
    ctx.notes["spec_mutants_rejected"] = 4
    # (2) engine A
    tot_s = tot_n = 0
    for N, cfg, tag in ((8, "ThreadLinkSim_n8.cfg", "n8"), (6, "ThreadLinkSim_n6.cfg", "n6")):
        s, n = replay(ctx, N, cfg, 2500 if thorough else 300, 60, tag)
        tot_s += s
        tot_n += n
    if tot_s:
        ctx.notes["structure_note"] = ("%d of %d replayed behaviours did not stop at the predicted hook points; this is not a violation "
                                       "(their histories were judged by ThreadLinkTrace)" % (tot_s, tot_n))
    # (3) engine B
    ctx.driver("threadlink_driver", "hooks", ["random", ctx.seed, 6000 if thorough else 600, ctx.path("hist_random.ndjson")])
    recs = trace_validate(ctx, ctx.path("hist_random.ndjson"), "random")
    ctx.driver("threadlink_driver", "hooks", ["threads", ctx.seed, 3000 if thorough else 300, ctx.path("hist_threads.ndjson")])
    recs2 = trace_validate(ctx, ctx.path("hist_threads.ndjson"), "threads")
    run_tsan(ctx, ctx.seed + 1, 2000 if thorough else 200)
    ctx.sample(dict(kind="history", N=recs2[0]["N"], events=recs2[0]["ev"][:16]))
