#!/usr/bin/env python3
"""regenerates the tables of DESIGN.md sections 0.5 / 0.6 from selftest/results.json, seeded/*/meta.json and seeded/NOTES.json
(between the markers <!-- MUTANT_TABLE --> ... <!-- /MUTANT_TABLE --> and <!-- SEEDED_TABLE --> ... <!-- /SEEDED_TABLE -->)"""
import json, os, re
V = os.path.dirname(os.path.dirname(os.path.abspath(__file__)))
rs = json.load(open(os.path.join(V, "selftest", "results.json")))
notes = json.load(open(os.path.join(V, "seeded", "NOTES.json")))
def clause(v):
    t = v.split("  (", 1)[1] if "  (" in v else v
    t = re.sub(r";\s*\d+ case\(s\)\)?$", "", t)
    return t[:110].replace("|", "/")
def res(r):
    v = list(r["results"].values())[0]
    if v.startswith("caught"):
        return "`" + clause(v) + "`"
    if r.get("expect") == "equivalent":
        return "not caught: behaviour-preserving on the current tree (see First run)"
    return v[:60]
mt = "| Property | Edit (mutants/catalog.json) | What it does | Caught by |\n|---|---|---|---|\n"
for r in sorted([r for r in rs if r["kind"] == "mutant"], key=lambda r: r["name"]):
    mt += "| %s | `%s` | %s | %s |\n" % (r["property"], r["name"], r["why"][:170].replace("|", "/"), res(r))
st = "| Id | Seeded change | Trigger | First run | Now caught by |\n|---|---|---|---|---|\n"
for r in sorted([r for r in rs if r["kind"] == "seeded"], key=lambda r: r["name"]):
    m = json.load(open(os.path.join(V, "seeded", r["name"], "meta.json")))
    first = ("missed -> " + notes[r["name"]]) if r["name"] in notes else "caught"
    st += "| %s | %s | %s | %s | %s |\n" % (r["name"], m["summary"][:200].replace("|", "/").replace("\n", " "), m["trigger"][:160].replace("|", "/").replace("\n", " "), first, res(r))
p = os.path.join(V, "DESIGN.md")
s = open(p).read()
s = re.sub(r"<!-- MUTANT_TABLE -->.*?<!-- /MUTANT_TABLE -->", "<!-- MUTANT_TABLE -->\n" + mt.replace("\\", "\\\\") + "<!-- /MUTANT_TABLE -->", s, flags=re.S)
s = re.sub(r"<!-- SEEDED_TABLE -->.*?<!-- /SEEDED_TABLE -->", "<!-- SEEDED_TABLE -->\n" + st.replace("\\", "\\\\") + "<!-- /SEEDED_TABLE -->", s, flags=re.S)
open(p, "w").write(s)
print("mutants:", mt.count("\n") - 2, "seeded:", st.count("\n") - 2, "missed at first:", sum(1 for r in rs if r["name"] in notes))
