INIT MInit
NEXT MNext
INVARIANT RtQuiet
CONSTRAINT Bound
CHECK_DEADLOCK FALSE
