// build: g++ -std=c++11 -g -I/tmp/wt/C14_h/include finding5.cpp /tmp/wt/C14_h/_build/librtosc-cpp.a /tmp/wt/C14_h/_build/librtosc.a -o finding5 && ./finding5
//
// rOptionsBound(a,b,c) is meant to declare the options AND bound the port to
// them, but it declares max = <number of options> instead of <last index>:
// index 3 is accepted and stored for a port whose options are 0,1,2.
#include <rtosc/ports.h>
#include <rtosc/port-sugar.h>
#include <cstdio>
#include <cstring>
using namespace rtosc;

struct Obj { int shape; };
#define rObject Obj
static const Ports ports = { rOption(shape, rOptionsBound(sine, saw, square), "three options") };
struct Rt : RtData {
    char buf[128];
    Rt(Obj *o) { memset(buf, 0, sizeof buf); loc = buf; loc_size = sizeof buf; obj = o; }
};

int main()
{
    Obj o; o.shape = 0;
    Rt rt(&o);
    int bad = 0;
    printf("metadata of /shape:");
    for(auto m : ports["shape"]->meta())
        if(m.value) printf(" %s=%s", m.title, m.value);
    printf("\n");
    const int in[] = {2, 3, 4, 1000};
    for(int v : in) {
        char m[64];
        rtosc_message(m, sizeof m, "/shape", "i", v);
        ports.dispatch(m, rt, true);
        int exp = v > 2 ? 2 : v;
        printf("/shape %4d: expected stored %d (last option), got %d%s\n", v, exp, o.shape, exp == o.shape ? "" : "   <-- WRONG, no such option");
        bad |= exp != o.shape;
    }
    puts(bad ? "FAIL" : "ok");
    return bad;
}
