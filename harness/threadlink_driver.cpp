// Conformance driver for C06 (rtosc::ThreadLink).  Build with the `hooks` variant.
//
//  replay <N> <maxlen> <behaviours.ndjson> <out.ndjson>
//      behaviours: one JSON array of ThreadLink.tla steps per line (TLC -simulate).  Writer and
//      reader run as two coroutines in one OS thread; RTOSC_VERIF_POINT yields to the
//      scheduler, which follows the behaviour's thread choices.  Logged per behaviour: for
//      each step the hook point at which the thread now waits (0 = the call returned) and, at
//      the end of a poll, hasNext and the words returned by read; plus the API-level history.
//  random <seed> <count> <out.ndjson>
//      seeded random programs and schedules on rings of several sizes; API-level histories only.
//  threads <seed> <count> <out.ndjson>
//      two real OS threads, free running; every API call bracketed by tickets of one atomic
//      counter (a total order consistent with real time); histories only.
//
// A history is {"N":cells,"ev":[{"e":"wb","len":L},{"e":"we"},{"e":"pb","la":bool},
//                               {"e":"pe","has":bool,"msg":[words...]}, ...]}
// Message `id` of L words: word0 = "/<'A'+id>\0\0"; id % 3 selects the shape (spec/ThreadLinkWords.tla): ints (word1 = "," + (L-2) x 'i',
// word k>=2 = id*16+k), one blob (",b", its size, payload words id*16+k) or one string (",s", one letter repeated, NUL).
// L = 0 is an oversized write (the constructor returns 0 and nothing may be queued).
#include <rtosc/thread-link.h>
#include <rtosc/rtosc.h>
#include <ucontext.h>
#include <atomic>
#include <thread>
#include <random>
#include <algorithm>
#include "vjson.hpp"

extern "C" void (*rtosc_verif_point)(int);

static ucontext_t mainctx, co[2];
static int cur = -1;
static int last_point[2];
static bool at_boundary[2];
static char stacks[2][1 << 17];
static void hook(int id) { if (cur < 0) return; last_point[cur] = id; at_boundary[cur] = false; int c = cur; cur = -1; swapcontext(&co[c], &mainctx); }
static void boundary() { int c = cur; at_boundary[c] = true; last_point[c] = 0; cur = -1; swapcontext(&co[c], &mainctx); }
static void resume(int t) { cur = t; swapcontext(&mainctx, &co[t]); }

static rtosc::ThreadLink *tl;
static int maxlen_words = 4;
static int next_len, next_mode, wid;
static bool r_has; static std::vector<long long> r_words;

static void do_write(rtosc::ThreadLink *link, int id, int L) {
    char addr[3] = {'/', (char)('A' + id % 60), 0};
    if (L == 0) { // oversized: one string argument longer than MaxMsg
        std::string big(4 * maxlen_words + 8, 'x'); rtosc_arg_t a; a.s = big.c_str(); link->writeArray(addr, "s", &a); return; }
    int shape = L < 3 ? 0 : id % 3;                                  // spec/ThreadLinkWords.tla: ints, one blob, one string
    if (shape == 1) { std::vector<uint8_t> pay(4 * (L - 3)); for (int k = 3; k < L; ++k) { uint32_t v = (uint32_t)(id * 16 + k); pay[4 * (k - 3)] = v >> 24; pay[4 * (k - 3) + 1] = v >> 16; pay[4 * (k - 3) + 2] = v >> 8; pay[4 * (k - 3) + 3] = v; }
        rtosc_arg_t a; a.b.len = (int32_t)pay.size(); a.b.data = pay.data(); link->writeArray(addr, "b", &a); return; }
    if (shape == 2) { std::string str(4 * (L - 2) - 1, (char)(97 + id % 26)); rtosc_arg_t a; a.s = str.c_str(); link->writeArray(addr, "s", &a); return; }
    rtosc_arg_t a[8]; std::string tags(L - 2, 'i');
    for (int k = 2; k < L; ++k) a[k - 2].i = id * 16 + k;
    link->writeArray(addr, tags.c_str(), a);
}
static void do_poll(rtosc::ThreadLink *link, bool la, bool &has, std::vector<long long> &words) {
    has = la ? link->hasNextLookahead() : link->hasNext();
    words.clear();
    if (has) {
        const char *m = la ? link->read_lookahead() : link->read();
        size_t n = rtosc_message_length(m, 4 * maxlen_words);
        for (size_t k = 0; k + 4 <= n; k += 4) { const unsigned char *p = (const unsigned char *)m + k; words.push_back(((long long)p[0] << 24) | (p[1] << 16) | (p[2] << 8) | p[3]); }
    }
}
static void writer_co() { for (;;) { boundary(); do_write(tl, ++wid, next_len); } }
static void reader_co() { for (;;) { boundary(); do_poll(tl, next_mode, r_has, r_words); } }

static void ev_wb(JW &w, int L) { w.obj().kstr("e", "wb").knum("len", L).end_obj(); }
static void ev_we(JW &w) { w.obj().kstr("e", "we").end_obj(); }
static void ev_pb(JW &w, bool la) { w.obj().kstr("e", "pb").kbool("la", la).end_obj(); }
static void ev_pe(JW &w, bool has, const std::vector<long long> &words) { w.obj().kstr("e", "pe").kbool("has", has).key("msg").arr(); for (auto x : words) w.num(x); w.end_arr().end_obj(); }

struct Sched { // one execution under the coroutine scheduler
    rtosc::ThreadLink link; JW ev, steps;
    Sched(int N, int maxlen) : link(4 * maxlen, N / maxlen) {
        tl = &link; wid = 0; maxlen_words = maxlen;
        for (int t = 0; t < 2; ++t) { getcontext(&co[t]); co[t].uc_stack.ss_sp = stacks[t]; co[t].uc_stack.ss_size = sizeof stacks[t]; co[t].uc_link = &mainctx;
            makecontext(&co[t], t == 0 ? writer_co : reader_co, 0); resume(t); }
        ev.arr(); steps.arr();
    }
    // advance thread t by one step; if it is idle, start an operation with the given argument
    void step(int t, int arg) {
        bool started = false;
        if (at_boundary[t]) { started = true; if (t == 0) { next_len = arg; ev_wb(ev, arg); } else { next_mode = arg; ev_pb(ev, arg != 0); } }
        resume(t);
        bool ended = at_boundary[t];
        if (ended) { if (t == 0) ev_we(ev); else ev_pe(ev, r_has, r_words); }
        steps.obj().kstr("th", t == 0 ? "w" : "r").kbool("started", started).knum("at", last_point[t]).kbool("end", ended);
        if (ended && t == 1) { steps.kbool("has", r_has).key("msg").arr(); for (auto x : r_words) steps.num(x); steps.end_arr(); }
        steps.end_obj();
    }
    void drain() { for (int t = 0; t < 2; ++t) while (!at_boundary[t]) step(t, 0); }
};

static int run_replay(int N, int maxlen, const char *in, const char *outp) {
    FILE *f = fopen(in, "r"); FILE *out = fopen(outp, "w"); if (!f || !out) return 2;
    std::string line;
    while (read_line(f, line)) {
        if (line.empty()) continue;
        J beh = jparse(line);
        Sched s(N, maxlen);
        for (auto &st : beh.a) {
            int t = st["th"].s == "w" ? 0 : 1;
            // the behaviour says which thread moves; an operation start carries its argument
            s.step(t, (int)st["arg"].num());
        }
        s.steps.end_arr();
        JW hist = s.ev;           // history up to here (open operations stay open: no end event)
        hist.end_arr();
        JW w; w.obj().knum("N", N).key("exp").raw(line).key("obs").raw(s.steps.s).key("ev").raw(hist.s).end_obj();
        fprintf(out, "%s\n", w.s.c_str());
        s.drain();
    }
    fclose(f); fclose(out); return 0;
}

static int run_random(uint64_t seed, long count, const char *outp) {
    FILE *out = fopen(outp, "w"); if (!out) return 2;
    std::mt19937_64 rng(seed * 7919 + 5);
    for (long i = 0; i < count; ++i) {
        static const int shapes[][2] = {{6, 3}, {8, 4}, {12, 4}, {9, 3}, {16, 4}, {4, 2}};   // {cells, max message words}
        int k = (int)(rng() % 6); int N = shapes[k][0], ml = shapes[k][1];
        Sched s(N, ml);
        int nsteps = 20 + (int)(rng() % 120); int bias = (int)(rng() % 5);   // bias: writer-heavy .. reader-heavy
        for (int j = 0; j < nsteps; ++j) {
            int t = ((int)(rng() % 4) < bias) ? 1 : 0; if (bias == 2) t = (int)(rng() % 2);
            int arg;
            if (t == 0) { arg = (rng() % 12 == 0) ? 0 : 2 + (int)(rng() % (ml - 1)); }
            else arg = (rng() % 3 == 0) ? 1 : 0;
            s.step(t, arg);
        }
        s.drain(); s.ev.end_arr();
        JW w; w.obj().knum("N", N).key("ev").raw(s.ev.s).end_obj();
        fprintf(out, "%s\n", w.s.c_str());
    }
    fclose(out); return 0;
}

// ---- two real threads
struct TEv { long long ticket; int kind; int a; bool has; std::vector<long long> words; };   // kind 0 wb 1 we 2 pb 3 pe
static int run_threads(uint64_t seed, long count, const char *outp) {
    FILE *out = fopen(outp, "w"); if (!out) return 2;
    rtosc_verif_point = nullptr;
    std::mt19937_64 rng(seed * 104729 + 3);
    for (long i = 0; i < count; ++i) {
        static const int shapes[][2] = {{8, 4}, {12, 4}, {6, 3}, {16, 4}};
        int k = (int)(rng() % 4); int N = shapes[k][0], ml = shapes[k][1]; maxlen_words = ml;
        rtosc::ThreadLink link(4 * ml, N / ml);
        std::atomic<long long> ticket{0}; std::atomic<int> go{0};
        int nw = 8 + (int)(rng() % 10), np = 10 + (int)(rng() % 14);
        uint64_t s1 = rng(), s2 = rng();
        std::vector<TEv> we, re;
        std::thread tw([&] { std::mt19937_64 g(s1); while (!go.load()) {} for (int j = 0; j < nw; ++j) {
            int L = (g() % 12 == 0) ? 0 : 2 + (int)(g() % (ml - 1));
            we.push_back({ticket.fetch_add(1), 0, L, false, {}}); do_write(&link, j + 1, L); we.push_back({ticket.fetch_add(1), 1, 0, false, {}});
            for (volatile int z = (int)(g() % 200); z > 0; --z) {} } });
        std::thread tr([&] { std::mt19937_64 g(s2); while (!go.load()) {} for (int j = 0; j < np; ++j) {
            bool la = g() % 3 == 0; bool has; std::vector<long long> words;
            re.push_back({ticket.fetch_add(1), 2, la, false, {}}); do_poll(&link, la, has, words); re.push_back({ticket.fetch_add(1), 3, 0, has, words});
            for (volatile int z = (int)(g() % 200); z > 0; --z) {} } });
        go.store(1); tw.join(); tr.join();
        std::vector<TEv> all = we; all.insert(all.end(), re.begin(), re.end());
        std::sort(all.begin(), all.end(), [](const TEv &a, const TEv &b) { return a.ticket < b.ticket; });
        JW ev; ev.arr();
        for (auto &e : all) { if (e.kind == 0) ev_wb(ev, e.a); else if (e.kind == 1) ev_we(ev); else if (e.kind == 2) ev_pb(ev, e.a != 0); else ev_pe(ev, e.has, e.words); }
        ev.end_arr();
        JW w; w.obj().knum("N", N).key("ev").raw(ev.s).end_obj();
        fprintf(out, "%s\n", w.s.c_str());
    }
    fclose(out); return 0;
}

int main(int argc, char **argv) {
    if (argc < 5) { fprintf(stderr, "usage\n"); return 2; }
    std::string mode = argv[1];
    rtosc_verif_point = hook;
    if (mode == "replay") return run_replay(atoi(argv[2]), atoi(argv[3]), argv[4], argv[5]);
    if (mode == "random") return run_random(strtoull(argv[2], 0, 10), atol(argv[3]), argv[4]);
    if (mode == "threads") return run_threads(strtoull(argv[2], 0, 10), atol(argv[3]), argv[4]);
    return 2;
}
