// build: g++ -std=c++11 -g -I/tmp/wt/C14_h/include finding3.cpp /tmp/wt/C14_h/_build/librtosc-cpp.a /tmp/wt/C14_h/_build/librtosc.a -o finding3 && ./finding3
// (with clang++ -fsanitize=address and a heap allocated loc: heap-buffer-overflow in Ports::dispatch, ports.cpp:589)
//
// The element number in the address of an array port may be spelled with
// leading zeros (/arr01, /arr0001 all match "arr#4" and name element 1).
// Ports::dispatch copies the address as spelled into RtData::loc without
// looking at RtData::loc_size, so one message with a long run of zeros writes
// past the end of the caller's loc buffer - however generously it was sized for
// the addresses of the port tree.
#include <rtosc/ports.h>
#include <rtosc/port-sugar.h>
#include <cstdarg>
#include <cstdio>
#include <cstring>
#include <string>
using namespace rtosc;

struct Obj { char arr[4]; };
#define rObject Obj
static const Ports ports = { rArrayI(arr, 4, "d") };

struct Rt : RtData {
    // loc and what lies behind it in one object, so that the stray write can
    // be shown without crashing this program
    struct { char loc[128]; char behind[1024]; } mem;
    Rt(Obj *o) { memset(&mem, 0, sizeof mem); loc = mem.loc; loc_size = sizeof mem.loc; obj = o; }
    void reply(const char *, const char *, ...) override {}
    void reply(const char *) override {}
};

int main()
{
    Obj o; memset(&o, 0, sizeof o);
    Rt rt(&o);
    int bad = 0;

    std::string addr = "/arr" + std::string(300, '0') + "1";   // names element 1
    char msg[1024];
    rtosc_message(msg, sizeof msg, addr.c_str(), "i", 5);
    printf("dispatching /arr<300 zeros>1 ,i 5 with loc_size = %zu\n", rt.loc_size);
    ports.dispatch(msg, rt, true);
    printf("  matches = %d, arr[1] = %d\n", rt.matches, o.arr[1]);

    // dispatch zeroes what it appended when it is done: look for traces of the
    // write in memory that was filled with 0x55 beforehand instead
    memset(rt.mem.behind, 0x55, sizeof rt.mem.behind);
    ports.dispatch(msg, rt, true);
    size_t touched = 0;
    for(size_t i = 0; i < sizeof rt.mem.behind; ++i)
        if(rt.mem.behind[i] != 0x55) ++touched;
    printf("  expected: nothing outside loc[0..%zu) is written (message refused or address cut)\n", rt.loc_size);
    printf("  got:      %zu bytes behind loc were overwritten\n", touched);
    if(touched) bad = 1;

    puts(bad ? "FAIL" : "ok");
    return bad;
}
