CONSTANTS MaxLen = 6  Pool = "runs"
INIT Init
NEXT Next
INVARIANT FormsLaw
CONSTRAINT Emit
CHECK_DEADLOCK FALSE
