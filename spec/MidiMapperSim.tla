---------------------------- MODULE MidiMapperSim ----------------------------
(* Engine A front-end for C20: behaviours of MidiMapper.tla (API calls, controller    *)
(* events and the delivery order of the inter-half messages) drawn by TLC -simulate;   *)
(* the driver performs them on real MidiMappernRT / MidiMapperRT objects.             *)
EXTENDS MidiMapper, Json, CSV, IOUtils
VARIABLE sops
SimInit == Init /\ sops = <<>>
SimNext == Next /\ sops' = Append(sops, step')
Out == IOEnv.OUT
MaxDepth == atoi(IOEnv.DEPTH)
\* one candidate successor per behaviour is written (TLC evaluates the constraint on all of them): the one ending with "clear"
Export == (TLCGet("level") < MaxDepth) \/ step.op # "clear" \/ CSVWrite("%1$s", <<ToJson(sops)>>, Out)
=============================================================================
