----------------------------- MODULE RtAlphabet -----------------------------
(* C03: the realtime operation alphabet - which library operations count as "the message  *)
(* path" and which classes of input each must have met before a verdict means anything.     *)
EXTENDS Naturals, Sequences, FiniteSets
\* ------------------------------------------------------------------ the realtime operation alphabet
\* op -> the input classes that must have been exercised for the verdict to mean something
Alphabet ==
  [ op : {"msg.build", "msg.vbuild", "msg.measure", "bundle.build"},             cls : {"fits", "oversized"} ] \cup
  [ op : {"msg.length", "msg.valid", "msg.read", "msg.itr", "bundle.read"},      cls : {"any"} ] \cup
  [ op : {"match.path", "match.msg"},                                           cls : {"match", "nomatch"} ] \cup
  [ op : {"dispatch.loc", "dispatch.noloc"},
    cls : {k \o "/" \o m : k \in {"flat", "hashed", "enum", "nested", "dflt"}, m \in {"match", "nomatch", "oversized", "alltags"}} ] \cup
  [ op : {"sugar.set", "sugar.get"},                                            cls : {"match", "nomatch"} ] \cup
  [ op : {"link.write", "link.writeArray", "link.raw_write"},                   cls : {"fits", "full", "oversized"} ] \cup
  [ op : {"link.hasNext", "link.hasNextLookahead"},                             cls : {"empty", "nonempty"} ] \cup
  [ op : {"link.read", "link.readLookahead"},                                   cls : {"nonempty"} ] \cup
  [ op : {"link.peak"},                                                         cls : {"any"} ]        \* the last message read, whatever the queue holds
\* raw_write takes an already valid message: nothing oversized can be handed to it (it would be a caller error)
Required == Alphabet \ [ op : {"link.raw_write"}, cls : {"oversized"} ]
RtOpNames == {r.op : r \in Alphabet}
\* positive controls of the harness: operations that are NOT realtime safe, on purpose
Controls == {"control.alloc", "control.free", "control.lock"}
=============================================================================
