// build: g++ -std=c++11 -I/tmp/wt/C12_h/include finding9.cpp /tmp/wt/C12_h/_build/librtosc-cpp.a /tmp/wt/C12_h/_build/librtosc.a -o finding9
//
// Saving an application with a '#N' array of 2048 or more elements writes
// behind the stack arrays arg_vals_runtime[2048]/arg_vals_default[2048] of
// get_changed_values(): the element values are collected one by one without
// looking at the remaining capacity (max_arg_vals is passed unchanged for every
// element), and in release builds the default value is scanned without a check.
#include <rtosc/rtosc.h>
#include <rtosc/ports.h>
#include <rtosc/savefile.h>
#include <rtosc/port-sugar.h>
#include <cstdio>
#include <string>
#include <set>
#include <sys/wait.h>
#include <unistd.h>
using namespace rtosc;

#define N 3000
struct App { static const Ports& ports; int table[N]; int after = 0; App() { for(int& v : table) v = 0; } };
#define rObject App
static const Ports app_ports = {
    rArrayI(table, 3000, rDefault([3000x0]), "a table of 3000 values"),
    rParamI(after, rDefault(0), "another parameter"),
};
#undef rObject
const Ports& App::ports = app_ports;

int main()
{
    printf("expected: the untouched application is saved as the two header lines\n");
    fflush(stdout);
    pid_t pid = fork();
    if(pid == 0)
    {
        static App a;
        std::set<std::string> written;
        std::string f = save_to_file(app_ports, &a, "app", rtosc_version{1,0,0}, written, {});
        printf("happened: save_to_file returned\n%s\n", f.c_str());
        fflush(stdout);
        _exit(f.find('/') == std::string::npos ? 0 : 1);
    }
    int status = 0;
    waitpid(pid, &status, 0);
    if(WIFSIGNALED(status)) {
        printf("happened: save_to_file was killed by signal %d\n", WTERMSIG(status));
        return 1;
    }
    return WEXITSTATUS(status);
}
