CONSTANTS Mode = "enum"  Depth = 0  MaxLen = 12  Alphabet = {0, 98, 105, 255, 252}  Prefix = "hdr_b"
INIT Init
NEXT Next
INVARIANT Laws
CONSTRAINT Emit
VIEW View
CHECK_DEADLOCK FALSE
