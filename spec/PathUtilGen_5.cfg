CONSTANTS MaxComps = 5
INIT Init
NEXT Next
INVARIANT Laws
CONSTRAINT Emit
CHECK_DEADLOCK FALSE
