CONSTANTS Addr = {"a", "b", "c", "d", "e"}  Vals = {0, 1, 2, 3}  Types = {"i", "f", "c"}  Max = 20  Window = 2  MaxClock = 100000  Bug = "none"  Profile = "cap"
INIT SimInit
NEXT SimNext
INVARIANT Book UndoAllRestores RedoAllRestores
CONSTRAINT Export
CHECK_DEADLOCK FALSE
