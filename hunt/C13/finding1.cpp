// g++ -std=c++11 -I/tmp/wt/C13_h/include finding1.cpp /tmp/wt/C13_h/_build/librtosc-cpp.a /tmp/wt/C13_h/_build/librtosc.a -o finding1 && ./finding1
//
// C13 finding 1: scan_deps() looks the saved port itself up with Ports::apropos(),
// which is a prefix search. A port declared earlier whose name merely starts with
// the same letters ("pan_mode" for "/pan") is taken instead, so the dependencies of
// the real port are not seen (a) - or foreign dependencies are attached to it (b).
#include <rtosc/ports.h>
#include <rtosc/port-sugar.h>
#include <rtosc/savefile.h>
#include <cstdio>
#include <string>
using namespace rtosc;

static bool rw(const char* m, RtData& d, int& ref)
{
    if(*rtosc_argument_string(m)) { ref = rtosc_argument(m, 0).i; return true; }
    d.reply(d.loc, "i", ref); return false;
}

// (a) pan's default depends on preset; choosing a preset overwrites pan (like
//     env_type in test/default-value.cpp). pan_mode is an unrelated parameter.
struct Fx { int pan_mode = 0, pan = 64, preset = 0; };
static const int preset_pan[3] = { 64, 0, 127 };
static const Ports fx_ports = {
    {"pan_mode::i", rProp(parameter) rDefault(0), NULL,
        [](const char* m, RtData& d) { rw(m, d, ((Fx*)d.obj)->pan_mode); }},
    {"pan::i", rProp(parameter) rDefaultDepends(preset) rPresets(64, 0, 127), NULL,
        [](const char* m, RtData& d) { rw(m, d, ((Fx*)d.obj)->pan); }},
    {"preset::i", rProp(parameter) rDefault(0), NULL,
        [](const char* m, RtData& d) { Fx* o = (Fx*)d.obj;
            if(rw(m, d, o->preset)) o->pan = preset_pan[o->preset % 3]; }},
};

// (b) "ab" declares a dependency on "a"; "/a" is looked up as "ab" and so
//     becomes its own predecessor: neither message is ever dispatched
struct G { int a = 0, ab = 0; };
static const Ports g_ports = {
    {"ab::i", rProp(parameter) rDefault(0) rDepends(a), NULL,
        [](const char* m, RtData& d) { rw(m, d, ((G*)d.obj)->ab); }},
    {"a::i", rProp(parameter) rDefault(0), NULL,
        [](const char* m, RtData& d) { rw(m, d, ((G*)d.obj)->a); }},
};

int main()
{
    int rc = 0;
    {
        Fx saved; saved.preset = 1; saved.pan = 10;
        std::set<std::string> w;
        std::string file = get_changed_values(fx_ports, &saved, w, {});
        printf("(a) savefile written by the library:\n%s\n", file.c_str());

        Fx l1, l2;
        int r1 = dispatch_printed_messages("/pan 10\n/preset 1\n", fx_ports, &l1);
        int r2 = dispatch_printed_messages("/preset 1\n/pan 10\n", fx_ports, &l2);
        printf("    expected for both line orders: 2 messages, preset=1 pan=10\n");
        printf("    '/pan 10' first   : %d messages, preset=%d pan=%d\n", r1, l1.preset, l1.pan);
        printf("    '/preset 1' first : %d messages, preset=%d pan=%d\n", r2, l2.preset, l2.pan);
        if(r1 != r2 || l1.pan != l2.pan || l1.pan != 10) { puts("    => FAIL: result depends on the line order"); rc = 1; }
    }
    {
        G l;
        fflush(stdout);
        int r = dispatch_printed_messages("/a 1\n/ab 2\n", g_ports, &l);
        printf("(b) file '/a 1' '/ab 2' (an assertion stops this case if the library is built without NDEBUG)\n");
        printf("    expected: 2 messages, a=1 ab=2\n");
        printf("    got     : %d messages, a=%d ab=%d\n", r, l.a, l.ab);
        if(r != 2 || l.a != 1 || l.ab != 2) { puts("    => FAIL: messages reported as loaded were never applied"); rc = 1; }
    }
    return rc;
}
