"""C17 - port metadata is read back exactly as written.
Metadata.tla defines Block/Iterate/Lookup/Length; MetadataGen enumerates entry lists (keys
and values over {a : = space 1}, empty values, valueless entries, repeated keys) and checks
that the block grammar is unambiguous; the real Port::meta() iteration, operator[], find and
length() run on each block (exact-size heap copy under ASan) and on seeded random blocks of
1..8 entries; PortTreeTrace judges."""
import json, os, random
from vlib import core

ALPHA = "a:= 1bZ"


def key_str(e):
    return bytes(e["key"]).decode("latin1")


def block_of(es):
    out = []
    for e in es:
        out += [58] + e["key"] + [0]
        if e["has"]:
            out += [61] + e["val"] + [0]
    return out + [0]


# what the metadata macros of port-sugar.h are documented to produce for the ports of mmacro::M (harness/tree_driver.cpp), in order:
# rProp(x) -> ':x'; rMap(k, v) -> ':k=v'; rLinear / rLog(a, b) -> min, max, scale; rLogWithLogmin adds logmin before the scale; rDefault -> default;
# rPresets(v0, v1, ..) -> 'default 0', 'default 1', ..; rDefaultDepends -> 'default depends'; rDepends(a, b) -> depends='a,b,'; rOptions(..) -> 'map 0', ..;
# rShort -> shortname; rEnabledBy -> 'enabled by'; the last macro argument -> documentation; each port macro contributes its own leading entries
MACRO_PORTS = [
    ("self:", [("internal", None), ("class", "M"), ("enabled by", "t"), ("documentation", "port metadata")]),
    ("a::i", [("parameter", None), ("min", "0"), ("max", "127"), ("scale", "linear"), ("default", "5"), ("shortname", "vol"), ("documentation", "volume")]),
    ("f::f", [("parameter", None), ("min", "0.01"), ("max", "100"), ("scale", "logarithmic"), ("default depends", "a"), ("default 0", "1.0"), ("default 1", "2.5"), ("default 2", "4"),
              ("documentation", "freq: in Hz = cycles")]),
    ("o::i:c:S", [("parameter", None), ("enumerated", None), ("map 0", "sine"), ("map 1", "saw"), ("map 2", "white noise"), ("default", "saw"), ("no learn", None), ("documentation", "shape")]),
    ("t::T:F", [("parameter", None), ("default", "true"), ("internal", None), ("unit", "Hz"), ("documentation", "a=b:c")]),
    ("s::s", [("length", "8"), ("parameter", None), ("default", '"abc"'), ("documentation", "str")]),
    ("arr#3::i", [("parameter", None), ("min", "0"), ("max", "10"), ("scale", "linear"), ("default", "[1 2 3]"), ("depends", "a,t,"), ("documentation", "array")]),
    ("act:", [("alias", None), ("documentation", "")]),
    ("a::i", [("parameter", None), ("min", "0"), ("max", "100"), ("logmin", "0.5"), ("scale", "logarithmic"), ("no defaults", None), ("documentation", "x")]),
]


def macro_inputs(ctx):
    """the metadata of ports written with the real macros: raw bytes from the driver, entries from the table above"""
    ctx.driver("tree_driver", "asan", ["metamacro", "/dev/null", ctx.path("macro.ndjson")])
    recs = ctx.read_ndjson(ctx.path("macro.ndjson"))
    if [bytes(r["name"]).decode("latin1") for r in recs] != [n for n, _ in MACRO_PORTS]:
        raise core.Broken("the macro-built port table of the driver and MACRO_PORTS differ: %s" % [bytes(r["name"]).decode("latin1") for r in recs])
    os.remove(ctx.path("macro.ndjson"))
    return [dict(es=[dict(key=[ord(c) for c in k], has=v is not None, val=[ord(c) for c in (v or "")]) for k, v in es], block=r["block"]) for r, (_, es) in zip(recs, MACRO_PORTS)]


def judge(ctx, log):
    rej = ctx.validate("PortTreeTrace", "PortTreeTrace.cfg", log)
    n = 0
    with open(log) as f:
        for i, line in enumerate(f, 1):
            n += 1
            if i in rej or i % 20000 == 7:
                r = json.loads(line)
                desc = " ".join(":%s%s" % (key_str(e), ("=" + bytes(e["val"]).decode("latin1")) if e["has"] else "") for e in r["es"])
                if i % 20000 == 7:
                    ctx.sample(dict(entries=desc, block_len=r.get("length")))
                for c in rej.get(i, []):
                    ctx.reject(dict(clause=c, entries=desc), dict(es=r["es"], block=r["block"]), "clause %s fails for metadata '%s' %s" % (c, desc, r.get("asan_what", "")))
    return n


def run(ctx):
    ctx.rule = ("every entry list of MetadataGen (<= MaxEntries entries; 24 keys, 10 values + valueless) and seeded random lists of 1..8 entries with "
                "longer keys/values; the metadata of nine ports written with the real macros (raw bytes against the documented expansion); evaluations = blocks; non-trivial = block with >= 2 entries")
    ctx.assumptions = ["keys are non-empty, contain no NUL and do not begin with ':' (Port::meta() and MetaContainer::begin() each strip one ':')"]
    if ctx.replay:
        case = json.load(open(ctx.replay))["case"]
        p = ctx.write_ndjson("in.ndjson", [case])
        ctx.driver("tree_driver", "asan", ["meta", p, ctx.path("log.ndjson")])
        judge(ctx, ctx.path("log.ndjson"))
        return
    thorough = ctx.tier == "thorough"
    vec, r = ctx.vectors("MetadataGen", "MetadataGen_2.cfg", "md")
    ctx.exhaustive = True
    ctx.bounds = dict(max_entries=2, generated=len(vec))
    rng = random.Random(ctx.seed)
    rnd = []
    for _ in range(200000 if thorough else 20000):
        es = []
        for _ in range(rng.randint(1, 8)):
            k = rng.choice("a= 1bZ") + "".join(rng.choice(ALPHA) for _ in range(rng.randint(0, 5)))
            if es and rng.random() < 0.25:
                k = bytes(rng.choice(es)["key"]).decode()
            has = rng.random() < 0.7
            v = "".join(rng.choice(ALPHA) for _ in range(rng.randint(0, 6))) if has else ""
            es.append(dict(key=[ord(c) for c in k], has=has, val=[ord(c) for c in v]))
        rnd.append(dict(es=es, block=block_of(es)))
    mac = macro_inputs(ctx)
    ctx.notes["macro_built_blocks"] = len(mac)
    allin = mac + vec + rnd
    p = ctx.write_ndjson("in.ndjson", allin)
    ctx.driver("tree_driver", "asan", ["meta", p, ctx.path("log.ndjson")])
    n = judge(ctx, ctx.path("log.ndjson"))
    ctx.evaluations = n
    ctx.nontrivial = set(json.dumps(x["es"]) for x in allin if len(x["es"]) >= 2)
    ctx.notes["generated_blocks"] = len(vec)
    ctx.notes["random_blocks"] = len(rnd)
    os.remove(ctx.path("log.ndjson"))
