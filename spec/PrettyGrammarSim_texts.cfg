CONSTANTS MaxTokens = 10  SimMode = TRUE  PoolName = "texts"
INIT Init
NEXT Next
CONSTRAINT Emit
CHECK_DEADLOCK FALSE
