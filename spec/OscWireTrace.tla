---------------------------- MODULE OscWireTrace ----------------------------
(* Trace validation of the OSC wire family (C01 C02 C07 C08).  The log is a     *)
(* stateless trace: each line holds one abstract input and what the real code   *)
(* did with it.  Every line is a state of this module (Init picks the line), so *)
(* TLC's workers judge the lines in parallel; the judgement is the set of       *)
(* property clauses of OscWire.tla the observation breaks.  A non-empty set is  *)
(* printed as <<"REJECT", line, clauses>> and collected by bin/check.           *)
EXTENDS OscWire, Json, IOUtils
Log == ndJsonDeserialize(IOEnv.TRACE)
VARIABLE l
\* Fan-out so that TLC's workers judge lines in parallel (initial states are computed by
\* one thread): NB block states -b, each with the lines congruent to b as successors.
NB == 64
Init == l \in {0 - b : b \in 1..NB}
Next == /\ l < 0
        /\ \E j \in 0..(Len(Log) \div NB) : LET i == j * NB + (0 - l) IN i <= Len(Log) /\ l' = i

NonBr(args) == SelectSeq(args, LAMBDA a : a.t \notin {"[", "]"})
ExpVal(a) == CASE a.t = "T" -> <<1>> [] a.t = "F" -> <<0>> [] OTHER -> a.v
Has(r, f) == f \in DOMAIN r

\* ------------------------------------------------------------------ C01
MsgFails(r) ==
  IF r.sig # 0 THEN {"crash"}
  ELSE LET enc == Encode(r.addr, r.args)
           nb  == NonBr(r.args)
           tg  == TagBytes(r.args)
       IN  {k \in {"asan", "sizeq", "ret_a", "bytes_a", "ret_v", "bytes_v", "ret_av", "bytes_av",
                   "untouched_tail", "mlen", "argstr", "nargs", "types", "vals", "itr", "itr_count"} :
            ~ CASE k = "asan"     -> r.asan = 0
                [] k = "sizeq"    -> r.sizeq = Size(r.addr, r.args)
                [] k = "ret_a"    -> r.ret_a = Len(enc)
                [] k = "bytes_a"  -> r.bytes = enc
                [] k = "ret_v"    -> r.v_done => r.ret_v = Len(enc)
                [] k = "bytes_v"  -> r.v_done => (r.eq_v \/ r.bytes # enc)      \* judged against the amessage image
                [] k = "ret_av"   -> r.av_done => r.ret_av = Len(enc)
                [] k = "bytes_av" -> r.av_done => (r.eq_av \/ r.bytes # enc)
                [] k = "untouched_tail" -> r.tail_ok
                [] k = "mlen"     -> r.acc => r.mlen = Len(enc)
                [] k = "argstr"   -> r.acc => r.argstr = tg
                [] k = "nargs"    -> r.acc => r.nargs = NArgs(r.args)
                [] k = "types"    -> r.acc => r.types = [i \in 1..Len(nb) |-> Code(nb[i].t)]
                [] k = "vals"     -> r.acc => r.vals = [i \in 1..Len(nb) |-> ExpVal(nb[i])]
                [] k = "itr"      -> r.acc => /\ r.itr_end
                                              /\ r.itr = [i \in 1..Len(nb) |-> [t |-> Code(nb[i].t), v |-> ExpVal(nb[i])]]
                [] k = "itr_count" -> r.acc => Len(r.itr) = NArgs(r.args) }

\* ------------------------------------------------------------------ C02
\* for every capacity c (index c+1): fits => exact size and image; does not fit =>
\* 0 and an all-zero buffer; the guard zone is never touched; no ASan report.
CapFailsOne(r, enc, rets, zero, eq, guard, asan) ==
  LET n == Len(enc) IN
  {k \in {"cap_count", "fit_ret", "fit_bytes", "short_ret", "short_zero", "guard", "asan"} :
   ~ CASE k = "cap_count" -> Len(rets) = n + 9
       [] k = "fit_ret"   -> \A i \in 1..Len(rets) : (i - 1 >= n) => rets[i] = n
       [] k = "fit_bytes" -> \A i \in 1..Len(rets) : (i - 1 >= n) => eq[i]
       [] k = "short_ret" -> \A i \in 1..Len(rets) : (i - 1 < n) => rets[i] = 0
       [] k = "short_zero" -> \A i \in 1..Len(rets) : (i - 1 < n) => zero[i]
       [] k = "guard"     -> \A i \in 1..Len(rets) : guard[i]
       [] k = "asan"      -> \A i \in 1..Len(rets) : asan[i] = 0 }
Tagged(p, S) == { p \o k : k \in S }
CapFails(r) ==
  IF r.sig # 0 THEN {"crash"}
  ELSE LET enc == Encode(r.addr, r.args) IN
       (IF r.sizeq = Len(enc) THEN {} ELSE {"sizeq"})
       \cup (IF r.ret_big = Len(enc) /\ r.bytes = enc THEN {} ELSE {"reference_image"})
       \cup Tagged("a:", CapFailsOne(r, enc, r.rets_a, r.zero_a, r.eq_a, r.guard_a, r.asan_a))
       \cup (IF r.v_done THEN Tagged("v:", CapFailsOne(r, enc, r.rets_v, r.zero_v, r.eq_v, r.guard_v, r.asan_v)) ELSE {})
       \cup (IF r.av_done THEN Tagged("av:", CapFailsOne(r, enc, r.rets_av, r.zero_av, r.eq_av, r.guard_av, r.asan_av)) ELSE {})

\* ------------------------------------------------------------------ C08 (and the bundle half of C02)
BundleFails(r) ==
  IF r.sig # 0 THEN {"crash"}
  ELSE LET n   == Len(r.elems)
           ee  == [i \in 1..n |-> EncElem(r.elems[i])]
           enc == BundleHead \o LimbsBE(r.tt) \o Concat([i \in 1..n |-> BE32Nat(Len(ee[i])) \o ee[i]]) IN
       {k \in {"elements_built", "asan_build", "message_taken_for_bundle", "ret", "bytes", "is_bundle", "nelems", "sizes",
               "fetch", "timetag", "mlen", "asan_acc"} :
        ~ CASE k = "elements_built" -> r.kids_ok
            [] k = "asan_build" -> r.asan_build = 0
            [] k = "message_taken_for_bundle" -> \A i \in 1..Len(r.msg_is_bundle) : ~ r.msg_is_bundle[i]
            [] k = "ret"       -> r.ret_big = Len(enc)
            [] k = "bytes"     -> r.bytes = enc
            [] k = "is_bundle" -> r.acc => r.is_bundle
            [] k = "nelems"    -> r.acc => r.nelems = n
            [] k = "sizes"     -> r.acc => r.sizes = [i \in 1..n |-> Len(ee[i])]
            [] k = "fetch"     -> r.acc => \A i \in 1..n : /\ r.offs[i] >= 0 /\ r.offs[i] + r.sizes[i] <= Len(r.bytes)
                                                           /\ SubSeq(r.bytes, r.offs[i] + 1, r.offs[i] + r.sizes[i]) = ee[i]
            [] k = "timetag"   -> r.acc => r.timetag = r.tt
            [] k = "mlen"      -> r.acc => r.mlen = Len(enc)
            [] k = "asan_acc"  -> r.asan_acc = 0 }
BundleCapFails(r) ==
  IF r.sig # 0 THEN {"crash"}
  ELSE LET enc == EncBundle(r.tt, r.elems) IN
       (IF r.ret_big = Len(enc) /\ r.bytes = enc THEN {} ELSE {"reference_image"})
       \cup Tagged("bundle:", CapFailsOne(r, enc, r.rets, r.zero, r.eq, r.guard, r.asan))

\* ------------------------------------------------------------------ C02, the library's own fixed buffers
\* ThreadLink::write / writeArray (write_buffer of MaxMsg bytes, then the ring) and RtData::reply / broadcast (8192-byte
\* stack buffer): a message of `need` bytes (image established by the reference constructor) either arrives whole or not at
\* all - "empty" is the zero-filled buffer the fail-closed constructor leaves behind; what was queued before is untouched.
SinkFails(r) ==
  IF r.sig # 0 THEN {"sink:crash_or_hang"}
  ELSE LET fits == r.need <= r.cap /\ (r.what \in {"ThreadLink::write", "ThreadLink::writeArray"} => r.need <= r.free) IN
       {k \in {"sink:write_outside_buffer", "sink:fitting_message_not_delivered", "sink:oversized_message_delivered_or_partial", "sink:queued_messages_disturbed"} :
        ~ CASE k = "sink:write_outside_buffer" -> r.asan = 0
            [] k = "sink:fitting_message_not_delivered" -> fits => r.got = "same"
            [] k = "sink:oversized_message_delivered_or_partial" -> ~ fits => r.got \in {"none", "empty"}
            [] k = "sink:queued_messages_disturbed" -> r.pre_ok }
\* ------------------------------------------------------------------ C07
\* arbitrary bytes b (length n).  Always: no read outside b, termination, length in {0} \cup 1..n.
\* If the predicate accepts: b must be decodable by the specification's (padding-lenient)
\* decoder inside the n bytes, and every accessor must return what that decoder returns.
ExpVal7(a) == CASE a.t = "T" -> <<1>> [] a.t = "F" -> <<0>> [] a.t \in {"N", "I", "[", "]", "?"} -> <<>> [] OTHER -> a.v
BytesFails(r) ==
  LET b == r.bytes
      n == Len(b)
      base == {k \in {"oob_read_in_length_or_valid", "crash_or_hang_in_length_or_valid", "length_exceeds_n"} :
               ~ CASE k = "oob_read_in_length_or_valid" -> r.asan_v = 0
                   [] k = "crash_or_hang_in_length_or_valid" -> r.sig_v = 0
                   [] k = "length_exceeds_n" -> r.sig_v # 0 \/ (r.mlen >= 0 /\ r.mlen <= n) }
  IN IF ~ r.valid THEN base
     ELSE LET d == DecodeLenient(b) IN
          IF ~ d.ok THEN base \cup {"accepts_undecodable"}      \* (trailing bytes behind the decoded message are not judged)
          ELSE IF r.sig_a # 0 THEN base \cup {"accessor_crash_or_hang"}
          ELSE LET nb == NonBr(d.args)
                   tb == SelectSeq(d.tagbytes, LAMBDA c : c \notin {91, 93})
                   a  == r.acc
               IN base \cup {k \in {"accessor_oob_read", "mlen_not_n", "argstr", "nargs", "types", "vals", "itr"} :
                   ~ CASE k = "accessor_oob_read" -> r.asan_a = 0
                       [] k = "mlen_not_n" -> r.mlen = n
                       [] k = "argstr" -> a.argstr = d.tagbytes
                       [] k = "nargs"  -> a.nargs = Len(nb)
                       [] k = "types"  -> a.types = tb
                       [] k = "vals"   -> a.vals = [i \in 1..Len(nb) |-> ExpVal7(nb[i])]
                       [] k = "itr"    -> a.itr_end /\ a.itr = [i \in 1..Len(nb) |-> [t |-> tb[i], v |-> ExpVal7(nb[i])]] }

Fails(r) == CASE r.k = "msg" -> MsgFails(r)
              [] r.k = "cap" -> CapFails(r)
              [] r.k = "bytes" -> BytesFails(r)
              [] r.k = "sink" -> SinkFails(r)
              [] r.k = "bundle" -> IF Has(IOEnv, "BUNDLE_AS") /\ IOEnv.BUNDLE_AS = "cap" THEN BundleCapFails(r) ELSE BundleFails(r)
              [] OTHER -> {"unknown_record_kind"}
Judge == l < 0 \/ LET f == Fails(Log[l]) IN f = {} \/ PrintT(<<"REJECT", l, f>>)
=============================================================================
