// build (in findings/): g++ -std=c++11 -I../include finding3.cpp ../_build/librtosc-cpp.a ../_build/librtosc.a -o finding3
// The message that gets an NRPN learned sets the slot to (last data byte)/127
// instead of (14 bit value)/16383: the same controller position gives a
// different slot value / parameter value while learning and afterwards.
#include <rtosc/ports.h>
#include <rtosc/automations.h>
#include <rtosc/port-sugar.h>
#include <cstdio>
#include <cmath>
struct D { float a; };
#define rObject D
static rtosc::Ports ports = { rParamF(a, rLinear(0,1), "a") };
static float last = -1;
int main()
{
    rtosc::AutomationMgr m(2, 1, 16);
    m.set_ports(ports);
    m.backend = [](const char *msg){ last = rtosc_argument(msg, 0).f; };
    // NRPN 1:2 is selected and at 64:32 before anybody wants to learn
    m.handleMidi(0, 99, 1);
    m.handleMidi(0, 98, 2);
    m.handleMidi(0,  6, 64);
    m.handleMidi(0, 38, 32);
    m.createBinding(0, "/a", true);
    m.handleMidi(0, 38, 32);          // knob sends its (unchanged) LSB: learned now
    float at_learn = last, slot_at_learn = m.getSlot(0);
    m.handleMidi(0, 38, 32);          // same position again, now as a bound controller
    float when_bound = last, slot_when_bound = m.getSlot(0);
    float expect = (64*128+32)/16383.0f;
    printf("slot 0: midi_nrpn=%d (expected 130)\n", m.slots[0].midi_nrpn);
    printf("expected slot value %.6f both times (controller at 64:32 of 127:127)\n", expect);
    printf("while learning: slot=%.6f /a=%.6f ; once bound: slot=%.6f /a=%.6f\n",
           slot_at_learn, at_learn, slot_when_bound, when_bound);
    int bad = m.slots[0].midi_nrpn != 130 || fabsf(slot_at_learn-expect) > 1e-6f
            || fabsf(slot_when_bound-expect) > 1e-6f;
    printf(bad ? "FAIL\n" : "ok\n");
    return bad;
}
