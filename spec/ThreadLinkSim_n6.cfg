CONSTANTS N = 6  Lens = {0, 2, 3}  K = 1000  P = 1000  Bug = "none"
SPECIFICATION Spec
INVARIANT Fifo LaFifo HasNextExact NoOverlap Bounds
CONSTRAINT Export
CHECK_DEADLOCK FALSE
