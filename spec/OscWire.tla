---------------------------- MODULE OscWire ----------------------------
(* Pointer-free transcription of the OSC 1.0 wire rules used by rtosc.   *)
EXTENDS Naturals, Sequences, FiniteSets, TLC

Byte == 0..255
Zeros(n) == [i \in 1..n |-> 0]
Pad4(n) == 4 - (n % 4)                 \* strings: at least one NUL
PadTo4(n) == (4 - (n % 4)) % 4         \* blobs: 0..3
Limb2Bytes(l) == << l \div 256, l % 256 >>
RECURSIVE LimbsBE(_)
LimbsBE(ls) == IF ls = <<>> THEN <<>> ELSE Limb2Bytes(Head(ls)) \o LimbsBE(Tail(ls))
BE32Nat(n) == << (n \div 16777216) % 256, (n \div 65536) % 256, (n \div 256) % 256, n % 256 >>

ValueTags == {"i","f","c","r","h","t","d","m","s","S","b","T","F","N","I"}
Tags == ValueTags \cup {"[","]"}
Code(t) == CASE t = "i" -> 105 [] t = "f" -> 102 [] t = "c" -> 99 [] t = "r" -> 114
             [] t = "h" -> 104 [] t = "t" -> 116 [] t = "d" -> 100 [] t = "m" -> 109
             [] t = "s" -> 115 [] t = "S" -> 83 [] t = "b" -> 98 [] t = "T" -> 84
             [] t = "F" -> 70 [] t = "N" -> 78 [] t = "I" -> 73 [] t = "[" -> 91 [] t = "]" -> 93
TagOf(c) == IF \E t \in Tags : Code(t) = c THEN CHOOSE t \in Tags : Code(t) = c ELSE "?"
Four == {"i","f","c","r"}   Eight == {"h","t","d"}   Str == {"s","S"}   NoPayload == {"T","F","N","I","[","]"}

\* an argument is [t |-> tag, v |-> value, z |-> 0/1]; value: limbs (2 or 4, 16 bit,
\* most significant first), 4 bytes (m), byte seq without NUL (s,S), data bytes (b),
\* <<>> for payload-free tags.  z = 1 marks a blob passed with a NULL data pointer
\* (its v is then Len zero bytes); z does not influence the wire image.
EncStr(s) == s \o Zeros(Pad4(Len(s)))
EncArg(a) == CASE a.t \in Four  -> LimbsBE(a.v)
               [] a.t \in Eight -> LimbsBE(a.v)
               [] a.t = "m"     -> a.v
               [] a.t \in Str   -> EncStr(a.v)
               [] a.t = "b"     -> BE32Nat(Len(a.v)) \o a.v \o Zeros(PadTo4(Len(a.v)))
               [] OTHER         -> <<>>
SizeArg(a) == CASE a.t \in Four -> 4 [] a.t \in Eight -> 8 [] a.t = "m" -> 4
                [] a.t \in Str -> Len(a.v) + Pad4(Len(a.v))
                [] a.t = "b" -> 4 + Len(a.v) + PadTo4(Len(a.v)) [] OTHER -> 0
RECURSIVE Concat(_)
Concat(ss) == IF ss = <<>> THEN <<>> ELSE Head(ss) \o Concat(Tail(ss))
RECURSIVE Sum(_)
Sum(ns) == IF ns = <<>> THEN 0 ELSE Head(ns) + Sum(Tail(ns))
TagBytes(args) == [i \in 1..Len(args) |-> Code(args[i].t)]
Encode(addr, args) == EncStr(addr) \o EncStr(<<44>> \o TagBytes(args))
                      \o Concat([i \in 1..Len(args) |-> EncArg(args[i])])
Size(addr, args) == Len(addr) + Pad4(Len(addr)) + (1 + Len(args)) + Pad4(1 + Len(args))
                    + Sum([i \in 1..Len(args) |-> SizeArg(args[i])])

\* ------------------------------------------------------------------ decoder
\* position of first NUL at or after p (1-based), 0 if none
RECURSIVE FindNul(_, _)
FindNul(b, p) == IF p > Len(b) THEN 0 ELSE IF b[p] = 0 THEN p ELSE FindNul(b, p + 1)
Slice(b, from, to) == IF to < from THEN <<>> ELSE SubSeq(b, from, to)
Nat32(b, p) == ((b[p] * 256 + b[p+1]) * 256 + b[p+2]) * 256 + b[p+3]   \* only called when < 2^31
Limbs(b, p, n) == [i \in 1..n |-> b[p + 2*(i-1)] * 256 + b[p + 2*(i-1) + 1]]

\* Decode arguments: returns [ok, args, next]
RECURSIVE DecArgsG(_, _, _, _)
DecArgsG(b, tags, p, strict) ==
  IF tags = <<>> THEN [ok |-> TRUE, args |-> <<>>, next |-> p]
  ELSE LET t == TagOf(Head(tags))
           one ==
             CASE t \in Four  -> IF p + 3 <= Len(b) THEN [ok |-> TRUE, a |-> [t |-> t, v |-> Limbs(b,p,2), z |-> 0], n |-> p + 4] ELSE [ok |-> FALSE]
               [] t \in Eight -> IF p + 7 <= Len(b) THEN [ok |-> TRUE, a |-> [t |-> t, v |-> Limbs(b,p,4), z |-> 0], n |-> p + 8] ELSE [ok |-> FALSE]
               [] t = "m"     -> IF p + 3 <= Len(b) THEN [ok |-> TRUE, a |-> [t |-> t, v |-> Slice(b,p,p+3), z |-> 0], n |-> p + 4] ELSE [ok |-> FALSE]
               [] t \in Str   -> LET z == FindNul(b, p) IN
                                 IF z = 0 THEN [ok |-> FALSE]
                                 ELSE LET n == p + (z - p) + Pad4(z - p) IN
                                      IF n - 1 <= Len(b) /\ (strict => \A q \in z..(n-1) : b[q] = 0)
                                      THEN [ok |-> TRUE, a |-> [t |-> t, v |-> Slice(b,p,z-1), z |-> 0], n |-> n] ELSE [ok |-> FALSE]
               [] t = "b"     -> IF p + 3 > Len(b) \/ b[p] >= 128 THEN [ok |-> FALSE]
                                 ELSE LET L == Nat32(b,p)  n == p + 4 + L + PadTo4(L) IN
                                      IF L <= Len(b) /\ n - 1 <= Len(b) /\ (strict => \A q \in (p+4+L)..(n-1) : b[q] = 0)
                                      THEN [ok |-> TRUE, a |-> [t |-> t, v |-> Slice(b,p+4,p+3+L), z |-> 0], n |-> n] ELSE [ok |-> FALSE]
               [] t \in NoPayload -> [ok |-> TRUE, a |-> [t |-> t, v |-> <<>>, z |-> 0], n |-> p]
               [] OTHER       -> [ok |-> TRUE, a |-> [t |-> "?", v |-> <<Head(tags)>>, z |-> 0], n |-> p]
       IN IF ~one.ok THEN [ok |-> FALSE, args |-> <<>>, next |-> p]
          ELSE LET rest == DecArgsG(b, Tail(tags), one.n, strict) IN
               [ok |-> rest.ok, args |-> <<one.a>> \o rest.args, next |-> rest.next]

\* Decode a whole buffer: [ok, addr, args, len, tagbytes].  strict = TRUE also demands that
\* every padding byte is zero; strict = FALSE checks the structure only (a lenient decoder).
DecodeG(b, strict) ==
  LET z1 == FindNul(b, 1) IN
  IF z1 = 0 \/ z1 = 1 THEN [ok |-> FALSE]
  ELSE LET c == z1 + Pad4(z1 - 1) IN         \* position of ','
       IF c > Len(b) \/ b[c] # 44 \/ (\E q \in z1..(c-1) : b[q] # 0) THEN [ok |-> FALSE]
       ELSE LET z2 == FindNul(b, c) IN
            IF z2 = 0 THEN [ok |-> FALSE]
            ELSE LET p == c + (z2 - c) + Pad4(z2 - c) IN
                 IF p - 1 > Len(b) \/ (strict /\ \E q \in z2..(p-1) : b[q] # 0) THEN [ok |-> FALSE]
                 ELSE LET d == DecArgsG(b, Slice(b, c+1, z2-1), p, strict) IN
                      IF ~d.ok THEN [ok |-> FALSE]
                      ELSE [ok |-> TRUE, addr |-> Slice(b,1,z1-1), args |-> d.args, len |-> d.next - 1, tagbytes |-> Slice(b, c+1, z2-1)]
Decode(b) == DecodeG(b, TRUE)
DecodeLenient(b) == DecodeG(b, FALSE)
NArgs(args) == Cardinality({i \in 1..Len(args) : args[i].t \notin {"[","]"}})
WellFormed(b) == Decode(b).ok /\ Decode(b).len = Len(b)
IsBundle(b) == Len(b) >= 8 /\ SubSeq(b, 1, 8) = <<35, 98, 117, 110, 100, 108, 101, 0>>

\* ------------------------------------------------------------------ bundles (C08)
\* an element is [k |-> "m", addr, args] or [k |-> "b", tt (4 limbs), elems]
BundleHead == <<35, 98, 117, 110, 100, 108, 101, 0>>            \* "#bundle\0"
RECURSIVE EncElem(_)
EncElem(e) == IF e.k = "m" THEN Encode(e.addr, e.args)
              ELSE BundleHead \o LimbsBE(e.tt)
                   \o Concat([i \in 1..Len(e.elems) |-> LET x == EncElem(e.elems[i]) IN BE32Nat(Len(x)) \o x])
EncBundle(tt, elems) == EncElem([k |-> "b", tt |-> tt, elems |-> elems])
RECURSIVE SizeElem(_)
SizeElem(e) == IF e.k = "m" THEN Size(e.addr, e.args)
               ELSE 16 + Sum([i \in 1..Len(e.elems) |-> 4 + SizeElem(e.elems[i])])
\* decomposition, written from the bundle layout only: offsets (0-based) and sizes of
\* the elements found by walking the size fields from byte 16 up to the end of b
RECURSIVE WalkElems(_, _)
WalkElems(b, p) == IF p + 4 > Len(b) \/ b[p + 1] >= 128 THEN <<>>
                   ELSE LET n == Nat32(b, p + 1) IN
                        IF n = 0 \/ p + 4 + n > Len(b) THEN <<>>
                        ELSE <<[off |-> p + 4, size |-> n]>> \o WalkElems(b, p + 4 + n)
BundleElems(b) == WalkElems(b, 16)
BundleTime(b) == Limbs(b, 9, 4)
BundleLen(b) == LET es == BundleElems(b) IN IF es = <<>> THEN 16 ELSE es[Len(es)].off + es[Len(es)].size
=============================================================================
