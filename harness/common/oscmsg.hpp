// Abstract OSC message <-> rtosc calls.  The abstract form is the one of
// spec/OscWire.tla: addr = byte list, args = list of {t, v, z}:
//   i f c r : v = 2 limbs (16 bit, msb first)      h t d : v = 4 limbs
//   m       : v = 4 bytes      s S : v = bytes without NUL
//   b       : v = data bytes; z = 1 means "NULL data pointer, Len(v) zero bytes"
//   T F N I [ ] : v = <<>>
#pragma once
#include <rtosc/rtosc.h>
#include <rtosc/arg-val.h>
#include <stdarg.h>
#include <random>
#include "vjson.hpp"

struct AArg { char t; uint64_t bits = 0; std::string s; std::vector<uint8_t> b; bool nullblob = false; uint8_t m[4] = {0, 0, 0, 0}; };
struct AMsg { std::string addr; std::vector<AArg> args;
    std::string tags() const { std::string r; for (auto &a : args) r += a.t; return r; }
    bool has_brackets() const { for (auto &a : args) if (a.t == '[' || a.t == ']') return true; return false; } };

inline bool tag_has_payload(char t) { return strchr("ifcrhtdmsSb", t) != nullptr; }

inline AMsg amsg_from_json(const J &j) {
    AMsg m; m.addr = j["addr"].text();
    for (auto &ja : j["args"].a) {
        AArg a; a.t = ja["t"].s[0]; const J &v = ja["v"];
        switch (a.t) {
            case 'i': case 'f': case 'c': case 'r': a.bits = from_limbs32(v); break;
            case 'h': case 't': case 'd': a.bits = from_limbs64(v); break;
            case 'm': for (int k = 0; k < 4; ++k) a.m[k] = (uint8_t)v[k].n; break;
            case 's': case 'S': a.s = v.text(); break;
            case 'b': a.b = v.bytes(); a.nullblob = ja["z"].num() == 1; break;
            default: break;
        }
        m.args.push_back(a);
    }
    return m;
}
inline void amsg_to_json(JW &w, const AMsg &m) {
    w.kbytes("addr", (const uint8_t *)m.addr.data(), m.addr.size());
    w.key("args").arr();
    for (auto &a : m.args) {
        w.obj().kstr("t", std::string(1, a.t)).key("v");
        switch (a.t) {
            case 'i': case 'f': case 'c': case 'r': w.limbs32((uint32_t)a.bits); break;
            case 'h': case 't': case 'd': w.limbs64(a.bits); break;
            case 'm': w.bytes(a.m, 4); break;
            case 's': case 'S': w.bytes((const uint8_t *)a.s.data(), a.s.size()); break;
            case 'b': w.bytes(a.b); break;
            default: w.arr().end_arr();
        }
        w.knum("z", a.nullblob ? 1 : 0).end_obj();
    }
    w.end_arr();
}

// rtosc_arg_t array for rtosc_amessage (one entry per payload-carrying tag)
inline std::vector<rtosc_arg_t> amsg_args(const AMsg &m) {
    std::vector<rtosc_arg_t> ra;
    for (auto &a : m.args) {
        rtosc_arg_t x; memset(&x, 0, sizeof x);
        switch (a.t) {
            case 'i': case 'c': case 'r': x.i = (int32_t)(uint32_t)a.bits; break;
            case 'f': { uint32_t u = (uint32_t)a.bits; memcpy(&x.f, &u, 4); break; }
            case 'h': case 't': x.h = (int64_t)a.bits; break;
            case 'd': memcpy(&x.d, &a.bits, 8); break;
            case 's': case 'S': x.s = a.s.c_str(); break;
            case 'b': x.b.len = (int32_t)a.b.size(); x.b.data = a.nullblob ? NULL : (uint8_t *)a.b.data(); break;
            case 'm': memcpy(x.m, a.m, 4); break;
            default: continue;
        }
        ra.push_back(x);
    }
    return ra;
}

// x86-64 SysV: a va_list whose register save areas are exhausted reads every
// argument from 8-byte stack slots, so a varargs callee can be driven with a
// run-time type string.  Returns false if the list cannot be passed faithfully
// through C varargs (a float whose bits change under float->double->float).
struct VaSlots { std::vector<uint64_t> slots; bool faithful = true; };
inline VaSlots amsg_va_slots(const AMsg &m) {
    VaSlots r;
    for (auto &a : m.args) {
        uint64_t s = 0;
        switch (a.t) {
            case 'i': case 'c': case 'r': { int v = (int32_t)(uint32_t)a.bits; long long w = v; memcpy(&s, &w, 8); r.slots.push_back(s); break; }
            case 'f': { uint32_t u = (uint32_t)a.bits; float f; memcpy(&f, &u, 4); double d = f;
                        // a signalling NaN is quieted by the float->double promotion of C varargs (the compiler may fold a round-trip test away)
                        if ((u & 0x7f800000u) == 0x7f800000u && (u & 0x007fffffu) != 0 && !(u & 0x00400000u)) r.faithful = false; memcpy(&s, &d, 8); r.slots.push_back(s); break; }
            case 'h': case 't': case 'd': r.slots.push_back(a.bits); break;
            case 's': case 'S': { const char *p = a.s.c_str(); memcpy(&s, &p, 8); r.slots.push_back(s); break; }
            case 'm': { const uint8_t *p = a.m; memcpy(&s, &p, 8); r.slots.push_back(s); break; }
            case 'b': { long long l = (int)a.b.size(); memcpy(&s, &l, 8); r.slots.push_back(s);
                        const uint8_t *p = a.nullblob ? NULL : a.b.data(); s = 0; memcpy(&s, &p, 8); r.slots.push_back(s); break; }
            default: break;
        }
    }
    return r;
}
inline size_t call_vmessage(char *buf, size_t len, const char *addr, const char *types, std::vector<uint64_t> &slots) {
    va_list ap;
    ap[0].gp_offset = 48; ap[0].fp_offset = 304;
    static uint64_t dummy[2];
    ap[0].overflow_arg_area = slots.empty() ? (void *)dummy : (void *)slots.data();
    ap[0].reg_save_area = NULL;
    return rtosc_vmessage(buf, len, addr, types, ap);
}

// observed value of one decoded argument, in the abstract form
inline void obs_val(JW &w, char t, const rtosc_arg_t &g, long maxblob = 100000) {
    switch (t) {
        case 'i': case 'c': case 'r': w.limbs32((uint32_t)g.i); break;
        case 'f': { uint32_t u; memcpy(&u, &g.f, 4); w.limbs32(u); break; }
        case 'h': case 't': w.limbs64((uint64_t)g.h); break;
        case 'd': { uint64_t u; memcpy(&u, &g.d, 8); w.limbs64(u); break; }
        case 'm': w.bytes(g.m, 4); break;
        case 's': case 'S': w.bytes((const uint8_t *)g.s, g.s ? strlen(g.s) : 0); break;
        case 'b': { if (g.b.len < 0 || g.b.len > maxblob) { w.arr().num(-1).num(((uint32_t)g.b.len) >> 16).num(((uint32_t)g.b.len) & 0xffff).end_arr(); break; }
                    size_t n = (size_t)g.b.len; w.arr(); for (size_t i = 0; i < n; ++i) w.num(g.b.data[i]); w.end_arr(); break; }
        case 'T': case 'F': w.arr().num(g.T ? 1 : 0).end_arr(); break;
        default: w.arr().end_arr();
    }
}

// ---- random abstract messages (engine B input source)
struct MsgGen {
    std::mt19937_64 rng;
    explicit MsgGen(uint64_t seed) : rng(seed) {}
    uint64_t R(uint64_t n) { return rng() % n; }
    uint64_t bits64() { switch (R(8)) { case 0: return 0; case 1: return ~0ull; case 2: return 0x8000000080000000ull; case 3: return 0x7fffffff7fffffffull;
                        case 4: return 0x7fc000017ff00000ull | R(0xffff); case 5: return 0x7f800001fff00001ull; default: return rng(); } }
    AMsg msg(unsigned max_args, unsigned max_addr, unsigned max_str, bool brackets = true) {
        AMsg m; m.addr = "/"; unsigned al = (unsigned)R(max_addr);
        for (unsigned k = 0; k < al; ++k) m.addr += (char)(33 + R(94));
        static const char *tags = "ifsbhtdScrmTFNI[]";
        unsigned n = (unsigned)R(max_args + 1); int depth = 0;
        for (unsigned i = 0; i < n; ++i) {
            char t = tags[R(brackets ? 17 : 15)];
            if (t == ']' && depth == 0 && R(4)) t = '['; if (t == '[') depth++; if (t == ']') depth--;
            AArg a; a.t = t; a.bits = bits64();
            if (strchr("ifcr", t)) a.bits &= 0xffffffffu;
            unsigned L = (unsigned)R(4) == 0 ? (unsigned)(4 * R(max_str / 4 + 1)) : (unsigned)R(max_str + 1);
            for (unsigned k = 0; k < L; ++k) a.s += (char)(1 + R(255));
            unsigned B = (unsigned)R(4) == 0 ? (unsigned)(4 * R(max_str / 4 + 1)) : (unsigned)R(max_str + 1);
            a.b.resize(B); for (auto &x : a.b) x = (uint8_t)R(256);
            if (t == 'b' && R(5) == 0) { a.nullblob = true; std::fill(a.b.begin(), a.b.end(), 0); }
            for (auto &x : a.m) x = (uint8_t)R(256);
            m.args.push_back(a);
        }
        return m;
    }
};
