CONSTANTS MaxMsgs = 2  SimMode = FALSE  OrderRule = TRUE
INIT Init
NEXT Next
INVARIANT DefaultSavesNothing RoundTrip OrderIndependent SerLaw
CONSTRAINT Emit
CHECK_DEADLOCK FALSE
