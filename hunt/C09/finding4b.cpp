// build: c++ -std=c++17 -I../include finding4b.cpp ../_build/librtosc-cpp.a ../_build/librtosc.a -o finding4b
//
// Consequence of finding 4 inside the library: rtosc::get_changed_values()
// (savefiles) walks the tree with walk_ports() and splits the address at the
// walker's third argument. For a sub-tree that disabled itself through
// rSelf(..., rEnabledBy(on)) that argument lies behind the end of "/sub/on":
// the savefile code calls the toggle with a garbage message and crashes
// (assertion in debug builds, SIGSEGV in release builds).
#include <rtosc/ports.h>
#include <rtosc/port-sugar.h>
#include <rtosc/savefile.h>
#include <cstdio>
#include <cstring>
#include <string>
#include <set>
#include <unistd.h>
#include <sys/wait.h>
using namespace rtosc;
struct Child { bool on = false; int x = 3; static const Ports ports; };
#define rObject Child
const Ports Child::ports = {
    rSelf(Child, rEnabledBy(on)),
    rToggle(on, rDefault(true), "enables this sub-tree"),
    rParamI(x, rDefault(0), "x"),
};
#undef rObject
struct Parent { Child sub; static const Ports ports; };
#define rObject Parent
const Ports Parent::ports = { rRecur(sub, "sub") };
#undef rObject

int main()
{
    puts("expected: get_changed_values() returns \"/sub/on false\" (the sub-tree is off, its toggle differs from the default)");
    fflush(stdout);
    pid_t pid = fork();
    if(pid == 0) {
        Parent p;                    // p.sub.on == false: sub-tree disabled
        std::set<std::string> written;
        std::string s = get_changed_values(Parent::ports, &p, written, {});
        printf("got: \"%s\"\n", s.c_str());
        _exit(s == "/sub/on false" ? 0 : 2);
    }
    int st = 0; waitpid(pid, &st, 0);
    if(WIFSIGNALED(st)) { printf("got: child killed by signal %d\nFAIL\n", WTERMSIG(st)); return 1; }
    if(WEXITSTATUS(st)) { puts("FAIL"); return 1; }
    puts("ok");
    return 0;
}
