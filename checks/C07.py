"""C07 - validation of untrusted bytes is sound.
OscWire.tla's decoder, written from the OSC 1.0 rules only, is the independent decoder.
OscMutate.tla enumerates byte strings: (i) one and two mutations of well-formed messages
(truncation at every offset, every byte to boundary values, aligned words to extreme
lengths, word insert/delete), (ii) every buffer up to a small length over a small
alphabet, (iii) every tail behind a fixed header.  The driver adds seeded structure-aware
random mutation (up to 6 mutations, up to 512 bytes).  Each buffer sits in an exact-size
heap block flush against ASan's red zone; TLC judges: no out-of-bounds read, termination,
length in {0} u 1..n, and - whenever the predicate accepts - decodability and equality of
every accessor result with the specification's decoder."""
import json, os
from vlib import core


def judge(ctx, log_path):
    rej = ctx.validate("OscWireTrace", "OscWireTrace.cfg", log_path)
    recs = ctx.read_ndjson(log_path)
    nvalid = 0
    for r in recs:
        ctx.evaluations += 1
        if r.get("valid"):
            nvalid += 1
            ctx.nontrivial.add(bytes(r["bytes"]))
    ctx.notes["buffers_accepted_by_predicate"] = ctx.notes.get("buffers_accepted_by_predicate", 0) + nvalid
    for line, clauses in sorted(rej.items()):
        r = recs[line - 1]
        b = bytes(r["bytes"])
        for c in clauses:
            ctx.reject(dict(clause=c, n=len(b), hex=b.hex()), dict(bytes=r["bytes"]),
                       "clause %s fails for the %d-byte buffer %s %s" % (c, len(b), b.hex(), r.get("what_v") or r.get("what_a") or ""))
    return recs


def run(ctx):
    ctx.rule = ("byte strings from OscMutate (mutations of 8 well-formed messages to depth 2/3; all buffers up to length 8 over a small alphabet; "
                "all tails behind a fixed header up to total length 12) and seeded structure-aware random mutants of random valid messages "
                "(<= 6 mutations, <= 512 bytes); non-trivial = distinct buffer that the validity predicate ACCEPTS (its accessors are then all exercised and compared)")
    ctx.assumptions = ["ASan red zones decide 'reads only inside the n bytes' (block in front poisoned, buffer flush against the end of its block)",
                       "termination = watchdog per call (250 ms for length+validity, 2 s for the accessor sweep; terminating calls take microseconds)",
                       "padding bytes are not part of a decoder's result: the reference decoder is lenient on padding content, strict on structure",
                       "unknown type tag characters are payload-free (only the tag itself is compared)"]
    if ctx.replay:
        case = json.load(open(ctx.replay))["case"]
        p = ctx.write_ndjson("replay_in.ndjson", [case])
        ctx.driver("wire_driver", "asan", ["bytes", "in", p, ctx.path("replay_log.ndjson")])
        judge(ctx, ctx.path("replay_log.ndjson"))
        return
    thorough = ctx.tier == "thorough"
    suffix = "_thorough.cfg" if thorough else "_quick.cfg"
    seen = set()
    allvec = []
    for base in ("OscMutate", "OscEnum", "OscEnumTail"):
        vec, r = ctx.vectors("OscMutate", base + suffix, "v_" + base)
        k = 0
        for v in vec:
            key = bytes(v["bytes"])
            if key not in seen:
                seen.add(key)
                allvec.append(v)
                k += 1
        ctx.bounds[base + suffix] = dict(states=r.distinct, new_buffers=k)
    ctx.exhaustive = True
    inp = ctx.write_ndjson("vec.ndjson", allvec)
    ctx.driver("wire_driver", "asan", ["bytes", "in", inp, ctx.path("logA.ndjson")])
    nrand = 400000 if thorough else 40000
    ctx.driver("wire_driver", "asan", ["bytes", "random", ctx.seed, nrand, ctx.path("logB.ndjson")])
    with open(ctx.path("log.ndjson"), "w") as f:
        for n in ("logA.ndjson", "logB.ndjson"):
            f.write(open(ctx.path(n)).read())
    recs = judge(ctx, ctx.path("log.ndjson"))
    ctx.notes["engineA_buffers"] = len(allvec)
    ctx.notes["engineB_random_buffers"] = nrand
    acc = [r for r in recs if r.get("valid")]
    for r in (acc[:1] + acc[-1:] + recs[-1:]):
        ctx.sample(dict(hex=bytes(r["bytes"]).hex(), accepted=r.get("valid"), reported_length=r.get("mlen")))
    os.remove(ctx.path("log.ndjson"))
