---------------------------- MODULE PrettyGrammarGen ----------------------------
(* Input machine for C11: a state is a sentence - a sequence of tokens (value +      *)
(* documented spelling) with a separator chosen at every boundary and a trailer      *)
(* behind the last value.  Next appends one token, so BFS enumerates every sentence  *)
(* up to MaxTokens over the token pool.  Each state is written out as text plus the  *)
(* values the text denotes (computed by the specification from the token choices).   *)
EXTENDS PrettyGrammar, Json, CSV, IOUtils
CONSTANTS MaxTokens, PoolName, SimMode
VARIABLES toks, seps, trail
S1(c) == <<c>>
I1 == Tok(Dec(1), <<IV(1)>>)
TrueT == Tok(<<116, 114, 117, 101>>, <<[t |-> "T", v |-> <<>>]>>)
FalseT == Tok(<<102, 97, 108, 115, 101>>, <<[t |-> "F", v |-> <<>>]>>)
NilT == Tok(<<110, 105, 108>>, <<[t |-> "N", v |-> <<>>]>>)
StrA == Tok(<<34, 97, 34>>, <<[t |-> "s", v |-> <<97>>]>>)
StrB == Tok(<<34, 98, 34>>, <<[t |-> "s", v |-> <<98>>]>>)
SymC == Tok(<<97, 98, 99>>, <<[t |-> "S", v |-> <<97, 98, 99>>]>>)
SymD == Tok(<<100, 101, 102>>, <<[t |-> "S", v |-> <<100, 101, 102>>]>>)
Pool ==
  IF PoolName = "numbers" THEN
       IntToks(42) \cup IntToks(0 - 7) \cup IntToks(0) \cup IntToks(255) \cup LongToks(0 - 19) \cup LongToks(1099511)
       \cup FloatToks(1, 0) \cup FloatToks(0 - 3, 1) \cup FloatToks(5, 3) \cup FloatToks(10, 0) \cup DoubleToks(10, 0) \cup DoubleToks(0 - 5, 2)
       \cup { Tok(<<49, 101, 49, 48>>, <<[t |-> "f", dy |-> NormDy(9765625, 10)]>>), Tok(<<48, 120, 102>>, <<IV(15)>>), Tok(<<48, 120, 102, 112, 43, 48>>, <<FV(15, 0)>>),
              Tok(<<48, 120, 49, 102>>, <<IV(31)>>), Tok(<<49, 102>>, <<FV(1, 0)>>), Tok(<<49, 50, 51, 105>>, <<IV(123)>>) }
  ELSE IF PoolName = "texts" THEN
       CharToks(97) \cup CharToks(39) \cup CharToks(10) \cup CharToks(35) \cup CharToks(92)
       \cup StringToks(<<>>) \cup StringToks(<<72, 105>>) \cup StringToks(<<34, 72, 10, 119, 33, 34>>) \cup StringToks(<<97, 32, 37, 32, 98>>)
       \cup SymbolToks(<<65, 110, 95, 73, 100, 95, 49, 50>>) \cup SymbolToks(<<102, 109>>) \cup SymbolToks(<<65, 32, 34, 99, 34, 32, 105, 100, 33>>) \cup SymbolToks(<<116, 114, 117, 101>>) \cup SymbolToks(<<105, 110, 102, 111>>) \cup SymbolToks(<<110, 111, 119, 95, 49>>)   \* "true" (quoted only), "info", "now_1": identifiers that begin with a keyword
       \cup KwToks \cup { MidiTok(<<255, 255, 255, 255>>), MidiTok(<<144, 60, 127, 0>>), ColourTok(<<139, 173, 240, 13>>), ColourTok(<<255, 0, 0, 255>>) }
       \cup DateToks(2016, 11, 16) \cup DateToks(2000, 1, 1) \cup DateToks(2017, 3, 22)
  ELSE \* compound forms
       { RepTok(3, Tok(Dec(7), <<IV(7)>>)), RepTok(2, Tok(<<34, 97, 34>>, <<[t |-> "s", v |-> <<97>>]>>)), RepTok(4, Tok(<<116, 114, 117, 101>>, <<[t |-> "T", v |-> <<>>]>>)),
         RepTok(3, ArrTok(<<Tok(<<34, 98, 97, 100, 34>>, <<[t |-> "s", v |-> <<98, 97, 100>>]>>), Tok(<<34, 108, 34>>, <<[t |-> "s", v |-> <<108>>]>>)>>, <<>>)),
         RangeTok3(10, 8, 4), RangeTok3(1, 2, 6), RangeTok3(0 - 3, 0 - 1, 3), RangeTok2(1, 5), RangeTok2(3, 0 - 2), RangeTokF(0, 1, 2, 4), RangeTokF(0, 3, 3, 3),
         ArrTok(<<Tok(Dec(1), <<IV(1)>>), Tok(Dec(2), <<IV(2)>>), Tok(Dec(3), <<IV(3)>>)>>, <<>>), ArrTok(<<Tok(Dec(1), <<IV(1)>>)>>, <<32>>), ArrTok(<<>>, <<>>),
         ArrTok(<<Tok(<<34, 77, 34>>, <<[t |-> "s", v |-> <<77>>]>>), Tok(<<34, 115, 34>>, <<[t |-> "s", v |-> <<115>>]>>)>>, <<32>>),
         ArrTok(<<RangeTok2(1, 5)>>, <<32>>), ArrTok(<<Tok(<<116, 114, 117, 101>>, <<[t |-> "T", v |-> <<>>]>>), Tok(<<102, 97, 108, 115, 101>>, <<[t |-> "F", v |-> <<>>]>>)>>, <<>>),
         ArrOpen2(1, 2), ArrOpen2(5, 3),
         ArrOpenRep(<<>>, I1), ArrOpenRep(<<I1>>, I1), ArrOpenRep(<<Tok(DecDyadic(1, 1), <<FV(1, 1)>>)>>, I1), ArrOpenRep(<<>>, TrueT), ArrOpenRep(<<TrueT>>, TrueT),
         ArrOpenRep(<<TrueT, FalseT>>, FalseT), ArrOpenRep(<<>>, StrA), ArrOpenRep(<<StrA>>, StrA), ArrOpenRep(<<NilT>>, NilT), ArrOpenRep(<<I1, I1>>, I1),
         ArrOpenAny(<<TrueT>>, FalseT), ArrOpenAny(<<FalseT>>, TrueT),
         \* ["a" "b" ...], [abc def ...]: texts differ, what the range continues with is not documented
         ArrOpenAny(<<StrA>>, StrB), ArrOpenAny(<<SymC>>, SymD) } \cup DoubleMixToks \cup {
         \* two ranges in one array: the second one's step comes from the LAST value of the first ("[1 ... 3 5 ... 9]" = 1 2 3 5 7 9, as at top level)
         Tok(<<91>> \o Dec(1) \o <<32, 46, 46, 46, 32>> \o Dec(3) \o <<32>> \o Dec(5) \o <<32, 46, 46, 46, 32>> \o Dec(9) \o <<93>>, << [t |-> "a", el |-> <<IV(1), IV(2), IV(3), IV(5), IV(7), IV(9)>>] >>),
         Tok(<<91>> \o Dec(0) \o <<32>> \o Dec(1) \o <<32, 46, 46, 46, 32>> \o Dec(3) \o <<32>> \o Dec(5) \o <<32, 46, 46, 46, 32>> \o Dec(11) \o <<93>>, << [t |-> "a", el |-> <<IV(0), IV(1), IV(2), IV(3), IV(5), IV(7), IV(9), IV(11)>>] >>),
         PlainRun(3, 1, 5), PlainRun(1, 1, 6), PlainRun(10, 0 - 2, 5), PlainRun(0 - 2, 1, 5), PlainRun(7, 0, 5),
         Tok(Dec(9), <<IV(9)>>), Tok(<<34, 122, 34>>, <<[t |-> "s", v |-> <<122>>]>>), Tok(DecDyadic(1, 1), <<FV(1, 1)>>) }
Init == toks = <<>> /\ seps = <<>> /\ trail \in Trailers
Next == /\ Len(toks) < MaxTokens
        /\ \E tk \in Pool :
             \* "Ranges may not overlap" and a left neighbour of the same type becomes the range's left-of-left-hand sign:
             \* a range token stands at the start of the sentence or behind a non-numeric value
             /\ (IF tk.rng /\ toks # <<>> THEN LET lv == toks[Len(toks)].val IN (IF lv = <<>> THEN FALSE ELSE lv[Len(lv)].t \notin {"i", "h", "f", "d", "c"}) ELSE TRUE)
             /\ toks' = Append(toks, tk)
        /\ \E sp \in (IF toks = <<>> THEN { <<>> } ELSE Seps) : seps' = Append(seps, sp)
        /\ UNCHANGED trail
Text == Concat([i \in 1..Len(toks) |-> seps[i] \o toks[i].txt]) \o trail
Denote == Concat([i \in 1..Len(toks) |-> toks[i].val])
\* sentences that differ only in separators denote the same values (by construction: Denote ignores seps and trail)
Out == IF "OUT" \in DOMAIN IOEnv THEN IOEnv.OUT ELSE "none"
\* In simulation TLC evaluates the constraint on every candidate successor at every level: write exactly one
\* candidate per behaviour - the full-length sentence whose last token is a fixed one behind a single blank.
LastTok == CHOOSE tk \in Pool : \A o \in Pool : Len(tk.txt) <= Len(o.txt)
SimPick == Len(toks) = MaxTokens /\ seps[Len(seps)] = <<32>> /\ toks[Len(toks)] = LastTok
Emit == toks = <<>> \/ Out = "none" \/ (SimMode /\ ~ SimPick) \/ CSVWrite("%1$s", <<ToJson([text |-> Text, exp |-> Denote, ntok |-> Len(toks)])>>, Out)
=============================================================================
