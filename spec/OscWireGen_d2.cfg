CONSTANTS Depth = 2  AddrLens = {1, 2, 3, 4}  BaseLen = 3  Rich = TRUE
INIT Init
NEXT Next
INVARIANT Laws
CONSTRAINT Emit
CHECK_DEADLOCK FALSE
