"""C15 - undo history rewinds and replays recorded changes exactly (also end to end through parameter ports).
UndoHistory.tla (Record / Seek / Tick, written from the statement) is model-checked by TLC
for a small bound (Book, UndoAllRestores, RedoAllRestores) together with three specification
mutants; behaviours simulated with Max = 20 are executed on the real rtosc::UndoHistory
(time() interposed to the model clock) and, together with seeded random executions of
arbitrary events, validated step by step by UndoHistoryTrace."""
import json, os
from vlib import core


def judge(ctx, log, label):
    rej = ctx.validate_execs("UndoHistoryTrace", "UndoHistoryTrace.cfg", log, timeout=1800)
    recs = ctx.read_ndjson(log)
    for i, r in enumerate(recs, 1):
        ctx.evaluations += len(r["ev"])
        nrec = sum(1 for e in r["ev"] if e["op"] in ("rec", "set"))
        nseek = sum(1 for e in r["ev"] if e["op"] == "seek" and e["out"])
        if nrec >= 3 and nseek >= 1:
            ctx.nontrivial.add((label, i))
        if r.get("sig") or r.get("asan"):
            ctx.reject(dict(clause="crash_or_memory_error", source=label), dict(ops=strip(r["ev"])), "crash/ASan report while executing an undo history (%s)" % label)
        if i in rej:
            cl, l = rej[i]
            e = r["ev"][l - 1]
            ctx.reject(dict(clause=cl[0], source=label, op=e["op"]), dict(ops=strip(r["ev"][:l])),
                       "call %d (%s) of a %s execution is not a step of UndoHistory.tla: observed pos=%s entries=%s out=%s" % (
                           l, {k: v for k, v in e.items() if k not in ("pos", "entries", "out")}, label, e["pos"], e["entries"][-3:], e["out"][:3]))
    return recs


def strip(ev):
    out = []
    for e in ev:
        d = {k: v for k, v in e.items() if k not in ("pos", "entries", "out")}
        if d["op"] in ("rec", "set"):
            d["a"] = d["a"].lstrip("/")
        d.pop("params", None)
        out.append(d)
    return out


def run(ctx):
    ctx.rule = ("(a) exhaustive TLC search of UndoHistory.tla (2 addresses, 3 values, Max=3, window 2, clock<=5) + 3 spec mutants; (b) TLC-simulated "
                "behaviours with Max=20, 3 addresses, types i/f/c, clock steps 1/2/3 executed on the real object; (c) seeded random executions of 0..60 calls "
                "with arbitrary events; (d) the behaviours of (b) end to end: events emitted by real rParamI/rParamF/rParam ports, undo messages dispatched back into them, "
                "parameter values compared with the model's store after every call; evaluations = calls validated; non-trivial = execution with >= 3 recorded events and a seek that emitted messages")
    ctx.assumptions = ["time() is interposed: the library sees the model clock", "values are small integers (floats integral)"]
    if ctx.replay:
        case = json.load(open(ctx.replay))["case"]
        p = ctx.path("ops.ndjson")
        open(p, "w").write(json.dumps(case["ops"]) + "\n")
        e2e = any(o["op"] == "set" for o in case["ops"])
        ctx.driver("undo_driver", "asan", ["app" if e2e else "replay", p, ctx.path("log.ndjson")])
        judge(ctx, ctx.path("log.ndjson"), "replay")
        return
    thorough = ctx.tier == "thorough"
    ctx.spec_law("UndoHistory", "UndoHistory_none.cfg", workers=16)
    ctx.exhaustive = True
    for b in ("keep_tail", "cap_plus1", "merge_old"):
        ctx.spec_mutant("UndoHistory", "UndoHistory_%s.cfg" % b, workers=8)
    ctx.notes["spec_mutants_rejected"] = 3
    seen = set()
    depth = 70
    with open(ctx.path("ops.ndjson"), "w") as f:
        for cfg in ("UndoHistorySim.cfg", "UndoHistorySimCap.cfg"):
            raw = ctx.path("sim.raw")
            r = ctx.tlc("UndoHistorySim", cfg, env={"OUT": raw, "DEPTH": depth}, workers=4, simulate=1500 if thorough else 150, depth=depth, seed=ctx.seed)
            if r.violated:
                raise core.Broken("UndoHistory.tla violated %s in simulation" % r.violated)
            for line in open(raw):
                s = json.loads(line)
                if s not in seen:
                    seen.add(s)
                    f.write(s + "\n")
            os.remove(raw)
    ctx.driver("undo_driver", "asan", ["replay", ctx.path("ops.ndjson"), ctx.path("logA.ndjson")])
    recs = judge(ctx, ctx.path("logA.ndjson"), "simulated")
    ctx.notes["simulated_behaviours"] = len(recs)
    ctx.notes["executions_reaching_the_20_entry_cap"] = sum(1 for r in recs if any(len(e["entries"]) >= 20 for e in r["ev"]))
    # (d) end to end: the same behaviours, but every recorded event comes from a parameter port built with the real macros and every undo / redo
    #     message is dispatched back into those ports; the parameters themselves are compared with the model's store after every call
    ctx.driver("undo_driver", "asan", ["app", ctx.path("ops.ndjson"), ctx.path("logC.ndjson")])
    recs3 = judge(ctx, ctx.path("logC.ndjson"), "end-to-end")
    ctx.notes["end_to_end_executions"] = len(recs3)
    ctx.notes["end_to_end_sets_without_change"] = sum(1 for r in recs3 for e in r["ev"] if e["op"] == "set" and not e["got_event"])
    ctx.driver("undo_driver", "asan", ["random", ctx.seed, 20000 if thorough else 2000, ctx.path("logB.ndjson")])
    recs2 = judge(ctx, ctx.path("logB.ndjson"), "random")
    ctx.notes["random_executions"] = len(recs2)
    ctx.sample(dict(calls=strip(recs[0]["ev"][:12])))
    ctx.sample(dict(calls=strip(recs2[-1]["ev"][:12])))
