// Conformance driver for C12 / C13 / C14 on the curated application app1 (real port-sugar macros).
//   app_driver run <scripts.ndjson> <out.ndjson>
// A script is a JSON array of operations on one fresh App instance:
//   {"op":"set","addr":"/pi","ty":"i","v":7}      dispatch a message with one argument (ty: i c f T F s S; f: v = 4 x value)
//   {"op":"get","addr":"/pi"}                     dispatch a message without arguments
//   {"op":"save"}                                 save_to_file
//   {"op":"load","lines":[...text lines...]}      load a savefile (header + given lines) into a FRESH instance, report its state
//   {"op":"loadraw","text":"..."}                 load arbitrary text into a fresh instance (header / garbage rejection)
//   {"op":"floatseq","addr":"/pg","ins":[bits...]} float bit patterns sent one after the other to a float port (positive finite values, the last one 1.0)
//   {"op":"savehook","discard":[addr..],"abort":addr|"","ren_from":addr|"","ren_to":addr|"","inc_addr":addr|"","inc_by":n}   save, then load through a savefile_dispatcher_t
//                                                 whose on_dispatch discards / aborts on / renames / changes the argument of the named lines
//   {"op":"serialize"}                            subtree_serialize into a large buffer (image logged) and into buffers of every capacity around 0..20 and
//                                                 around the needed size (flush against a poisoned zone); subtree_deserialize of the image into a FRESH instance
// After every operation: the reply / broadcast / undo events it produced (decoded) and the complete state.
#include "app1.hpp"
#include <rtosc/savefile.h>
#include <rtosc/subtree-serialize.h>
#include <rtosc/pretty-format.h>
#include <rtosc/arg-val-itr.h>
#include <rtosc/arg-ext.h>
#include <cmath>
#include <set>
#include <map>
#include <random>
#include <algorithm>
#include <functional>
#include "vjson.hpp"
#include "vguard.hpp"
using namespace rtosc;
using app1::App;

static long q4(float f) { return lround((double)f * 4.0); }           // floats are multiples of 1/4 in every script
static bool exact4(float f) { return (double)q4(f) / 4.0 == (double)f; }

struct Val { char t; long n; std::string b; uint32_t bits = 0; };
struct Ev { std::string kind, addr, tags; std::vector<Val> args; };
static Val val_of(char t, const rtosc_arg_t &a) { Val v{t, 0, ""};
    switch (t) { case 'i': case 'c': v.n = a.i; break; case 'f': v.n = q4(a.f); memcpy(&v.bits, &a.f, 4); if (!exact4(a.f)) v.t = '?'; break; case 's': case 'S': v.b = a.s ? a.s : ""; break; default: break; } return v; }
static void val_json(JW &w, const Val &v) { w.obj().kstr("t", std::string(1, v.t)).knum("n", v.n).kbytes("b", (const uint8_t *)v.b.data(), v.b.size()).end_obj(); }
struct Rec : RtData {
    std::vector<Ev> evs; char locbuf[1024];
    Rec(App *a) { obj = a; loc = locbuf; loc_size = sizeof locbuf; memset(locbuf, 0, sizeof locbuf); }
    void take(const char *kind, const char *msg) {
        Ev e; e.kind = kind; e.addr = msg; e.tags = rtosc_argument_string(msg);
        if (e.addr == "/undo_change") e.kind = "undo";
        unsigned n = rtosc_narguments(msg);
        for (unsigned i = 0; i < n; ++i) e.args.push_back(val_of(rtosc_type(msg, i), rtosc_argument(msg, i)));
        evs.push_back(e); }
    void reply(const char *path, const char *args, ...) override { va_list va; va_start(va, args); char b[2048]; rtosc_vmessage(b, sizeof b, path, args, va); va_end(va); take("reply", b); }
    void reply(const char *msg) override { take("reply", msg); }
    void broadcast(const char *path, const char *args, ...) override { va_list va; va_start(va, args); char b[2048]; rtosc_vmessage(b, sizeof b, path, args, va); va_end(va); take("broadcast", b); }
    void broadcast(const char *msg) override { take("broadcast", msg); }
};
static void sub_state(JW &w, const char *k, const app1::Sub *s) { w.key(k); if (!s) { w.raw("{\"null\":true}"); return; } w.obj().kbool("null", false).knum("si", s->si).knum("sf", q4(s->sf)).kbool("st", s->st).key("sa").arr().num(s->sa[0]).num(s->sa[1]).end_arr().end_obj(); }
static void state(JW &w, const App &a) {
    w.obj().knum("pc", a.pc).knum("pi", a.pi).knum("pn", a.pn).knum("pf", q4(a.pf)).knum("pg", q4(a.pg)).kbool("pt", a.pt).knum("po", a.po)
     .kbytes("ps", (const uint8_t *)a.ps, strnlen(a.ps, 8)).knum("preset", a.preset).knum("dep", a.dep).knum("mode", a.mode).knum("dep2", a.dep2).knum("chain", a.chain).kbool("tg", a.tg).knum("dep3", a.dep3);
    w.key("ai").arr(); for (int i = 0; i < 3; ++i) w.num(a.ai[i]); w.end_arr();
    w.key("af").arr(); for (int i = 0; i < 3; ++i) w.num(q4(a.af[i])); w.end_arr();
    w.key("at").arr(); for (int i = 0; i < 2; ++i) w.boolean(a.at[i]); w.end_arr();
    w.key("al").arr(); for (int i = 0; i < 8; ++i) w.num(a.al[i]); w.end_arr();
    w.key("ab").arr(); for (int i = 0; i < 8; ++i) w.boolean(a.ab[i]); w.end_arr();
    w.key("a2x").arr(); for (int i = 0; i < 3; ++i) w.num(a.a2x[i]); w.end_arr();
    w.kbool("fx_on", a.fx_on).key("fx"); if (!a.fx) w.raw("{\"null\":true}"); else { w.obj().kbool("null", false).knum("gain", a.fx->gain).knum("level", a.fx->level).knum("type", a.fx->type).key("voice").arr(); for (int i = 0; i < 2; ++i) w.obj().knum("vol", a.fx->voice[i].vol).end_obj(); w.end_arr().end_obj(); }
    w.kbool("sub_on", a.sub_on); sub_state(w, "sub", &a.sub); w.key("subs").arr(); for (int i = 0; i < 2; ++i) { w.obj(); w.kbool("null", false).knum("si", a.subs[i].si).knum("sf", q4(a.subs[i].sf)).kbool("st", a.subs[i].st).key("sa").arr().num(a.subs[i].sa[0]).num(a.subs[i].sa[1]).end_arr().end_obj(); } w.end_arr();
    w.kbool("palloc", a.palloc); sub_state(w, "psub", a.psub); w.knum("preset_b", a.preset_b).key("osc").obj().knum("gain", a.osc.gain).end_obj().knum("osc_type", a.osc_type); w.end_obj();
}
static void events(JW &w, const std::vector<Ev> &evs) {
    w.arr(); for (auto &e : evs) { w.obj().kstr("kind", e.kind).kstr("addr", e.addr).kstr("tags", e.tags).key("args").arr(); for (auto &a : e.args) val_json(w, a); w.end_arr().end_obj(); } w.end_arr();
}
static const char *APPNAME = "app1"; static rtosc_version APPVER = {1, 2, 3};
// split a savefile body into its messages with the library's own scanner (a printed string may continue on the next line)
static std::vector<std::string> split_messages(const std::string &body) {
    std::vector<std::string> out; const char *p = body.c_str();
    while (*p) { int n = rtosc_count_printed_arg_vals_of_msg(p); if (n < 0) { if (n != INT32_MIN) out.push_back(p); break; }
        std::vector<rtosc_arg_val_t> av(n + 2); char addr[256]; std::vector<char> sb(8192);
        size_t rd = rtosc_scan_message(p, addr, sizeof addr, av.data(), n, sb.data(), sb.size()); if (!rd) break;
        std::string m(p, rd); while (!m.empty() && isspace((unsigned char)m.back())) m.pop_back(); size_t b = 0; while (b < m.size() && isspace((unsigned char)m[b])) ++b; m = m.substr(b);
        if (!m.empty()) out.push_back(m); p += rd; }
    return out;
}
// parse a savefile body into lines: address + pretty-printed values decoded by the library's scanner
static void saved_lines(JW &w, const std::string &body) {
    w.arr();
    for (const std::string &line : split_messages(body)) {
        int n = rtosc_count_printed_arg_vals_of_msg(line.c_str());
        w.obj().kstr("text", line);
        if (n >= 0) { std::vector<rtosc_arg_val_t> av(n + 2); char addr[256]; std::vector<char> sb(4096); rtosc_scan_message(line.c_str(), addr, sizeof addr, av.data(), n, sb.data(), sb.size());
            w.kstr("addr", addr).key("vals").arr();
            std::function<void(const rtosc_arg_val_t *, size_t)> emit = [&](const rtosc_arg_val_t *c, size_t cnt) { rtosc_arg_val_itr it; if (!cnt) return; rtosc_arg_val_itr_init(&it, c); int guard = 0;
                while (it.i < cnt && guard++ < 64) { rtosc_arg_val_t buf; const rtosc_arg_val_t *v = rtosc_arg_val_itr_get(&it, &buf);
                    if (v->type == 'a') { w.obj().kstr("t", "a").knum("n", 0).key("b").arr().end_arr().key("el").arr(); emit(v + 1, rtosc_av_arr_len(v)); w.end_arr().end_obj(); }
                    else val_json(w, val_of(v->type, v->val));
                    rtosc_arg_val_itr_next(&it); } };
            emit(av.data(), (size_t)n); w.end_arr(); }
        else w.kstr("addr", "").key("vals").arr().end_arr();
        w.end_obj(); }
    w.end_arr();
}
static std::string header() { char rv[12], av[12]; rtosc_version cur = rtosc_current_version(); rtosc_version_print_to_12byte_str(&cur, rv); rtosc_version_print_to_12byte_str(&APPVER, av);
    return std::string("% RT OSC v") + rv + " savefile\n% " + APPNAME + " v" + av + "\n"; }

// a dispatcher with the hooks savefile.h documents: discard a message, abort the loading, rename a port, change an argument
struct HookDisp : rtosc::savefile_dispatcher_t { std::set<std::string> discard_; std::string abort_, ren_from, ren_to, inc_addr; int inc_by = 0; int seen = 0; int vers[12] = {-1, -1, -1, -1, -1, -1, -1, -1, -1, -1, -1, -1};
    int on_dispatch(size_t portname_max, char *portname, size_t, size_t nargs, rtosc_arg_val_t *args) override { ++seen;
        const rtosc_version *vs[4] = {&rtosc_filever, &rtosc_curver, &app_filever, &app_curver}; for (int q = 0; q < 4; ++q) { vers[3 * q] = vs[q]->major; vers[3 * q + 1] = vs[q]->minor; vers[3 * q + 2] = vs[q]->revision; }
        if (!abort_.empty() && abort_ == portname) return abort;
        if (discard_.count(portname)) return discard;
        if (!inc_addr.empty() && inc_addr == portname && nargs == 1 && args[0].type == 'i') args[0].val.i += inc_by;
        if (!ren_from.empty() && ren_from == portname && ren_to.size() < portname_max) strcpy(portname, ren_to.c_str());
        return (int)nargs; } };
static void run_script(const J &script, FILE *out) {
    JW w; w.obj().key("ev").arr();
    int sig = vg_run(30, [&] {
        App app;
        for (auto &op : script.a) { const std::string &k = op["op"].s; w.obj().kstr("op", k);
            if (k == "set" || k == "get") { std::string addr = op["addr"].s; char m[512]; size_t n = 0;
                if (k == "get") n = rtosc_message(m, sizeof m, addr.c_str(), "");
                else { char t = op["ty"].s[0]; w.kstr("ty", op["ty"].s);
                    if (t == 'i' || t == 'c') { n = rtosc_message(m, sizeof m, addr.c_str(), op["ty"].s.c_str(), (int)op["v"].num()); w.knum("v", op["v"].num()); }
                    else if (t == 'f') { n = rtosc_message(m, sizeof m, addr.c_str(), "f", (double)op["v"].num() / 4.0); w.knum("v", op["v"].num()); }
                    else if (t == 'T' || t == 'F') n = rtosc_message(m, sizeof m, addr.c_str(), op["ty"].s.c_str());
                    else { std::string s = op["v"].text(); n = rtosc_message(m, sizeof m, addr.c_str(), op["ty"].s.c_str(), s.c_str()); w.kbytes("v", (const uint8_t *)s.data(), s.size()); } }
                w.kstr("addr", addr).kbytes("addr_bytes", (const uint8_t *)addr.data(), addr.size()); Rec d(&app); FlushBuf mb(n); memcpy(mb.p, m, n);
                App::ports.dispatch((const char *)mb.p, d, true);
                w.knum("matches", d.matches).key("events"); events(w, d.evs); }
            else if (k == "save") { std::set<std::string> written; std::string f = save_to_file(App::ports, &app, APPNAME, APPVER, written, {});
                std::string h = header(); bool hdr = f.compare(0, h.size(), h) == 0; std::string body = hdr ? f.substr(h.size()) : f;
                w.kbool("header_ok", hdr).key("lines"); saved_lines(w, body); w.kstr("text", f); }
            else if (k == "saveload") { // save, then load the message lines back into fresh instances: every permutation (<= 6 lines; 300 seeded random ones beyond) and every single-line omission
                std::set<std::string> written; std::string f = save_to_file(App::ports, &app, APPNAME, APPVER, written, {}); std::string h = header(); bool hdr = f.compare(0, h.size(), h) == 0; std::string body = hdr ? f.substr(h.size()) : f;
                std::vector<std::string> lines = split_messages(body);
                w.kbool("header_ok", hdr).key("lines"); saved_lines(w, body);
                auto load_order = [&](const std::vector<int> &ord, JW &o) { std::string text = header(); for (int i : ord) text += lines[i] + "\n"; App fresh; FlushBuf tb(text.size() + 1); memcpy(tb.p, text.c_str(), text.size() + 1);
                    int rv = load_from_file((const char *)tb.p, App::ports, &fresh, APPNAME, APPVER); o.obj().knum("ret", rv).key("loaded"); state(o, fresh); o.end_obj(); };
                std::map<std::string, std::pair<long, std::vector<int>>> outcomes; long nperm = 0; std::vector<int> ord(lines.size()); for (size_t i = 0; i < ord.size(); ++i) ord[i] = (int)i;
                auto note = [&](const std::vector<int> &o2) { JW o; load_order(o2, o); auto &e = outcomes[o.s]; if (!e.first) e.second = o2; e.first++; ++nperm; };
                if (lines.size() <= 6) { do note(ord); while (std::next_permutation(ord.begin(), ord.end())); }
                else { std::mt19937 g((unsigned)(lines.size() * 7919 + op["seed"].num())); note(ord); std::vector<int> r = ord; std::reverse(r.begin(), r.end()); note(r); for (int k2 = 0; k2 < 300; ++k2) { std::shuffle(ord.begin(), ord.end(), g); note(ord); } }
                w.knum("nperm", nperm).key("outcomes").arr(); for (auto &kv : outcomes) { w.obj().knum("count", kv.second.first).key("perm").arr(); for (int i : kv.second.second) w.num(i + 1); w.end_arr().key("res").raw(kv.first).end_obj(); } w.end_arr();
                w.key("drops").arr(); for (size_t d = 0; d < lines.size(); ++d) for (int rev = 0; rev < 2; ++rev) { std::vector<int> o2; for (size_t i = 0; i < lines.size(); ++i) if (i != d) o2.push_back((int)i); if (rev) std::reverse(o2.begin(), o2.end());
                        JW o; load_order(o2, o); w.obj().knum("dropped", (long)d + 1).kbool("reversed", rev != 0).key("res").raw(o.s).end_obj(); } w.end_arr(); }
            else if (k == "serialize") { const size_t BIG = 8192; FlushBuf big(BIG); memset(big.p, 0xAA, BIG);
                size_t ret = subtree_serialize((char *)big.p, BIG, &app, const_cast<Ports *>(&App::ports)); if (ret > BIG) ret = BIG;
                w.knum("ret", (long)ret).key("bytes").arr(); for (size_t i = 0; i < ret; ++i) w.num(big.p[i]); w.end_arr();
                // the image as its consumers see it: bounded by the BUFFER size (the buffer held 0xAA bytes before the call)
                w.knum("nelems_buf", ret ? (long)rtosc_bundle_elements((const char *)big.p, BIG) : 0).knum("mlen_buf", ret ? (long)rtosc_message_length((const char *)big.p, BIG) : 0).kbool("is_bundle", ret && rtosc_bundle_p((const char *)big.p));
                std::set<size_t> caps; for (size_t c = 0; c <= 20; ++c) caps.insert(c); for (long c = (long)ret - 9; c <= (long)ret + 5; ++c) if (c >= 0) caps.insert((size_t)c);
                for (size_t frac = 1; frac < 8; ++frac) caps.insert(ret * frac / 8);
                w.key("caps").arr();
                for (size_t cap : caps) { FlushBuf fb(cap + 8); memset(fb.p, 0x5C, cap + 8); int h = vg_asan_hits;
#ifdef VG_ASAN
                    __asan_poison_memory_region(fb.p + cap, 8);
#endif
                    size_t r = subtree_serialize((char *)fb.p, cap, &app, const_cast<Ports *>(&App::ports));
#ifdef VG_ASAN
                    __asan_unpoison_memory_region(fb.p + cap, 8);
#endif
                    bool guard = true; for (int g = 0; g < 8; ++g) if (fb.p[cap + g] != 0x5C) guard = false;
                    w.obj().knum("cap", (long)cap).knum("ret", (long)r).kbool("guard", guard).kbool("same", r == ret && r <= cap && memcmp(fb.p, big.p, r) == 0).knum("asan", vg_asan_hits - h).end_obj(); }
                w.end_arr();
                App fresh; Rec d(&fresh);
                if (ret) subtree_deserialize((char *)big.p, BIG, &fresh, const_cast<Ports *>(&App::ports), d);
                w.key("loaded"); state(w, fresh); }
            else if (k == "floatseq") { // a sequence of float bit patterns sent to one float port; per step: stored pattern, undo events (old, new), broadcasts - all as bit patterns
                std::string addr = op["addr"].s; w.kstr("addr", addr).key("ins").arr(); for (auto &b : op["ins"].a) w.num((long)b.num()); w.end_arr();
                float *field = addr == "/pg" ? &app.pg : addr == "/pf" ? &app.pf : addr == "/af1" ? &app.af[1] : addr == "/sub/sf" ? &app.sub.sf : nullptr;
                w.key("steps").arr();
                for (auto &b : op["ins"].a) { uint32_t u = (uint32_t)b.num(); float f; memcpy(&f, &u, 4); char m[64]; size_t n = rtosc_message(m, sizeof m, addr.c_str(), "f", f);
                    Rec d(&app); FlushBuf mb(n); memcpy(mb.p, m, n); App::ports.dispatch((const char *)mb.p, d, true);
                    uint32_t st = 0; if (field) memcpy(&st, field, 4);
                    w.obj().knum("stored", (long)st).knum("matches", d.matches).key("undo").arr();
                    for (auto &e : d.evs) if (e.kind == "undo" && e.args.size() == 3 && e.args[0].b == addr) w.obj().knum("old", (long)e.args[1].bits).knum("new", (long)e.args[2].bits).end_obj(); else if (e.kind == "undo") w.obj().knum("old", -1).knum("new", -1).end_obj();
                    w.end_arr().key("bc").arr(); for (auto &e : d.evs) if (e.kind == "broadcast") w.num(e.addr == addr && e.args.size() == 1 ? (long)e.args[0].bits : -1L); w.end_arr().end_obj(); }
                w.end_arr(); }
            else if (k == "savehook") { // save, then load the file through a dispatcher with hooks into a fresh instance
                std::set<std::string> written; std::string f = save_to_file(App::ports, &app, APPNAME, APPVER, written, {}); std::string h = header(); bool hdr = f.compare(0, h.size(), h) == 0; std::string body = hdr ? f.substr(h.size()) : f;
                w.kbool("header_ok", hdr).key("lines"); saved_lines(w, body);
                HookDisp hd; for (auto &d : op["discard"].a) hd.discard_.insert(d.s); hd.abort_ = op["abort"].s; hd.ren_from = op["ren_from"].s; hd.ren_to = op["ren_to"].s; hd.inc_addr = op["inc_addr"].s; hd.inc_by = (int)op["inc_by"].num();
                w.key("hook").obj().key("discard").arr(); for (auto &d : op["discard"].a) w.str(d.s); w.end_arr().kstr("abort", hd.abort_).kstr("ren_from", hd.ren_from).kstr("ren_to", hd.ren_to).kstr("inc_addr", hd.inc_addr).knum("inc_by", hd.inc_by).end_obj();
                // the file claims to come from other versions of the library and of the application: the hook must be told so
                if (op.has("file_vers")) { char hb[160]; snprintf(hb, sizeof hb, "%% RT OSC v%d.%d.%d savefile\n%% %s v%d.%d.%d\n", (int)op["file_vers"][0].num(), (int)op["file_vers"][1].num(), (int)op["file_vers"][2].num(), APPNAME,
                                                                 (int)op["file_vers"][3].num(), (int)op["file_vers"][4].num(), (int)op["file_vers"][5].num()); f = std::string(hb) + body;
                    w.key("file_vers").arr(); for (int q = 0; q < 6; ++q) w.num((long)op["file_vers"][q].num()); w.end_arr(); }
                App fresh; FlushBuf tb(f.size() + 1); memcpy(tb.p, f.c_str(), f.size() + 1);
                int rv = load_from_file((const char *)tb.p, App::ports, &fresh, APPNAME, APPVER, &hd);
                w.knum("ret", rv).knum("hook_calls", hd.seen).key("vers").arr(); for (int q = 0; q < 12; ++q) w.num(hd.vers[q]); w.end_arr().key("loaded"); state(w, fresh); }
            else if (k == "load" || k == "loadraw") { std::string text;
                if (k == "load") { text = header(); for (auto &l : op["lines"].a) text += l.s + "\n"; w.key("lines").arr(); for (auto &l : op["lines"].a) w.str(l.s); w.end_arr(); }
                else { text = op["text"].s; w.kstr("text", text).kbool("any_result", op.has("any_result") && op["any_result"].b); }
                App fresh; FlushBuf tb(text.size() + 1); memcpy(tb.p, text.c_str(), text.size() + 1);
                int rv = load_from_file((const char *)tb.p, App::ports, &fresh, APPNAME, APPVER);
                w.knum("ret", rv).key("loaded"); state(w, fresh); }
            w.knum("asan", vg_asan_hits).key("state"); state(w, app); w.end_obj(); } });
    w.end_arr().knum("sig", sig).knum("asan", vg_asan_hits).kstr("asan_what", vg_asan_first).end_obj();
    if (sig) { JW e; e.obj().key("ev").raw("[]").knum("sig", sig).knum("asan", vg_asan_hits).kstr("asan_what", vg_asan_first).end_obj(); fprintf(out, "%s\n", e.s.c_str()); return; }
    fprintf(out, "%s\n", w.s.c_str());
}
int main(int argc, char **argv) {
    vg_init(); if (argc < 4) return 2; FILE *f = fopen(argv[2], "r"); FILE *out = fopen(argv[3], "w"); if (!f || !out) return 2; std::string line;
    while (read_line(f, line)) { if (line.empty()) continue; J s = jparse(line); run_script(s, out); }
    fclose(out); return 0;
}
