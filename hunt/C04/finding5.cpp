// build: g++ -std=c++11 -I/tmp/wt/C04_h/include /tmp/wt/C04_h/findings/finding5.cpp /tmp/wt/C04_h/_build/librtosc-cpp.a /tmp/wt/C04_h/_build/librtosc.a -o /tmp/wt/C04_h/findings/finding5
//
// C04 finding 5: Ports::dispatch never looks at RtData::loc_size when it
// appends to the location buffer (all three append sites).  (a) an address of
// the tree that is longer than the buffer is written past its end;  (b) with a
// '#N' port the appended text is copied from the MESSAGE, and rtosc_match
// accepts any number of leading zeros in the index, so a buffer that is large
// enough for every path of the tree is still overrun by a (valid, printable)
// message such as /a0000000000000000000000000003.
#include <rtosc/ports.h>
#include <rtosc/rtosc.h>
#include <cstdio>
#include <cstring>
using namespace rtosc;

static int hits;
static void leaf(msg_t, RtData&) { hits++; }

struct Guarded { char loc[16]; char canary[64]; };

static int run(const char *what, const Ports &p, const char *addr, size_t loc_size)
{
    Guarded g; char msg[128];
    memset(g.loc, 0, sizeof(g.loc));
    memset(g.canary, 0x5a, sizeof(g.canary));
    rtosc_message(msg, sizeof(msg), addr, "");
    RtData d; d.loc = g.loc; d.loc_size = loc_size;
    hits = 0;
    p.dispatch(msg, d, true);
    int damaged = 0;
    for(size_t i = 0; i < sizeof(g.canary); ++i) damaged += g.canary[i] != 0x5a;
    for(size_t i = loc_size; i < sizeof(g.loc); ++i) damaged += g.loc[i] != 0;
    printf("%s: %s with loc_size=%zu: %d callback(s); expected 0 bytes written "
           "outside loc[0..%zu), got %d\n", what, addr, loc_size, hits, loc_size, damaged);
    return damaged;
}

int main()
{
    static const Ports sub   = { {"abcabc", 0, 0, leaf}, {"x", 0, 0, leaf} };           // hashed
    static const Ports root  = { {"abcabc/", 0, &sub, [](msg_t m, RtData &d){
                                     while(*m && *m != '/') ++m; if(*m) ++m; sub.dispatch(m, d); }},
                                 {"y", 0, 0, leaf} };                                    // hashed
    static const Ports enums = { {"a#4", 0, 0, leaf} };                                  // linear, '#'
    int bad = 0;
    bad += run("(a) hashed tables ", root,  "/abcabc/abcabc", 8);
    bad += run("(b) '#N' port     ", enums, "/a3", 16);      // fits: no damage expected, none seen
    bad += run("(b) '#N' port     ", enums, "/a000000000000000000000000000000000003", 16);
    if(bad) { printf("FAIL: the location buffer was overrun\n"); return 1; }
    printf("ok\n");
    return 0;
}
