---------------------------- MODULE AppTrace ----------------------------
(* Trace validation for the application properties C12 (savefile = differences from  *)
(* defaults, restores the state), C13 (loading is independent of the line order) and  *)
(* C14 (parameter ports clamp, reply, broadcast, report changes).  A log line is one   *)
(* script run on a fresh instance of app1: messages to parameter ports, saves, loads;  *)
(* after each operation the events it produced and the complete state.  The model      *)
(* (AppModel.tla) takes the same step; clause names carry the property they belong to. *)
EXTENDS AppModel, Json, IOUtils
Log == ndJsonDeserialize(IOEnv.TRACE)
VARIABLES x, l, s, sp      \* execution, position, model state, model state before the last step
tvars == <<x, l, s, sp>>
Evs == Log[x].ev
TInit == x \in 1..Len(Log) /\ l = 1 /\ s = Default /\ sp = Default
Do(ev, st) == IF ev.op = "set" THEN SetState(st, ev.addr, ev.ty, IF ev.ty \in {"T", "F"} THEN 0 ELSE ev.v)
              ELSE IF ev.op = "floatseq" THEN SetState(st, ev.addr, "f", 4)      \* a float sequence ends with the value 1.0 (four quarters)
              ELSE st
Step == /\ l >= 1 /\ l <= Len(Evs) /\ s' = Do(Evs[l], s) /\ sp' = s /\ l' = l + 1 /\ UNCHANGED x
Finish == /\ l = Len(Evs) + 1 /\ PrintT(<<"DONE", x>>) /\ l' = 0 /\ UNCHANGED <<x, s, sp>>
TNext == Step \/ Finish
TSpec == TInit /\ [][TNext]_tvars
\* ------------------------------------------------------------------ values as the driver logs them
ValOf(p, v) == CASE p.kind = "T" -> [t |-> IF v THEN "T" ELSE "F", n |-> 0, b |-> <<>>]
                 [] p.kind = "s" -> [t |-> "s", n |-> 0, b |-> v]
                 [] OTHER -> [t |-> EvType(p), n |-> v, b |-> <<>>]
FileValOf(p, v) == IF p.kind = "o" THEN [t |-> "S", n |-> 0, b |-> OptionNames[v + 1]] ELSE ValOf(p, v)
Bytes(str) == str
Events(ev, kind) == SelectSeq(ev.events, LAMBDA e : e.kind = kind)
\* ------------------------------------------------------------------ C14
SetFails(ev, before, after) ==
  LET p == Param(ev.addr)
      live == Exists(before, p) /\ Admits(p, ev.ty)
      old == IF Exists(before, p) THEN GetV(before, p) ELSE 0
      new == IF Exists(after, p) THEN GetV(after, p) ELSE 0
      changed == live /\ old # new
      und == Events(ev, "undo")  bc == Events(ev, "broadcast")  rp == Events(ev, "reply") IN
  {k \in {"c14:stored_value_or_other_parameter_touched", "c14:matches", "c14:undo_event", "c14:broadcast", "c14:unexpected_reply"} :
   ~ CASE k = "c14:stored_value_or_other_parameter_touched" -> ev.state = after
       [] k = "c14:matches" -> ev.matches = (IF live THEN 1 ELSE 0)
       [] k = "c14:undo_event" -> IF changed /\ Numeric(p)
                                  THEN Len(und) = 1 /\ Len(und[1].args) = 3 /\ und[1].args[1].b = ev.addr_bytes
                                       /\ und[1].args[2] = ValOf(p, old) /\ und[1].args[3] = ValOf(p, new)
                                  ELSE und = <<>>
       [] k = "c14:broadcast" -> IF changed THEN Len(bc) = 1 /\ bc[1].addr = ev.addr /\ (p.kind = "T" \/ (Len(bc[1].args) = 1 /\ bc[1].args[1].n = ValOf(p, new).n /\ bc[1].args[1].b = ValOf(p, new).b))
                                              /\ (p.kind = "T" => bc[1].tags = ValOf(p, new).t)
                                 ELSE Len(bc) <= 1 /\ (\A i \in 1..Len(bc) : bc[i].addr = ev.addr)
       [] k = "c14:unexpected_reply" -> rp = <<>> }
GetFails(ev, before) ==
  LET p == Param(ev.addr)  live == Exists(before, p)  rp == Events(ev, "reply") IN
  {k \in {"c14:get_changes_state", "c14:get_reply", "c14:get_other_events"} :
   ~ CASE k = "c14:get_changes_state" -> ev.state = before
       [] k = "c14:get_reply" -> IF live THEN Len(rp) = 1 /\ rp[1].addr = ev.addr /\
                                             (IF p.kind = "T" THEN rp[1].tags = ValOf(p, GetV(before, p)).t
                                              ELSE Len(rp[1].args) = 1 /\ rp[1].args[1] = ValOf(p, GetV(before, p)))
                                 ELSE rp = <<>>
       [] k = "c14:get_other_events" -> Len(ev.events) = Len(rp) }
\* ------------------------------------------------------------------ C14 at the resolution of float bit patterns (FloatPort.tla)
FP == INSTANCE FloatPort WITH MaxLen <- 0, seq <- <<>>
BitsOfQ(q) == LET lm == FloatLimbs(q) IN lm[1] * 65536 + lm[2]            \* positive quarters only (below 2^31)
FloatSeqFails(ev, before, after) ==
  LET p == Param(ev.addr)
      exp == FP!Run(BitsOfQ(GetV(before, p)), BitsOfQ(p.hi), ev.ins) IN
  {k \in {"c14:float_stored_pattern", "c14:float_undo_event_iff_changed", "c14:float_broadcast", "c14:float_matches", "c14:stored_value_or_other_parameter_touched"} :
   ~ CASE k = "c14:float_stored_pattern" -> \A i \in 1..Len(exp) : ev.steps[i].stored = exp[i].stored
       [] k = "c14:float_undo_event_iff_changed" -> \A i \in 1..Len(exp) : ev.steps[i].undo = (IF exp[i].changed THEN << [old |-> exp[i].old, new |-> exp[i].stored] >> ELSE <<>>)
       [] k = "c14:float_broadcast" -> \A i \in 1..Len(exp) : IF exp[i].changed THEN ev.steps[i].bc = << exp[i].stored >> ELSE Len(ev.steps[i].bc) <= 1
       [] k = "c14:float_matches" -> \A i \in 1..Len(exp) : ev.steps[i].matches = 1
       [] k = "c14:stored_value_or_other_parameter_touched" -> ev.state = after }
\* ------------------------------------------------------------------ C12 / C13
RECURSIVE ObsVal(_)
ObsVal(v) == IF v.t = "a" THEN [i \in 1..Len(v.el) |-> ObsVal(v.el[i])] ELSE [t |-> v.t, n |-> v.n, b |-> v.b]
ObsLines(lines) == { [addr |-> lines[i].addr, vals |-> [j \in 1..Len(lines[i].vals) |-> ObsVal(lines[i].vals[j])]] : i \in 1..Len(lines) }
ExpLine(st, ln) == IF ln.addr \in ArrayLineAddrs
                   THEN LET f == SubSeq(ln.addr, 2, Len(ln.addr))  p == Param(ln.addr \o "0") IN
                        [addr |-> ln.addr, vals |-> << [i \in 1..Len(ln.vals[1]) |-> ValOf(p, ln.vals[1][i])] >>]
                   ELSE LET p == Param(ln.addr) IN [addr |-> ln.addr, vals |-> << FileValOf(p, GetV(st, p)) >>]
ExpLines(st) == { ExpLine(st, ln) : ln \in SaveLines(st) }
SaveFails(ev, st) ==
  {k \in {"c12:header", "c12:saved_lines", "c12:line_count", "c12:state_changed_by_saving"} :
   ~ CASE k = "c12:header" -> ev.header_ok
       [] k = "c12:saved_lines" -> ObsLines(ev.lines) = ExpLines(st)
       [] k = "c12:line_count" -> Len(ev.lines) = Cardinality(SaveLines(st))
       [] k = "c12:state_changed_by_saving" -> ev.state = st }
\* loading the saved lines in any order gives the saved state (its reachable part) and the number of lines
PermFails(ev, st) ==
  {k \in {"c12:loaded_state", "c12:load_result", "c13:order_changes_state", "c13:order_changes_result"} :
   ~ CASE k = "c12:loaded_state" -> \E i \in 1..Len(ev.outcomes) : ev.outcomes[i].res.loaded = Restored(st)
       [] k = "c12:load_result" -> \E i \in 1..Len(ev.outcomes) : ev.outcomes[i].res.ret = Len(ev.lines)
       [] k = "c13:order_changes_state" -> \A i, j \in 1..Len(ev.outcomes) : ev.outcomes[i].res.loaded = ev.outcomes[j].res.loaded
       [] k = "c13:order_changes_result" -> \A i, j \in 1..Len(ev.outcomes) : ev.outcomes[i].res.ret = ev.outcomes[j].res.ret }
\* a file from which one line is missing (possibly one that others depend on): every message that still finds its port is applied
\* exactly as if the lines stood in dependency order; a line whose port does not exist any more makes the load fail
SeqToLines(st, idxs, lines) == { ln \in SaveLines(st) : \E i \in idxs : lines[i].addr = ln.addr }
AllFound(lines) == \A ln \in lines : LET w == Param(ln.addr \o (IF ln.addr \in ArrayLineAddrs THEN "0" ELSE "")).where IN
                     /\ (w = "psub" => \E m \in lines : m.addr = "/palloc")
                     /\ (w \in {"fx", "fxv"} => \E m \in lines : m.addr = "/fx_on")
DropFails(ev, st) ==
  {k \in {"c13:missing_line_state", "c13:missing_line_result"} :
   ~ CASE k = "c13:missing_line_state" -> \A i \in 1..Len(ev.drops) :
                LET kept == SeqToLines(st, (1..Len(ev.lines)) \ {ev.drops[i].dropped}, ev.lines) IN
                AllFound(kept) => ev.drops[i].res.loaded = LoadLines(kept)
       [] k = "c13:missing_line_result" -> \A i \in 1..Len(ev.drops) :
                LET kept == SeqToLines(st, (1..Len(ev.lines)) \ {ev.drops[i].dropped}, ev.lines) IN
                IF AllFound(kept) THEN ev.drops[i].res.ret = Len(ev.lines) - 1 ELSE ev.drops[i].res.ret < 0 }
\* ------------------------------------------------------------------ C08: subtree_serialize / subtree_deserialize
\* The serialised image is a pure function of the state: EncBundle (OscWire.tla) of the model's elements.
W == INSTANCE OscWire
CharCode(c) == CASE c = "/" -> 47 [] c = "_" -> 95 [] c = "0" -> 48 [] c = "1" -> 49 [] c = "2" -> 50 [] c = "3" -> 51 [] c = "4" -> 52 [] c = "5" -> 53 [] c = "6" -> 54 [] c = "7" -> 55 [] c = "8" -> 56 [] c = "9" -> 57
                 [] c = "a" -> 97 [] c = "b" -> 98 [] c = "c" -> 99 [] c = "d" -> 100 [] c = "e" -> 101 [] c = "f" -> 102 [] c = "g" -> 103 [] c = "h" -> 104 [] c = "i" -> 105 [] c = "j" -> 106 [] c = "k" -> 107 [] c = "l" -> 108 [] c = "m" -> 109
                 [] c = "n" -> 110 [] c = "o" -> 111 [] c = "p" -> 112 [] c = "q" -> 113 [] c = "r" -> 114 [] c = "s" -> 115 [] c = "t" -> 116 [] c = "u" -> 117 [] c = "v" -> 118 [] c = "w" -> 119 [] c = "x" -> 120 [] c = "y" -> 121 [] c = "z" -> 122
StrBytes(str) == [i \in 1..Len(str) |-> CharCode(SubSeq(str, i, i))]
SerArgW(e) == CASE e.ty \in {"T", "F"} -> [t |-> e.ty, v |-> <<>>, z |-> 0]
                [] e.ty = "s" -> [t |-> "s", v |-> e.v, z |-> 0]
                [] e.ty = "f" -> [t |-> "f", v |-> FloatLimbs(e.v), z |-> 0]
                [] OTHER -> [t |-> e.ty, v |-> IntLimbs(e.v), z |-> 0]
SerImage(st) == LET es == SerElems(st) IN
                W!EncBundle(SerTimeTag, [i \in 1..Len(es) |-> [k |-> "m", addr |-> StrBytes(es[i].addr), args |-> << SerArgW(es[i]) >>]])
SerFails(ev, st) ==
  LET img == SerImage(st) IN
  {k \in {"c08:serialized_image", "c08:serialized_size", "c08:serialized_bundle_as_read_back", "c08:serialize_capacity", "c08:serialize_guard", "c08:deserialized_state", "c08:state_changed_by_serializing"} :
   ~ CASE k = "c08:serialized_image" -> ev.bytes = img
       [] k = "c08:serialized_size" -> ev.ret = Len(img)
       [] k = "c08:serialized_bundle_as_read_back" -> ev.is_bundle /\ ev.nelems_buf = Len(SerElems(st)) /\ ev.mlen_buf = Len(img)
       [] k = "c08:serialize_capacity" -> \A i \in 1..Len(ev.caps) : ev.caps[i].ret = (IF ev.caps[i].cap >= Len(img) THEN Len(img) ELSE 0) /\ (ev.caps[i].cap >= Len(img) => ev.caps[i].same)
       [] k = "c08:serialize_guard" -> \A i \in 1..Len(ev.caps) : ev.caps[i].guard /\ ev.caps[i].asan = 0
       [] k = "c08:deserialized_state" -> ev.loaded = Deserialized(st)
       [] k = "c08:state_changed_by_serializing" -> ev.state = st }
\* ------------------------------------------------------------------ loading through a dispatcher with hooks (savefile_dispatcher_t::on_dispatch)
\* a hook may discard a line (it still counts as read), abort the loading (negative result), rename the port or change the argument
SetOf(q) == { q[i] : i \in 1..Len(q) }
HookLines(lines, h) == { IF ln.addr = h.ren_from THEN [ln EXCEPT !.addr = h.ren_to]
                         ELSE IF ln.addr = h.inc_addr THEN [ln EXCEPT !.vals = << ln.vals[1] + h.inc_by >>] ELSE ln : ln \in { m \in lines : m.addr \notin SetOf(h.discard) } }
HookFails(ev, st) ==
  \* (a line whose port does not exist any more - its allocating toggle was discarded - makes the load fail like an abort does)
  LET lines == SaveLines(st)  h == ev.hook  aborts == (h.abort # "" /\ \E ln \in lines : ln.addr = h.abort) \/ ~ AllFound(HookLines(lines, h)) IN
  {k \in {"c12:hook_result", "c12:hook_loaded_state", "c12:hook_called_per_line", "c12:hook_versions"} :
   ~ CASE k = "c12:hook_result" -> IF aborts THEN ev.ret < 0 ELSE ev.ret = Cardinality(lines)
       [] k = "c12:hook_loaded_state" -> aborts \/ ev.loaded = LoadLines(HookLines(lines, h))
       [] k = "c12:hook_called_per_line" -> aborts \/ ev.hook_calls = Cardinality(lines)
       \* the hook is told the versions the FILE was written with (its two header lines) and the current ones (library 0.3.1, application 1.2.3)
       [] k = "c12:hook_versions" -> ev.hook_calls = 0 \/ LET fv == IF "file_vers" \in DOMAIN ev THEN ev.file_vers ELSE <<0, 3, 1, 1, 2, 3>> IN
                                         ev.vers = SubSeq(fv, 1, 3) \o <<0, 3, 1>> \o SubSeq(fv, 4, 6) \o <<1, 2, 3>> }
RawFails(ev) == {k \in {"c12:bad_file_accepted"} : ~ (ev.ret < 0 \/ ("any_result" \in DOMAIN ev /\ ev.any_result)) }
Mismatch(ev, before, after) ==
  CASE ev.op = "set" -> SetFails(ev, before, after)
    [] ev.op = "get" -> GetFails(ev, before)
    [] ev.op = "save" -> SaveFails(ev, after)
    [] ev.op = "saveload" -> SaveFails(ev, after) \cup PermFails(ev, after) \cup DropFails(ev, after)
    [] ev.op = "loadraw" -> RawFails(ev)
    [] ev.op = "serialize" -> SerFails(ev, after)
    [] ev.op = "savehook" -> SaveFails(ev, after) \cup HookFails(ev, after)
    [] ev.op = "floatseq" -> FloatSeqFails(ev, before, after)
    [] OTHER -> {}
Judge == (l <= 1) \/ LET m == Mismatch(Evs[l - 1], sp, s) \cup (IF Evs[l - 1].asan # 0 THEN {"memory_error"} ELSE {}) IN m = {} \/ PrintT(<<"REJECT", x, m, l - 1>>)
=============================================================================
