// build (in findings/): g++ -std=c++11 -I../include finding6.cpp ../_build/librtosc-cpp.a ../_build/librtosc.a -o finding6
// A log-scale INTEGER parameter (rParamI + rLog(1,1000)) is sent the logarithm
// of the value: 0..7 instead of 1..1000, and 0 is outside [min,max].
#include <rtosc/ports.h>
#include <rtosc/automations.h>
#include <rtosc/port-sugar.h>
#include <cstdio>
#include <cmath>
struct D { int steps; };
#define rObject D
static rtosc::Ports ports = { rParamI(steps, rLog(1,1000), "steps") };
static int got;
int main()
{
    rtosc::AutomationMgr m(2, 1, 16);
    m.set_ports(ports);
    m.backend = [](const char *msg){ got = rtosc_argument(msg, 0).i; };
    m.createBinding(0, "/steps", false);
    int bad = 0;
    float in[] = {0.f, 0.5f, 1.f};
    for(float v : in) {
        m.setSlot(0, v);
        double e = exp(log(1.0) + v*(log(1000.0)-log(1.0)));
        printf("slot %.1f: expected about %.0f (inside [1,1000]), got %d\n", v, e, got);
        if(got < 1 || got > 1000 || fabs(got-e) > 0.5 + 1e-5*e) bad++;
    }
    printf(bad ? "FAIL\n" : "ok\n");
    return bad != 0;
}
