// build: g++ -std=c++11 -I/tmp/wt/C12_h/include finding2.cpp /tmp/wt/C12_h/_build/librtosc-cpp.a /tmp/wt/C12_h/_build/librtosc.a -o finding2
//
// A parameter whose default depends on a preset port is loaded BEFORE the
// preset (and then overwritten by it) if another port whose name merely starts
// with the same letters is declared in front of it: scan_deps() finds the
// port of a saved line with Ports::apropos(), which returns the first port
// whose name starts with the path ("gain_db" for "/gain").
#include <rtosc/rtosc.h>
#include <rtosc/ports.h>
#include <rtosc/savefile.h>
#include <rtosc/port-sugar.h>
#include <cstdio>
#include <cstdarg>
#include <string>
#include <set>
using namespace rtosc;

struct App {
    static const Ports& ports;
    int gain_db = 0;
    int gain = 30;   // default depends on the preset: soft -> 30, loud -> 127
    int preset = 0;
    void apply_preset() { gain = preset == 0 ? 30 : 127; }
};
#define rObject App
static const Ports app_ports = {
    rParamI(gain_db, rDefault(0), "a parameter whose name starts with 'gain', too"),
    rParamI(gain, rDefaultDepends(preset), rPresets(30, 127), "gain"),
#undef rChangeCb
#define rChangeCb obj->apply_preset();
    rOption(preset, rOptions(soft, loud), rDefault(soft),
            "preset - selecting one sets the gain to the preset's default"),
#undef rChangeCb
#define rChangeCb
};
#undef rObject
const Ports& App::ports = app_ports;

static void send(App& a, const char* path, const char* args, ...)
{
    char buf[256], loc[256] = "";
    va_list va; va_start(va, args);
    rtosc_vmessage(buf, sizeof(buf), path, args, va);
    va_end(va);
    RtData d; d.obj = &a; d.loc = loc; d.loc_size = sizeof(loc);
    app_ports.dispatch(buf, d, true);
}

int main()
{
    App a;
    send(a, "/preset", "i", 1); // preset loud: gain becomes 127
    send(a, "/gain", "i", 50);  // then the gain is set to 50
    std::set<std::string> written;
    std::string f = save_to_file(app_ports, &a, "app", rtosc_version{1,0,0}, written, {});
    printf("state: preset=%d gain=%d gain_db=%d\nsavefile:\n%s\n", a.preset, a.gain, a.gain_db, f.c_str());

    App b;
    int r = load_from_file(f.c_str(), app_ports, &b, "app", rtosc_version{1,0,0});
    printf("expected: load returns 2 and restores preset=1 gain=50\n");
    printf("happened: load returns %d, preset=%d gain=%d\n", r, b.preset, b.gain);
    return (r == 2 && b.preset == 1 && b.gain == 50) ? 0 : 1;
}
