// build+run (from findings/): c++ -std=c++11 -I../include finding3.cpp ../_build/librtosc-cpp.a ../_build/librtosc.a -o finding3 && ./finding3
// A port whose name uses {a,b} alternatives is matched by the linear lookup
// (RtData without location buffer) but is unreachable through the hashed
// lookup that Ports::dispatch uses as soon as RtData::loc is set: the hash
// keys are the raw port names ("{foo,bar}"), which no address ever spells.
#include <rtosc/ports.h>
#include <rtosc/rtosc.h>
#include <cstdio>
#include <cstring>
#include <string>
using namespace rtosc;

static std::string hit;
static void cb(const char *, RtData &d) { hit = d.port->name; }

static std::string run(const Ports &p, const char *msg, bool with_loc)
{
    RtData d;
    char loc[128] = "";
    d.obj = NULL;
    if(with_loc) { d.loc = loc; d.loc_size = sizeof(loc); }
    hit = "(none)";
    p.dispatch(msg, d, true);
    return hit;
}

int main()
{
    Ports p = {
        {"{foo,bar}:i", NULL, NULL, cb},
        {"x{a,b}y/",    NULL, NULL, cb},
        {"plain:i",     NULL, NULL, cb},
    };
    struct { const char *addr, *types, *expect; } t[] = {
        {"/plain", "i", "plain:i"},
        {"/foo",   "i", "{foo,bar}:i"},
        {"/bar",   "i", "{foo,bar}:i"},
        {"/xay/q", "",  "x{a,b}y/"},
        {"/xby/",  "",  "x{a,b}y/"},
    };
    int bad = 0;
    for(auto &c : t) {
        char buf[128];
        rtosc_arg_t a[2]; memset(a, 0, sizeof(a));
        rtosc_amessage(buf, sizeof(buf), c.addr, c.types, a);
        std::string lin = run(p, buf, false), hashed = run(p, buf, true);
        bool ok = lin == c.expect && hashed == c.expect;
        printf("%-7s ,%-2s expected port %-12s  linear lookup: %-12s  lookup with loc buffer: %-12s%s\n",
               c.addr, c.types, c.expect, lin.c_str(), hashed.c_str(),
               ok ? "" : "  <-- WRONG");
        bad += !ok;
    }
    printf("%d wrong result(s)\n", bad);
    return bad != 0;
}
