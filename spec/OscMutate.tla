---------------------------- MODULE OscMutate ----------------------------
(* Input machine for C07: a state is an arbitrary byte string.                   *)
(* Mode "mutate": Init = the wire image of a well-formed message from a pool,    *)
(*   Next = one mutation - truncate at any offset, set any byte to a boundary    *)
(*   value (flips terminators, makes padding non-zero, replaces tags, corrupts   *)
(*   blob lengths), overwrite an aligned word with an extreme length, insert /   *)
(*   delete / append a word.  Second-level mutations are the structural ones     *)
(*   (truncate, word-level), which is what a crafted length field needs: a       *)
(*   wrapped blob length followed by a compensating truncation.                  *)
(* Mode "enum": Init = <<>>, Next appends one symbol of a small alphabet, so BFS *)
(*   enumerates every buffer up to MaxLen.                                       *)
EXTENDS OscWire, Json, CSV, IOUtils
CONSTANTS Mode, Depth, MaxLen, Alphabet, Prefix
VARIABLES buf, d
A(t, v) == [t |-> t, v |-> v, z |-> 0]
M(addr, args) == [k |-> "m", addr |-> addr, args |-> args]
Pool == { Encode(<<47>>, <<>>),
          Encode(<<47, 97>>, <<A("i", <<0, 1>>)>>),
          Encode(<<47>>, <<A("b", <<>>), A("i", <<0, 7>>)>>),
          Encode(<<47>>, <<A("b", <<1, 2, 3>>)>>),
          Encode(<<47, 97, 98>>, <<A("s", <<120>>), A("b", <<9, 9, 9, 9>>)>>),
          Encode(<<47, 97, 98, 99>>, <<A("s", <<120, 121, 122>>)>>),
          Encode(<<47>>, <<A("b", <<5>>), A("s", <<>>), A("T", <<>>)>>),
          Encode(<<47>>, <<A("s", <<>>), A("i", <<0, 1>>)>>),
          Encode(<<47>>, <<A("h", <<1, 2, 3, 4>>), A("[", <<>>), A("S", <<65>>), A("]", <<>>)>>),
          \* bundles: the length function walks their element size fields; no bundle is a valid MESSAGE, so only the base clauses apply
          EncBundle(<<0, 0, 0, 1>>, <<>>),
          EncBundle(<<0, 0, 0, 1>>, << M(<<47, 97>>, <<A("i", <<0, 1>>)>>) >>),
          EncBundle(<<0, 0, 0, 1>>, << M(<<47>>, <<>>), [k |-> "b", tt |-> <<0, 0, 0, 2>>, elems |-> << M(<<47, 98>>, <<>>) >>] >>) }
ByteVals == {0, 1, 44, 47, 91, 98, 105, 115, 127, 128, 255}
WordVals == { <<0, 255, 255, 255>>, <<0, 0, 0, 0>>, <<0, 0, 0, 1>>, <<0, 0, 0, 3>>, <<0, 0, 0, 4>>, <<0, 0, 0, 8>>, <<127, 255, 255, 255>>, <<128, 0, 0, 0>>,
              <<255, 255, 255, 248>>, <<255, 255, 255, 252>>, <<255, 255, 255, 253>>, <<255, 255, 255, 255>> }
Trunc(b)   == { SubSeq(b, 1, k) : k \in 0..(Len(b) - 1) }
SetByte(b) == { [b EXCEPT ![p] = v] : p \in 1..Len(b), v \in ByteVals }
Words(b)   == { p \in 1..Len(b) : (p - 1) % 4 = 0 /\ p + 3 <= Len(b) }
SetWord(b) == { SubSeq(b, 1, p - 1) \o w \o SubSeq(b, p + 4, Len(b)) : p \in Words(b), w \in WordVals }
InsWord(b) == { SubSeq(b, 1, p - 1) \o w \o SubSeq(b, p, Len(b)) : p \in { q \in 1..(Len(b) + 1) : (q - 1) % 4 = 0 }, w \in { <<0, 0, 0, 0>>, <<44, 98, 0, 0>> } }
DelWord(b) == { SubSeq(b, 1, p - 1) \o SubSeq(b, p + 4, Len(b)) : p \in Words(b) }
Structural(b) == Trunc(b) \cup SetWord(b) \cup InsWord(b) \cup DelWord(b)
PrefixBytes == CASE Prefix = "none" -> <<>> [] Prefix = "hdr" -> <<47, 0, 0, 0, 44>> [] Prefix = "hdr_b" -> <<47, 0, 0, 0, 44, 98>>
Init == /\ d = 0
        /\ IF Mode = "mutate" THEN buf \in Pool ELSE buf = PrefixBytes
Next == /\ d' = d + 1
        /\ IF Mode = "mutate"
           THEN /\ d < Depth
                /\ buf' \in (IF d = 0 THEN Structural(buf) \cup SetByte(buf) ELSE Structural(buf))
                /\ buf' # buf
           ELSE /\ Len(buf) < MaxLen
                /\ \E c \in Alphabet : buf' = Append(buf, c)
\* laws of the specification's own decoder on arbitrary bytes: total, and whatever it accepts lies inside the buffer
strictD == Decode(buf)
lenD == DecodeLenient(buf)
Laws == /\ strictD.ok => (lenD.ok /\ lenD.args = strictD.args /\ lenD.len = strictD.len)
        /\ lenD.ok => (lenD.len <= Len(buf) /\ lenD.len % 4 = 0)
Out == IF "OUT" \in DOMAIN IOEnv THEN IOEnv.OUT ELSE "none"
Emit == Out = "none" \/ CSVWrite("%1$s", <<ToJson([bytes |-> buf])>>, Out)
View == buf
=============================================================================
