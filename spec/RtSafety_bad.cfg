INIT MInit
NEXT BadNext
INVARIANT RtQuiet
CONSTRAINT Bound
CHECK_DEADLOCK FALSE
