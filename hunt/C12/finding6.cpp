// build: g++ -std=c++11 -I/tmp/wt/C12_h/include finding6.cpp /tmp/wt/C12_h/_build/librtosc-cpp.a /tmp/wt/C12_h/_build/librtosc.a -o finding6
//
// Loading puts the port that enables a sub-tree in front of the sub-tree's
// parameters when the sub-tree is declared with rRecur(sub, rEnabledBy(sub_on)),
// but not when the sub-tree declares it itself with the Guide's other form,
// rSelf(..., rEnabledBy(on)): scan_deps() only reads the "enabled by" property
// of the "sub/" port, never that of the sub-tree's "self:" port. The lines are
// then dispatched in file order (= port order), the enabling port possibly last.
#include <rtosc/rtosc.h>
#include <rtosc/ports.h>
#include <rtosc/savefile.h>
#include <rtosc/port-sugar.h>
#include <cstdio>
#include <cstdarg>
#include <string>
#include <set>
using namespace rtosc;

// a unit that is reset to its defaults whenever it is switched on
struct Unit {
    static const Ports& ports;
    int x = 1; bool on = false;
    void set_on(bool v) { if(v && !on) x = 1; on = v; }
};
struct App { static const Ports& ports; Unit self_enabled; };

#define TOGGLE_ON \
    {"on::T:F", rProp(parameter) rDefault(false) rDoc("switches the unit on (and resets it)"), NULL, \
        [](const char* msg, RtData& d) { \
            Unit* obj = (Unit*)d.obj; \
            if(!*rtosc_argument_string(msg)) d.reply(d.loc, obj->on ? "T" : "F"); \
            else obj->set_on(rtosc_argument(msg, 0).T); }}

#define rObject Unit
static const Ports unit_ports = {
    rSelf(Unit, rEnabledBy(on)),
    rParamI(x, rDefault(1), "a parameter of the unit"),
    TOGGLE_ON,
};
#undef rObject
const Ports& Unit::ports = unit_ports;
#define rObject App
static const Ports app_ports = {
    rRecur(self_enabled, "unit that declares its enabling port itself"),
};
#undef rObject
const Ports& App::ports = app_ports;

static void send(App& a, const char* path, const char* args, ...)
{
    char buf[256], loc[256] = "";
    va_list va; va_start(va, args);
    rtosc_vmessage(buf, sizeof(buf), path, args, va);
    va_end(va);
    RtData d; d.obj = &a; d.loc = loc; d.loc_size = sizeof(loc);
    app_ports.dispatch(buf, d, true);
}

int main()
{
    App a;
    send(a, "/self_enabled/on", "T");
    send(a, "/self_enabled/x", "i", 5);
    std::set<std::string> written;
    std::string f = save_to_file(app_ports, &a, "app", rtosc_version{1,0,0}, written, {});
    printf("state: self_enabled: on=%d x=%d\nsavefile:\n%s\n", a.self_enabled.on, a.self_enabled.x, f.c_str());
    App b;
    int r = load_from_file(f.c_str(), app_ports, &b, "app", rtosc_version{1,0,0});
    printf("expected: load returns 2, self_enabled: on=1 x=5\n");
    printf("happened: load returns %d, self_enabled: on=%d x=%d\n", r, b.self_enabled.on, b.self_enabled.x);
    return (r == 2 && b.self_enabled.on && b.self_enabled.x == 5) ? 0 : 1;
}
