---------------------------- MODULE MidiMapperTrace ----------------------------
(* Trace validation for C20.  A line of the log is one execution of the real pair of   *)
(* objects: API calls, controller events and message deliveries in the order they were *)
(* made, each with what was observed afterwards - parameter messages sent to the       *)
(* backend, the kinds of the messages waiting in the two queues, and the non-realtime  *)
(* half's view (learn queue, per address: mapped?, coarse id, fine id).  The model     *)
(* takes the same step (it is deterministic given the call) and the state is compared; *)
(* the invariants of the property are evaluated on every state of the real execution.  *)
(*   structure_*  : the halves exchanged different messages than the model (reported,  *)
(*                  not a violation by itself)                                         *)
(*   other clauses: backend output / learn bookkeeping differ, or an invariant of the  *)
(*                  property fails on the real execution                               *)
EXTENDS MidiMapper, Json, IOUtils
Log == ndJsonDeserialize(IOEnv.TRACE)
VARIABLES x, l, lastv, prevv \* lastv: per address the last <<14-bit value, parameter value>>; prevv: lastv before the step just taken
tvars == <<vars, x, l, lastv, prevv>>
Evs == Log[x].ev
\* declared range of the harness's parameters, scaled by 1000
Info(a) == CASE a = "/p" -> [int |-> TRUE,  lo |-> 0,     hi |-> 127000]
             [] a = "/q" -> [int |-> TRUE,  lo |-> 0 - 64000, hi |-> 63000]
             [] a = "/r" -> [int |-> FALSE, lo |-> 0 - 2500, hi |-> 10250]
             [] OTHER    -> [int |-> FALSE, lo |-> 0,     hi |-> 1000]
TInit == Init /\ x \in 1..Len(Log) /\ l = 1 /\ lastv = [a \in {} |-> 0] /\ prevv = [a \in {} |-> 0]
Do(ev) == CASE ev.op = "map" -> Map(ev.a, ev.coarse)
            [] ev.op = "unmap" -> UnMap(ev.a, ev.coarse)
            [] ev.op = "clear" -> Clear
            [] ev.op = "cc" -> HandleCC(ev.id, ev.v)
            [] ev.op = "deliver_rt" -> DeliverToRT
            [] ev.op = "deliver_nrt" -> DeliverToNRT
Step == /\ l >= 1 /\ l <= Len(Evs) /\ Do(Evs[l]) /\ l' = l + 1 /\ UNCHANGED x /\ prevv' = lastv
        /\ lastv' = IF Evs[l].op = "cc" /\ Len(Evs[l].out) = 1 /\ Len(out') = 1
                    THEN [a \in DOMAIN lastv \cup {Evs[l].out[1].a} |-> IF a = Evs[l].out[1].a THEN <<out'[1].x, Evs[l].out[1].v>> ELSE lastv[a]]
                    ELSE IF Evs[l].op \in {"map", "unmap", "clear"} THEN [a \in {} |-> 0] ELSE lastv
Finish == /\ l = Len(Evs) + 1 /\ PrintT(<<"DONE", x>>) /\ l' = 0 /\ UNCHANGED <<vars, x, lastv, prevv>>
TNext == Step \/ Finish
TSpec == TInit /\ [][TNext]_tvars
Kinds(q) == [i \in 1..Len(q) |-> q[i].k]
View4(a) == IF Has(inv, a) THEN [has |-> TRUE, c |-> inv[a].c, f |-> inv[a].f] ELSE [has |-> FALSE, c |-> NONE, f |-> NONE]
Mismatch(ev, prev) ==
  {k \in {"structure_to_rt", "structure_to_nrt", "unassigned_controller_not_announced", "backend_messages", "value_out_of_range", "value_not_monotone", "value_not_the_linear_map", "learn_queue", "bindings",
          "LearnOrder", "UniqueIds", "GenConsistent", "DrivesItsAddress", "AssignedIsLive", "NoStuckController",
          "real_unique_ids", "real_drives_bound_address"} :
   ~ CASE k = "structure_to_rt"  -> ev.to_rt = Kinds(toRT)
       [] k = "structure_to_nrt" -> ev.to_nrt = toNRT
       \* the property's first step: a controller that is neither assigned nor already announced arrives while the realtime half has been told to
       \* watch - it must be announced to the other half (that is the only way it can ever be assigned to the oldest queued address).
       \* Stated as: the model announces it and the real object stays silent.
       [] k = "unassigned_controller_not_announced" -> ~ (ev.op = "cc" /\ Len(toNRT) = Len(ev.to_nrt) + 1 /\ SubSeq(toNRT, 1, Len(ev.to_nrt)) = ev.to_nrt)
       [] k = "backend_messages" -> Len(ev.out) = Len(out) /\ \A i \in 1..Len(out) : ev.out[i].a = out[i].addr
       [] k = "value_out_of_range" -> \A i \in 1..Len(ev.out) : ev.out[i].v >= Info(ev.out[i].a).lo /\ ev.out[i].v <= Info(ev.out[i].a).hi
                                                            /\ (Info(ev.out[i].a).int <=> ev.out[i].ty = "i")
       [] k = "value_not_monotone" -> (ev.op = "cc" /\ Len(ev.out) = 1 /\ Len(out) = 1 /\ ev.out[1].a \in DOMAIN prev) =>
                                        LET p == prev[ev.out[1].a] IN /\ (p[1] <= out[1].x => p[2] <= ev.out[1].v)
                                                                      /\ (p[1] >= out[1].x => p[2] >= ev.out[1].v)
       \* the documented bijection: 14-bit controller value x (coarse half * 128 + fine half, the halves surviving re-bindings of OTHER addresses)
       \* onto [min, max]: min + (max - min) * x / 16384; tolerance: one unit for integer parameters (conversion), 0.002 for floats
       [] k = "value_not_the_linear_map" -> (ev.op = "cc" /\ Len(ev.out) = 1 /\ Len(out) = 1 /\ V = 128) =>
                                        LET i == Info(ev.out[1].a)  e == i.lo + ((i.hi - i.lo) * out[1].x) \div 16384  d == ev.out[1].v - e  tol == IF i.int THEN 1000 ELSE 2 IN
                                        d <= tol /\ 0 - d <= tol
       [] k = "learn_queue" -> ev.lq = [i \in 1..Len(lq) |-> [a |-> lq[i][1], coarse |-> lq[i][2]]]
       [] k = "bindings" -> \A i \in 1..Len(ev.view) : LET w == View4(ev.view[i].a) IN
                               ev.view[i].has = w.has /\ ev.view[i].c = w.c /\ ev.view[i].f = w.f
       [] k = "LearnOrder" -> LearnOrder
       [] k = "UniqueIds" -> UniqueIds
       [] k = "GenConsistent" -> GenConsistent
       [] k = "DrivesItsAddress" -> DrivesItsAddress
       [] k = "AssignedIsLive" -> AssignedIsLive
       [] k = "NoStuckController" -> NoStuckController
       \* the same two statements on what the REAL non-realtime half reports, whatever the model thinks (they keep their meaning after
       \* model and code have parted ways over the messages the halves exchange): no controller is assigned twice, and a parameter message
       \* goes to an address that has this controller assigned
       [] k = "real_unique_ids" -> \A i, j \in 1..Len(ev.view) : /\ (i # j => (ev.view[i].c = NONE \/ (ev.view[i].c # ev.view[j].c /\ ev.view[i].c # ev.view[j].f)))
                                                                /\ (i # j => (ev.view[i].f = NONE \/ (ev.view[i].f # ev.view[j].f)))
                                                                /\ (ev.view[i].c = NONE \/ ev.view[i].c # ev.view[i].f)
       [] k = "real_drives_bound_address" -> (ev.op = "cc" /\ Quiet /\ ev.to_rt = <<>> /\ ev.to_nrt = <<>>) =>
                                               \A o \in 1..Len(ev.out) : \E i \in 1..Len(ev.view) : ev.view[i].a = ev.out[o].a /\ (ev.view[i].c = ev.id \/ ev.view[i].f = ev.id) }
Judge == (l <= 1) \/ LET m == Mismatch(Evs[l - 1], prevv) IN m = {} \/ PrintT(<<"REJECT", x, m, l - 1>>)
=============================================================================
