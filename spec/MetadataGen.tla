---------------------------- MODULE MetadataGen ----------------------------
(* Input machine for C17: a state is an entry list, grown one entry at a time.    *)
(* Keys and values over an alphabet that includes ':', '=', ' ' and a digit;      *)
(* empty values, valueless entries and repeated keys in every position.           *)
EXTENDS Metadata, Json, CSV, IOUtils, TLC
CONSTANTS MaxEntries
VARIABLES es
KeyAlpha == {97, 58, 61, 32, 49}
Keys == { <<c>> : c \in KeyAlpha \ {58} } \cup { <<c, d>> : c \in KeyAlpha \ {58}, d \in KeyAlpha }
Vals == { <<>> } \cup { <<c>> : c \in KeyAlpha } \cup { <<58, 97>>, <<97, 61>>, <<61, 58>>, <<97, 32>> }
Init == es = <<>>
Next == /\ Len(es) < MaxEntries
        /\ \E k \in Keys : \/ es' = Append(es, [key |-> k, has |-> FALSE, val |-> <<>>])
                           \/ \E v \in Vals : es' = Append(es, [key |-> k, has |-> TRUE, val |-> v])
Laws == /\ Iterate(Block(es), 1) = Pairs(es)           \* the block grammar is unambiguous
        /\ Block(es)[Len(Block(es))] = 0
Out == IF "OUT" \in DOMAIN IOEnv THEN IOEnv.OUT ELSE "none"
Emit == es = <<>> \/ Out = "none" \/ CSVWrite("%1$s", <<ToJson([es |-> es, block |-> Block(es)])>>, Out)
=============================================================================
