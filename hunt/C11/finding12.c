// build: gcc -I/tmp/wt/C11_h/include /tmp/wt/C11_h/findings/finding12.c /tmp/wt/C11_h/_build/librtosc-cpp.a /tmp/wt/C11_h/_build/librtosc.a -lm -o /tmp/wt/C11_h/findings/finding12
// rtosc_scan_message() counts the whitespace and the comment lines in front of
// the address against the size of the address buffer: the manual's own example
// (a comment line, then "/noteOn 0 60 64") does not fit into a 32 byte address
// buffer - the address comes out empty and the scanner runs into the address
// as if it were a value.
#include <stdio.h>
#include <string.h>
#include <unistd.h>
#include <sys/wait.h>
#include <rtosc/rtosc.h>
#include <rtosc/pretty-format.h>

int main(void)
{
    const char* text = "% expects three ints: channel, note and volume\n/noteOn 0 60 64";
    printf("<%s>\nexpected: address \"/noteOn\" (7 chars, buffer of 32), values 0 60 64, all %zu bytes consumed\n",
           text, strlen(text));
    fflush(stdout);
    pid_t pid = fork();
    if(pid == 0) {
        rtosc_arg_val_t av[4]; char addr[32], sb[16];
        memset(av, 0, sizeof av);
        int n = rtosc_count_printed_arg_vals_of_msg(text);
        printf("checker: %d values\n", n); fflush(stdout);
        size_t rd = rtosc_scan_message(text, addr, sizeof addr, av, n, sb, sizeof sb);
        printf("got: address \"%s\", %zu bytes consumed, values %c:%d %c:%d %c:%d\n", addr, rd,
               av[0].type, av[0].val.i, av[1].type, av[1].val.i, av[2].type, av[2].val.i);
        fflush(stdout);
        _exit(!(rd == strlen(text) && !strcmp(addr, "/noteOn") && av[2].val.i == 64));
    }
    int st; waitpid(pid, &st, 0);
    int bad = WIFSIGNALED(st) || WEXITSTATUS(st);
    if(WIFSIGNALED(st)) printf("got: scanner KILLED by signal %d\n", WTERMSIG(st));
    printf(bad ? "FAIL\n" : "ok\n");
    return bad;
}
