// build: g++ -std=c++11 -I/tmp/wt/C04_h/include /tmp/wt/C04_h/findings/finding3.cpp /tmp/wt/C04_h/_build/librtosc-cpp.a /tmp/wt/C04_h/_build/librtosc.a -o /tmp/wt/C04_h/findings/finding3
//
// C04 finding 3: the default handler of a table (ClonePorts' "*" entry) is
// only invoked by ONE of the three lookup strategies - location buffer given
// AND the table got a perfect hash.  Without location buffer, or when the
// table falls back to the linear lookup (a '#N' port in the table, or a table
// the hash search gives up on), the same unmatched message invokes nothing.
// In the one case that does call it, it is also counted in RtData::matches
// (although no leaf port was invoked), so the match count differs as well.
#include <rtosc/ports.h>
#include <rtosc/rtosc.h>
#include <cstdio>
#include <cstring>
using namespace rtosc;

static int leaf, def;
static void nop(msg_t, RtData&) {}

int main()
{
    Ports plain = { {"aa", 0, 0, nop}, {"bb", 0, 0, nop} };
    Ports withe = { {"aa", 0, 0, nop}, {"bb", 0, 0, nop}, {"cc#2", 0, 0, nop} };
    auto L = [](msg_t, RtData&) { leaf++; };
    auto D = [](msg_t, RtData&) { def++;  };
    ClonePorts hashed(plain, {{"aa", L}, {"bb", L}, {"*", D}});
    ClonePorts linear(withe, {{"aa", L}, {"bb", L}, {"cc#2", L}, {"*", D}});

    char msg[64], loc[64];
    rtosc_message(msg, sizeof(msg), "/zz", "");   // addresses no port of either table

    int res[4], mat[4], k = 0;
    for(int t = 0; t < 2; ++t)
        for(int with_loc = 0; with_loc < 2; ++with_loc, ++k) {
            const Ports &p = t ? (const Ports&)linear : (const Ports&)hashed;
            RtData d;
            if(with_loc) { d.loc = loc; d.loc_size = sizeof(loc); }
            leaf = def = 0;
            p.dispatch(msg, d, true);
            res[k] = def; mat[k] = d.matches;
            printf("/zz on table {aa,bb%s,*}  %-8s: leaf callbacks=%d default handler=%d matches=%d\n",
                   t ? ",cc#2" : "", with_loc ? "with loc" : "no loc", leaf, def, d.matches);
        }
    printf("expected: the same set of callbacks in all four rows, and the same match "
           "count in both 'with loc' rows\n");
    bool same = res[0]==res[1] && res[1]==res[2] && res[2]==res[3];
    bool cnt  = mat[1]==mat[3]; // the two dispatches with a location buffer
    if(!same) printf("FAIL: the default handler runs %d/%d/%d/%d times depending on "
                     "location buffer and lookup strategy\n", res[0],res[1],res[2],res[3]);
    if(!cnt)  printf("FAIL: matches after the dispatch with a location buffer is %d for the "
                     "hashed and %d for the linear table, with 0 leaf callbacks in both\n", mat[1], mat[3]);
    if(same && cnt) printf("ok\n");
    return (same && cnt) ? 0 : 1;
}
