// build: clang++ -std=c++17 -I/tmp/wt/C20_h/include /tmp/wt/C20_h/findings/finding2.cpp /tmp/wt/C20_h/_build/librtosc-cpp.a /tmp/wt/C20_h/_build/librtosc.a -o /tmp/wt/C20_h/findings/finding2
//
// The learned range and type are taken from another port when the address is a prefix of an earlier port's name.
// Ports: "p10::i" [0,1000] and "p1::f" [0,1] (in this order).  History: map /p1 ; CC(2,0) ; CC(2,v) for v = 0,64,127
#include "harness.inc"
struct D{int p10; float p1;};
#define rObject D
static const rtosc::Ports ports = {
    rParamI(p10, rLinear(0,1000), "int parameter 0..1000"),
    rParamF(p1,  rLinear(0,1),    "float parameter 0..1"),
};
int main(){
    Sys s(&ports);
    s.map("/p1");
    s.cc(2,0);            // controller 2 is learned for /p1
    bool ok = s.nrt.getCoarse("/p1")==2;
    const int vs[] = {0,64,127};
    for(int v:vs) {
        std::vector<Out> o = s.cc(2,v);
        printf("CC(2,%3d): expected one '/p1' f in [0,1] (%g), got", v, v*128/16384.0);
        for(auto &x:o) { if(x.type=='f') printf(" ['%s' f %g]", x.addr.c_str(), x.f); else printf(" ['%s' %c %d]", x.addr.c_str(), x.type, x.i); }
        printf("\n");
        if(o.size()!=1 || o[0].addr!="/p1" || o[0].type!='f' || o[0].f<0 || o[0].f>1) ok=false;
    }
    rtosc::MidiBijection b = s.nrt.getBijection("/p1");
    printf("range used for /p1: expected [0,1], got [%g,%g]\n", b.min, b.max);
    printf(ok ? "OK\n" : "DEFECT: /p1 is driven with the type and range of port p10\n");
    return ok ? 0 : 1;
}
