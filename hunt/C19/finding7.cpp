// build (in findings/): g++ -std=c++11 -I../include finding7.cpp ../_build/librtosc-cpp.a ../_build/librtosc.a -o finding7
// Default gain and offset, linear float parameter with min 0.1 and max 0.7:
// slot value 0 does not give min (test-automation.cpp demands the end points
// bit-exactly: "Slot to min makes bound parameter min").
#include <rtosc/ports.h>
#include <rtosc/automations.h>
#include <rtosc/port-sugar.h>
#include <cstdio>
struct D { float x, y; };
#define rObject D
static rtosc::Ports ports = { rParamF(x, rLinear(0.1,0.7), "x"), rParamF(y, rLinear(-5,-4.9), "y") };
static float got;
int main()
{
    rtosc::AutomationMgr m(2, 1, 16);
    m.set_ports(ports);
    m.backend = [](const char *msg){ got = rtosc_argument(msg, 0).f; };
    int bad = 0;
    m.createBinding(0, "/x", false);
    m.setSlot(0, 0.0f);
    printf("/x slot 0: expected %.9g (min), got %.9g\n", 0.1f, got);  bad += got != 0.1f;
    m.setSlot(0, 1.0f);
    printf("/x slot 1: expected %.9g (max), got %.9g\n", 0.7f, got);  bad += got != 0.7f;
    m.createBinding(1, "/y", false);
    m.setSlot(1, 0.0f);
    printf("/y slot 0: expected %.9g (min), got %.9g\n", -5.0f, got); bad += got != -5.0f;
    m.setSlot(1, 1.0f);
    printf("/y slot 1: expected %.9g (max), got %.9g\n", -4.9f, got); bad += got != -4.9f;
    printf(bad ? "FAIL\n" : "ok\n");
    return bad != 0;
}
