// build: g++ -std=c++11 -g -I/tmp/wt/C14_h/include finding2.cpp /tmp/wt/C14_h/_build/librtosc-cpp.a /tmp/wt/C14_h/_build/librtosc.a -o finding2 && ./finding2
//
// rArrayI narrows the declared bounds to char before it compares: with a
// declared range 0..200 every incoming value (all of them lie in -128..127,
// as the port narrows the value by design) is "above" (char)200 == -56 and is
// replaced by -56; with min -200 every value below (char)-200 == 56 becomes 56.
#include <rtosc/ports.h>
#include <rtosc/port-sugar.h>
#include <cstdarg>
#include <cstdio>
#include <cstring>
using namespace rtosc;

struct Obj { int level[4]; int offs[4]; };
#define rObject Obj
static const Ports ports = {
    rArrayI(level, 4, rLinear(0, 200),    "0..200"),
    rArrayI(offs,  4, rLinear(-200, 200), "-200..200"),
};
struct Rt : RtData {
    char buf[256];
    Rt(Obj *o) { memset(buf, 0, sizeof buf); loc = buf; loc_size = sizeof buf; obj = o; }
    void reply(const char *path, const char *args, ...) override {
        va_list va; va_start(va, args);
        char m[512]; rtosc_vmessage(m, sizeof m, path, args, va); va_end(va);
        if(!strcmp(m, "/undo_change"))
            printf("    undo_change %s %d -> %d\n", rtosc_argument(m,0).s, rtosc_argument(m,1).i, rtosc_argument(m,2).i);
        else
            printf("    %s %d\n", m, rtosc_argument(m,0).i);
    }
    void reply(const char *) override {}
};
static int clampi(int v, int lo, int hi) { return v < lo ? lo : v > hi ? hi : v; }

int main()
{
    Obj o; memset(&o, 0, sizeof o);
    Rt rt(&o);
    int bad = 0;
    const int in[] = {100, 1, 127, 0, -1, -128, 50};
    for(int v : in) {
        char m[128];
        rtosc_message(m, sizeof m, "/level1", "i", v);
        printf("/level1 %d   (declared 0..200)\n", v);
        ports.dispatch(m, rt, true);
        int exp = clampi(v, 0, 200);
        printf("    expected stored %d, got %d%s\n", exp, o.level[1], exp == o.level[1] ? "" : "   <-- WRONG");
        bad |= exp != o.level[1];

        rtosc_message(m, sizeof m, "/offs2", "i", v);
        printf("/offs2 %d   (declared -200..200)\n", v);
        ports.dispatch(m, rt, true);
        exp = clampi(v, -200, 200);
        printf("    expected stored %d, got %d%s\n", exp, o.offs[2], exp == o.offs[2] ? "" : "   <-- WRONG");
        bad |= exp != o.offs[2];
    }
    puts(bad ? "FAIL" : "ok");
    return bad;
}
