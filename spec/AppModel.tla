---------------------------- MODULE AppModel ----------------------------
(* The curated application app1 (harness/common/app1.hpp, built with the real        *)
(* port-sugar macros) as an abstract object: its parameters with kind, declared       *)
(* range, default (possibly preset-dependent), array structure, sub-trees (member,    *)
(* enumerated, pointer) and 'enabled by' toggles; and the meaning of the three things *)
(* one can do with it:                                                                *)
(*   Set / Get   a message to a parameter port                       (C14)            *)
(*   SaveLines   the message lines of its savefile                   (C12)            *)
(*   LoadLines   loading message lines into a fresh instance         (C12, C13)       *)
(* Numbers: floats are integers = 4 x value (every float in play is a multiple of     *)
(* 1/4); chars, ints, option indices are integers; strings are byte sequences.        *)
EXTENDS Integers, Sequences, FiniteSets, TLC
NoBound == 1000000
\* ------------------------------------------------------------------ description (AppDef)
SubDef == << [n |-> "si", kind |-> "i", lo |-> 0,      hi |-> 50, def |-> 7],
             [n |-> "sf", kind |-> "f", lo |-> 0 - 16, hi |-> 16, def |-> 6],
             [n |-> "st", kind |-> "T", lo |-> 0,      hi |-> 0,  def |-> FALSE] >>
SubDefault == [null |-> FALSE, si |-> 7, sf |-> 6, st |-> FALSE, sa |-> <<4, 4>>]
NullSub == [null |-> TRUE]
FxDefault == [null |-> FALSE, gain |-> 3, level |-> 11, type |-> 0, voice |-> << [vol |-> 64], [vol |-> 64] >>]
Default == [pc |-> 64, pi |-> 5, pn |-> 0, pf |-> 2, pg |-> 4, pt |-> FALSE, po |-> 1, ps |-> <<97, 98, 99>>, preset |-> 0, dep |-> 10, mode |-> 0, dep2 |-> 1, chain |-> 0, tg |-> FALSE, dep3 |-> 5,
            ai |-> <<3, 3, 3>>, af |-> <<1, 1, 1>>, at |-> <<FALSE, FALSE>>, al |-> <<0, 0, 0, 0, 0, 0, 0, 0>>, ab |-> <<FALSE, FALSE, FALSE, FALSE, FALSE, FALSE, FALSE, FALSE>>, a2x |-> <<0, 0, 0>>,
            fx_on |-> FALSE, fx |-> [null |-> TRUE], sub_on |-> TRUE, sub |-> SubDefault,
            subs |-> <<SubDefault, SubDefault>>, palloc |-> FALSE, psub |-> NullSub, preset_b |-> 0, osc |-> [gain |-> 5], osc_type |-> 0]
PresetDefault(p) == CASE p = 0 -> 10 [] p = 1 -> 20 [] OTHER -> 30
PresetDefault2(p) == CASE p = 0 -> 1 [] p = 1 -> 2 [] OTHER -> 3
FxLevelDefault(t) == CASE t = 0 -> 11 [] t = 1 -> 22 [] OTHER -> 33
PresetDefault3(p) == CASE p = 0 -> 5 [] p = 1 -> 6 [] OTHER -> 7
OptionNames == << <<122, 101, 114, 111>>, <<111, 110, 101>>, <<116, 119, 111>>, <<111, 110, 101, 50>> >>          \* zero one two one2 (the last one extends the name of an earlier option)
\* a concrete parameter: where it lives, its kind and declared bounds (NoBound = absent)
\* i: index of the enumerated sub-tree (subs#2), j: element of an array inside a sub-tree (0: not an array element)
Scalar(f, kind, lo, hi) == [where |-> "top", f |-> f, i |-> 0, j |-> 0, kind |-> kind, lo |-> lo, hi |-> hi]
Elem(f, i, kind, lo, hi) == [where |-> "arr", f |-> f, i |-> i, j |-> 0, kind |-> kind, lo |-> lo, hi |-> hi]
InSub(w, i, d) == [where |-> w, f |-> d.n, i |-> i, j |-> 0, kind |-> d.kind, lo |-> d.lo, hi |-> d.hi]
SubElem(w, i, j) == [where |-> w, f |-> "sa", i |-> i, j |-> j, kind |-> "I", lo |-> 0, hi |-> 100]
Param(addr) ==
  CASE addr = "/pc" -> Scalar("pc", "c", 0, 127) [] addr = "/pi" -> Scalar("pi", "i", 0 - 10, 1000) [] addr = "/pn" -> Scalar("pn", "i", 0 - NoBound, NoBound)
    [] addr = "/pf" -> Scalar("pf", "f", 0 - 10, 41) [] addr = "/pg" -> Scalar("pg", "f", 0 - NoBound, 32) [] addr = "/pt" -> Scalar("pt", "T", 0, 0)
    [] addr = "/po" -> Scalar("po", "o", 0 - NoBound, NoBound) [] addr = "/ps" -> Scalar("ps", "s", 0, 7) [] addr = "/preset" -> Scalar("preset", "i", 0, 2)
    [] addr = "/preset_b" -> Scalar("preset_b", "i", 0, 2) [] addr = "/osc_type" -> Scalar("osc_type", "i", 0, 2) [] addr = "/osc/gain" -> [where |-> "osc", f |-> "gain", i |-> 0, j |-> 0, kind |-> "i", lo |-> 0, hi |-> 100]
    [] addr = "/dep" -> Scalar("dep", "i", 0, 100) [] addr = "/mode" -> Scalar("mode", "i", 0, 2) [] addr = "/dep2" -> Scalar("dep2", "i", 0, 100) [] addr = "/chain" -> Scalar("chain", "i", 0, 100) [] addr = "/tg" -> Scalar("tg", "T", 0, 0) [] addr = "/dep3" -> Scalar("dep3", "i", 0, 100)
    [] addr = "/sub_on" -> Scalar("sub_on", "T", 0, 0) [] addr = "/palloc" -> Scalar("palloc", "T", 0, 0)
    [] addr = "/ai0" -> Elem("ai", 1, "I", 0, 100) [] addr = "/ai1" -> Elem("ai", 2, "I", 0, 100) [] addr = "/ai2" -> Elem("ai", 3, "I", 0, 100)
    [] addr = "/af0" -> Elem("af", 1, "f", 0 - 2, 3) [] addr = "/af1" -> Elem("af", 2, "f", 0 - 2, 3) [] addr = "/af2" -> Elem("af", 3, "f", 0 - 2, 3)
    [] addr = "/at0" -> Elem("at", 1, "T", 0, 0) [] addr = "/at1" -> Elem("at", 2, "T", 0, 0)
    [] addr = "/al0" -> Elem("al", 1, "I", 0, 100) [] addr = "/al1" -> Elem("al", 2, "I", 0, 100) [] addr = "/al2" -> Elem("al", 3, "I", 0, 100) [] addr = "/al3" -> Elem("al", 4, "I", 0, 100)
    [] addr = "/al4" -> Elem("al", 5, "I", 0, 100) [] addr = "/al5" -> Elem("al", 6, "I", 0, 100) [] addr = "/al6" -> Elem("al", 7, "I", 0, 100) [] addr = "/al7" -> Elem("al", 8, "I", 0, 100)
    [] addr = "/a2x0" -> Elem("a2x", 1, "I", 0, 100) [] addr = "/a2x1" -> Elem("a2x", 2, "I", 0, 100) [] addr = "/a2x2" -> Elem("a2x", 3, "I", 0, 100)
    [] addr = "/ab0" -> Elem("ab", 1, "T", 0, 0) [] addr = "/ab1" -> Elem("ab", 2, "T", 0, 0) [] addr = "/ab2" -> Elem("ab", 3, "T", 0, 0) [] addr = "/ab3" -> Elem("ab", 4, "T", 0, 0)
    [] addr = "/ab4" -> Elem("ab", 5, "T", 0, 0) [] addr = "/ab5" -> Elem("ab", 6, "T", 0, 0) [] addr = "/ab6" -> Elem("ab", 7, "T", 0, 0) [] addr = "/ab7" -> Elem("ab", 8, "T", 0, 0)
    [] addr = "/fx_on" -> Scalar("fx_on", "T", 0, 0) [] addr = "/fx/gain" -> [where |-> "fx", f |-> "gain", i |-> 0, j |-> 0, kind |-> "i", lo |-> 0, hi |-> 10]
    [] addr = "/fx/level" -> [where |-> "fx", f |-> "level", i |-> 0, j |-> 0, kind |-> "i", lo |-> 0, hi |-> 100]
    [] addr = "/fx/type" -> [where |-> "fx", f |-> "type", i |-> 0, j |-> 0, kind |-> "i", lo |-> 0, hi |-> 2]
    [] addr = "/fx/voice0/vol" -> [where |-> "fxv", f |-> "vol", i |-> 1, j |-> 0, kind |-> "i", lo |-> 0, hi |-> 127]
    [] addr = "/fx/voice1/vol" -> [where |-> "fxv", f |-> "vol", i |-> 2, j |-> 0, kind |-> "i", lo |-> 0, hi |-> 127]
    [] addr = "/sub/si" -> InSub("sub", 0, SubDef[1]) [] addr = "/sub/sf" -> InSub("sub", 0, SubDef[2]) [] addr = "/sub/st" -> InSub("sub", 0, SubDef[3])
    [] addr = "/subs0/si" -> InSub("subs", 1, SubDef[1]) [] addr = "/subs0/sf" -> InSub("subs", 1, SubDef[2]) [] addr = "/subs0/st" -> InSub("subs", 1, SubDef[3])
    [] addr = "/subs1/si" -> InSub("subs", 2, SubDef[1]) [] addr = "/subs1/sf" -> InSub("subs", 2, SubDef[2]) [] addr = "/subs1/st" -> InSub("subs", 2, SubDef[3])
    [] addr = "/psub/si" -> InSub("psub", 0, SubDef[1]) [] addr = "/psub/sf" -> InSub("psub", 0, SubDef[2]) [] addr = "/psub/st" -> InSub("psub", 0, SubDef[3])
    [] addr = "/sub/sa0" -> SubElem("sub", 0, 1) [] addr = "/sub/sa1" -> SubElem("sub", 0, 2) [] addr = "/subs0/sa0" -> SubElem("subs", 1, 1) [] addr = "/subs0/sa1" -> SubElem("subs", 1, 2)
    [] addr = "/subs1/sa0" -> SubElem("subs", 2, 1) [] addr = "/subs1/sa1" -> SubElem("subs", 2, 2) [] addr = "/psub/sa0" -> SubElem("psub", 0, 1) [] addr = "/psub/sa1" -> SubElem("psub", 0, 2)
Addresses == << "/pc", "/pi", "/pn", "/pf", "/pg", "/pt", "/po", "/ps", "/preset", "/dep", "/mode", "/dep2", "/chain", "/tg", "/dep3", "/ai0", "/ai1", "/ai2", "/af0", "/af1", "/af2", "/at0", "/at1", "/al0", "/al1", "/al2", "/al3", "/al4", "/al5", "/al6", "/al7", "/a2x0", "/a2x1", "/a2x2", "/ab0", "/ab1", "/ab2", "/ab3", "/ab4", "/ab5", "/ab6", "/ab7", "/fx_on", "/fx/gain", "/fx/level", "/fx/type", "/fx/voice0/vol", "/fx/voice1/vol",
                "/sub_on", "/sub/si", "/sub/sf", "/sub/st", "/subs0/si", "/subs0/sf", "/subs0/st", "/subs1/si", "/subs1/sf", "/subs1/st",
                "/palloc", "/psub/si", "/psub/sf", "/psub/st", "/preset_b", "/osc/gain", "/osc_type",
                "/sub/sa0", "/sub/sa1", "/subs0/sa0", "/subs0/sa1", "/subs1/sa0", "/subs1/sa1", "/psub/sa0", "/psub/sa1" >>
\* ------------------------------------------------------------------ state access
Exists(s, p) == IF p.where = "psub" THEN ~ s.psub.null ELSE IF p.where \in {"fx", "fxv"} THEN ~ s.fx.null ELSE TRUE                 \* the pointer sub-tree exists only while allocated
GetV(s, p) == CASE p.where = "top" -> s[p.f] [] p.where = "arr" -> s[p.f][p.i]
                [] p.where = "osc" -> s.osc[p.f] [] p.where = "fx" -> s.fx[p.f] [] p.where = "fxv" -> s.fx.voice[p.i][p.f]
                [] p.where = "sub" -> (IF p.j = 0 THEN s.sub[p.f] ELSE s.sub[p.f][p.j])
                [] p.where = "subs" -> (IF p.j = 0 THEN s.subs[p.i][p.f] ELSE s.subs[p.i][p.f][p.j])
                [] p.where = "psub" -> (IF p.j = 0 THEN s.psub[p.f] ELSE s.psub[p.f][p.j])
PutV(s, p, v) == CASE p.where = "top" -> [s EXCEPT ![p.f] = v] [] p.where = "arr" -> [s EXCEPT ![p.f][p.i] = v]
                   [] p.where = "osc" -> [s EXCEPT !.osc[p.f] = v] [] p.where = "fx" -> [s EXCEPT !.fx[p.f] = v] [] p.where = "fxv" -> [s EXCEPT !.fx.voice[p.i][p.f] = v]
                   [] p.where = "sub" -> (IF p.j = 0 THEN [s EXCEPT !.sub[p.f] = v] ELSE [s EXCEPT !.sub[p.f][p.j] = v])
                   [] p.where = "subs" -> (IF p.j = 0 THEN [s EXCEPT !.subs[p.i][p.f] = v] ELSE [s EXCEPT !.subs[p.i][p.f][p.j] = v])
                   [] p.where = "psub" -> (IF p.j = 0 THEN [s EXCEPT !.psub[p.f] = v] ELSE [s EXCEPT !.psub[p.f][p.j] = v])
\* ------------------------------------------------------------------ Set / Get (C14)
Clamp(v, lo, hi) == IF v < lo THEN lo ELSE IF v > hi THEN hi ELSE v
Narrow8(v) == ((v + 128) % 256) - 128                              \* conversion to the char-backed storage of rParam / rArrayI
OptionIndex(name) == CHOOSE i \in 0..3 : OptionNames[i + 1] = name
\* the value stored by a message [ty, v] to parameter p (TRUE/FALSE for toggles)
Stored(p, ty, v) ==
  CASE p.kind \in {"c", "I"} -> Clamp(Narrow8(v), p.lo, p.hi)
    [] p.kind \in {"i", "f"} -> Clamp(v, p.lo, p.hi)
    [] p.kind = "o" -> IF ty = "S" THEN OptionIndex(v) ELSE v
    [] p.kind = "T" -> ty = "T"
    [] p.kind = "s" -> IF Len(v) > p.hi THEN SubSeq(v, 1, p.hi) ELSE v
\* which argument types the port admits
Admits(p, ty) == CASE p.kind = "c" -> ty = "c" [] p.kind \in {"i", "I"} -> ty = "i" [] p.kind = "f" -> ty = "f"
                   [] p.kind = "T" -> ty \in {"T", "F"} [] p.kind = "o" -> ty \in {"i", "c", "S"} [] p.kind = "s" -> ty = "s"
\* side effects the application attaches to two of its ports (rChangeCb)
After(s, addr, changed) ==
  IF addr = "/preset" THEN [s EXCEPT !.dep = PresetDefault(s.preset), !.mode = 0, !.dep2 = PresetDefault2(s.preset), !.chain = 0, !.dep3 = PresetDefault3(s.preset)]   \* a preset message re-initialises its dependants and the mode
  ELSE IF addr = "/osc_type" THEN [s EXCEPT !.osc.gain = 5]                                                                     \* every message to the type re-initialises the oscillator
  ELSE IF addr = "/fx/type" THEN [s EXCEPT !.fx.level = FxLevelDefault(s.fx.type)]
  ELSE IF addr = "/tg" /\ changed THEN [s EXCEPT !.dep3 = PresetDefault3(s.preset)]      \* (a toggle port runs its change callback only when the value changes)
  ELSE IF addr = "/mode" THEN [s EXCEPT !.dep2 = PresetDefault2(s.preset), !.chain = 0]                                               \* a mode message re-initialises ITS dependants
  ELSE IF addr = "/fx_on" /\ changed THEN [s EXCEPT !.fx = IF s.fx_on THEN FxDefault ELSE NullSub]
  ELSE IF addr = "/palloc" /\ changed THEN [s EXCEPT !.psub = IF s.palloc THEN SubDefault ELSE NullSub]
  ELSE s
SetState(s, addr, ty, v) == LET p == Param(addr) IN
  IF ~ Exists(s, p) \/ ~ Admits(p, ty) THEN s
  ELSE LET nv == Stored(p, ty, v) IN After(PutV(s, p, nv), addr, nv # GetV(s, p))
Numeric(p) == p.kind \in {"c", "i", "I", "f", "o"}
EvType(p) == CASE p.kind = "c" -> "c" [] p.kind \in {"i", "I", "o"} -> "i" [] p.kind = "f" -> "f" [] p.kind = "s" -> "s" [] OTHER -> "T"
\* ------------------------------------------------------------------ subtree_serialize / subtree_deserialize (C08, src/cpp/subtree-serialize.cpp)
\* The serialiser walks the table WITHOUT a runtime object (enabling toggles are not consulted; a null pointer sub-tree simply does
\* not answer), queries every concrete leaf address in table order - arrays and enumerated sub-trees expanded - and appends each
\* reply to a bundle with a fixed time tag.  The deserialiser dispatches the elements in that order into the given object.
SubSerAddrs(c) == << c \o "/si", c \o "/sf", c \o "/st", c \o "/sa0", c \o "/sa1" >>
SerAddrs == << "/pc", "/pi", "/pn", "/pf", "/pg", "/pt", "/po", "/ps", "/preset_b", "/preset", "/dep", "/mode", "/dep2", "/chain", "/tg", "/dep3",
               "/ai0", "/ai1", "/ai2", "/af0", "/af1", "/af2", "/at0", "/at1", "/al0", "/al1", "/al2", "/al3", "/al4", "/al5", "/al6", "/al7",
               "/a2x0", "/a2x1", "/a2x2", "/ab0", "/ab1", "/ab2", "/ab3", "/ab4", "/ab5", "/ab6", "/ab7", "/fx_on", "/fx/gain", "/fx/level", "/fx/type", "/fx/voice0/vol", "/fx/voice1/vol", "/sub_on" >>
            \o SubSerAddrs("/sub") \o SubSerAddrs("/subs0") \o SubSerAddrs("/subs1") \o << "/palloc" >> \o SubSerAddrs("/psub") \o << "/osc/gain", "/osc_type" >>
SerTimeTag == << 57005, 48879, 2571, 3085 >>                                    \* 0xdeadbeef0a0b0c0d as four 16-bit limbs
\* the elements: address, the type the port answers with, the stored value
SerElems(s) == LET live == SelectSeq(SerAddrs, LAMBDA a : Exists(s, Param(a))) IN
               [i \in 1..Len(live) |-> LET p == Param(live[i]) v == GetV(s, p) IN
                  [addr |-> live[i], ty |-> (IF p.kind = "T" THEN (IF v THEN "T" ELSE "F") ELSE EvType(p)), v |-> IF p.kind = "T" THEN 0 ELSE v]]
RECURSIVE ApplySets(_, _)
ApplySets(s, es) == IF es = <<>> THEN s ELSE ApplySets(SetState(s, Head(es).addr, Head(es).ty, Head(es).v), Tail(es))
Deserialized(s) == ApplySets(Default, SerElems(s))
\* the design law the library's own comment hints at ("replayed to get an object to a previous state"): replaying restores the state
\* unless a port stands in the table BEFORE a port whose change callback re-initialises it (here: /fx/level before /fx/type, /osc/gain before /osc_type)
SerRoundTripHolds(s) == (s.fx.null \/ s.fx.level = FxLevelDefault(s.fx.type)) /\ s.osc.gain = 5
\* 32-bit two's complement and IEEE-754 single images as two 16-bit limbs (floats are q/4 with |q| < 2^24, hence exact)
IntLimbs(v) == IF v >= 0 THEN << v \div 65536, v % 65536 >> ELSE << 65535 - ((0 - v - 1) \div 65536), 65535 - ((0 - v - 1) % 65536) >>
RECURSIVE Log2Floor(_)
Log2Floor(a) == IF a < 2 THEN 0 ELSE 1 + Log2Floor(a \div 2)
Pow2(n) == IF n = 0 THEN 1 ELSE LET RECURSIVE P(_) P(k) == IF k = 0 THEN 1 ELSE 2 * P(k - 1) IN P(n)
FloatLimbs(q) == IF q = 0 THEN << 0, 0 >>
                 ELSE LET a == IF q < 0 THEN 0 - q ELSE q  e == Log2Floor(a)  man == (a - Pow2(e)) * Pow2(23 - e)  bexp == 127 + e - 2 IN
                      << (IF q < 0 THEN 32768 ELSE 0) + bexp * 128 + (man \div 65536), man % 65536 >>
\* ------------------------------------------------------------------ savefile (C12)
\* reachable: not below a disabled or null sub-tree
Reachable(s, p) == CASE p.where \in {"fx", "fxv"} -> s.fx_on /\ ~ s.fx.null [] p.where = "sub" -> s.sub_on [] p.where = "psub" -> s.palloc /\ ~ s.psub.null [] OTHER -> TRUE
DefaultOf(s, addr) == LET p == Param(addr) IN
  IF addr = "/dep" THEN PresetDefault(s.preset) ELSE IF addr = "/dep2" THEN PresetDefault2(s.preset) ELSE IF addr = "/dep3" THEN PresetDefault3(s.preset) ELSE IF addr = "/fx/level" THEN (IF s.fx.null THEN 11 ELSE FxLevelDefault(s.fx.type)) ELSE GetV(IF p.where = "psub" THEN [Default EXCEPT !.psub = SubDefault] ELSE IF p.where \in {"fx", "fxv"} THEN [Default EXCEPT !.fx = FxDefault] ELSE Default, p)
\* value as it appears in a savefile line: options by name, everything else as stored
FileVal(p, v) == IF p.kind = "o" THEN [sym |-> OptionNames[v + 1]] ELSE v
ScalarAddrs == SelectSeq(Addresses, LAMBDA a : Param(a).where # "arr" /\ Param(a).j = 0)
ScalarLines(s) == { [addr |-> a, vals |-> <<FileVal(Param(a), GetV(s, Param(a)))>>] :
                      a \in { ScalarAddrs[i] : i \in { j \in 1..Len(ScalarAddrs) : Reachable(s, Param(ScalarAddrs[j])) /\ GetV(s, Param(ScalarAddrs[j])) # DefaultOf(s, ScalarAddrs[j]) } } }
\* an array is one line with its elements up to the last one that differs from the default
LastDiff(cur, def) == IF \E i \in 1..Len(cur) : cur[i] # def[i] THEN CHOOSE i \in 1..Len(cur) : cur[i] # def[i] /\ \A j \in (i + 1)..Len(cur) : cur[j] = def[j] ELSE 0
ArrayLines(s) == { [addr |-> "/" \o f, vals |-> << SubSeq(s[f], 1, LastDiff(s[f], Default[f])) >>] : f \in { g \in {"ai", "af", "at", "al", "ab", "a2x"} : LastDiff(s[g], Default[g]) > 0 } }
\* the arrays inside the sub-trees that can be reached
SubOf(s, c) == CASE c = "/sub" -> s.sub [] c = "/subs0" -> s.subs[1] [] c = "/subs1" -> s.subs[2] [] OTHER -> s.psub
SubReachable(s, c) == CASE c = "/sub" -> s.sub_on [] c = "/psub" -> s.palloc /\ ~ s.psub.null [] OTHER -> TRUE
SubArrayLines(s) == { [addr |-> c \o "/sa", vals |-> << SubSeq(SubOf(s, c).sa, 1, LastDiff(SubOf(s, c).sa, SubDefault.sa)) >>] :
                        c \in { d \in {"/sub", "/subs0", "/subs1", "/psub"} : SubReachable(s, d) /\ LastDiff(SubOf(s, d).sa, SubDefault.sa) > 0 } }
SaveLines(s) == ScalarLines(s) \cup ArrayLines(s) \cup SubArrayLines(s)
ArrayLineAddrs == {"/ai", "/af", "/at", "/al", "/ab", "/a2x", "/sub/sa", "/subs0/sa", "/subs1/sa", "/psub/sa"}
\* ------------------------------------------------------------------ loading (C12, C13)
\* the messages a line stands for (an array line is one message per element)
LineMsgs(ln) == IF ln.addr \in ArrayLineAddrs
                THEN [i \in 1..Len(ln.vals[1]) |-> [addr |-> ln.addr \o << "0", "1", "2", "3", "4", "5", "6", "7" >>[i], v |-> ln.vals[1][i]]]
                ELSE << [addr |-> ln.addr, v |-> ln.vals[1]] >>
MsgTy(p, v) == CASE p.kind = "T" -> IF v THEN "T" ELSE "F" [] p.kind = "o" -> "S" [] p.kind = "I" -> "i" [] OTHER -> p.kind
ApplyMsg(s, m) == LET p == Param(m.addr) IN SetState(s, m.addr, MsgTy(p, m.v), IF p.kind = "o" THEN m.v.sym ELSE m.v)
RECURSIVE ApplyAll(_, _)
ApplyAll(s, ms) == IF ms = <<>> THEN s ELSE ApplyAll(ApplyMsg(s, Head(ms)), Tail(ms))
\* a port that another port's default, enablement or declared dependency refers to comes first
Rank(addr) == IF addr \in {"/preset", "/sub_on", "/palloc", "/tg", "/fx_on", "/osc_type"} THEN 0 ELSE IF addr \in {"/mode", "/fx/type"} THEN 1 ELSE 2
RECURSIVE Concat(_)
Concat(ss) == IF ss = <<>> THEN <<>> ELSE Head(ss) \o Concat(Tail(ss))
RECURSIVE SetToSeq(_)
SetToSeq(S) == IF S = {} THEN <<>> ELSE LET e == CHOOSE e \in S : TRUE IN <<e>> \o SetToSeq(S \ {e})
RECURSIVE RevSeq(_)
RevSeq(q) == IF q = <<>> THEN <<>> ELSE RevSeq(Tail(q)) \o <<Head(q)>>
Group(lines, r, rev) == LET g == SetToSeq({ ln \in lines : Rank(ln.addr) = r }) IN IF rev THEN RevSeq(g) ELSE g
MsgsOf(g) == Concat([i \in 1..Len(g) |-> LineMsgs(g[i])])
\* ranks: the order of the groups (<<0, 1, 2>> is the dependency order); rev: each group reversed
LoadWith(lines, ranks, rev) == ApplyAll(Default, Concat([k \in 1..Len(ranks) |-> MsgsOf(Group(lines, ranks[k], rev))]))
LoadLines(lines) == LoadWith(lines, <<0, 1, 2>>, FALSE)
\* what a saved state looks like after loading its savefile into a fresh instance: the reachable part is the state, the rest is default
Restored(s) == [s EXCEPT !.sub = IF s.sub_on THEN s.sub ELSE SubDefault]
=============================================================================
