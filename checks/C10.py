"""C10 - pretty-printing is reversible: scanning printed text returns the values.
PrettyGen.tla enumerates argument lists (boundary values of every printable type, constant and
arithmetic runs of length 3..7, arrays) x print options; the real printer, syntax checker and
scanner run on each (and on seeded random lists of 0..12 values with full value ranges, random
options, with and without an address) and PrettyRoundTrip.tla judges the statement's clauses."""
import json, os
from vlib import core


def types_of(lst):
    return "".join(x["t"] if x["t"] != "a" else "[" + x["et"] + "]" for x in lst)


def judge(ctx, log, label):
    rej = ctx.validate("PrettyRoundTrip", "PrettyRoundTrip.cfg", log, timeout=3000)
    n = 0
    with open(log) as f:
        for i, line in enumerate(f, 1):
            n += 1
            if i in rej or i % 5000 == 11:
                r = json.loads(line)
                if i % 5000 == 11 and "text" in r:
                    ctx.sample(dict(types=types_of(r["list"]), options=r.get("opts"), text=bytes(r["text"]).decode("latin1")[:120]))
                for c in rej.get(i, []):
                    ctx.reject(dict(clause=c, source=label, types=types_of(r["list"])), dict(list=r["list"], opts=r.get("opts", dict(lossless=True, prec=2, linelen=80, compress=1)), addr=r.get("addr", [])),
                               "clause %s fails for a list of types %s, printed as %r (options %s) %s" % (c, types_of(r["list"]), bytes(r.get("text", [])).decode("latin1")[:100], r.get("opts"), r.get("asan_what", "")))
            elif '"t":"a"' in line or '"t":"t"' in line or line.count('"t":"i"') >= 3:
                pass
    return n


def run(ctx):
    ctx.rule = ("every list of PrettyGen (<= MaxItems items: 45 boundary values over all printable types, 90 runs of length 3..7, 8 arrays) x 18 option sets "
                "(quick: two-item lists under one option set) + seeded random lists of 0..12 values (full ranges, finite floats, escapes, time tags with "
                "float-representable fractions, arrays 0..8, runs around the threshold) x random options (line length 10..120, precision 0..9, compression on/off), "
                "a quarter of them as whole messages; evaluations = cases; non-trivial = distinct case")
    ctx.assumptions = ["TZ=UTC", "lossless mode (floats/doubles carry their exact value in parentheses)", "finite floats only",
                       "the element type of an empty array is not observable in the text",
                       "the text may begin with blanks when the printer breaks the first line (buffer[-1] becomes the line break)"]
    if ctx.replay:
        case = json.load(open(ctx.replay))["case"]
        p = ctx.write_ndjson("in.ndjson", [case])
        ctx.driver("pretty_driver", "asan", ["roundtrip", p, ctx.path("log.ndjson")])
        ctx.evaluations = judge(ctx, ctx.path("log.ndjson"), "replay")
        return
    thorough = ctx.tier == "thorough"
    v1, r1 = ctx.vectors("PrettyGen", "PrettyGen_1.cfg", "pg1")
    v2, r2 = ctx.vectors("PrettyGen", "PrettyGen_2.cfg", "pg2", timeout=1800)
    if not thorough:
        v2 = [v for v in v2 if v["opts"]["prec"] == 2 and v["opts"]["linelen"] == 40 and v["opts"]["compress"] == 1]
    seen = set()
    vec = []
    for v in v1 + v2:
        k = json.dumps(v, sort_keys=True)
        if k not in seen:
            seen.add(k)
            vec.append(v)
    # directed: zeros of both signs around the compression threshold (equal under ==, printed differently: "-0.0" must not vanish in "Nx0.0")
    Z = {"f": ([0, 0], [32768, 0]), "d": ([0, 0, 0, 0], [32768, 0, 0, 0])}
    for t in "fd":
        for n in (4, 5, 6, 8):
            for neg in ({0}, {n - 1}, {2}, {1, 3}, set(range(n)), set(range(1, n)), set(range(0, n, 2))):
                for compress in (1, 0):
                    v = dict(list=[dict(t=t, v=Z[t][1 if i in neg else 0]) for i in range(n)], opts=dict(lossless=True, prec=2, linelen=40, compress=compress), addr=[47, 97])
                    k = json.dumps(v, sort_keys=True)
                    if k not in seen:
                        seen.add(k)
                        vec.append(v)
    ctx.bounds = dict(one_item_cases=len(v1), two_item_cases=len(v2))
    ctx.exhaustive = True
    p = ctx.write_ndjson("in.ndjson", vec)
    ctx.driver("pretty_driver", "asan", ["roundtrip", p, ctx.path("logA.ndjson")], timeout=3000)
    n = judge(ctx, ctx.path("logA.ndjson"), "generated")
    nrand = 200000 if thorough else 20000
    ctx.driver("pretty_driver", "asan", ["random", ctx.seed, nrand, ctx.path("logB.ndjson")], timeout=3000)
    n += judge(ctx, ctx.path("logB.ndjson"), "random")
    ctx.evaluations = n
    ctx.nontrivial = n - 18          # every case except the empty lists is a distinct non-trivial round trip (counted, not estimated: vectors are de-duplicated above)
    ctx.notes["generated_cases"] = len(vec)
    ctx.notes["random_cases"] = nrand
    for f in ("logA.ndjson", "logB.ndjson", "in.ndjson"):
        os.remove(ctx.path(f))
