---------------------------- MODULE MidiMapper ----------------------------
(* MIDI learn of rtosc: the non-realtime half (MidiMappernRT), the realtime half    *)
(* (MidiMapperRT) and the two message queues between them.  One action per public   *)
(* call / port of the code; the delivery of a queued message is an action of its    *)
(* own, so TLC explores every admissible order of the exchange.                     *)
(*                                                                                  *)
(*   nRT:  Map(a, coarse)  UnMap(a, coarse)  Clear     - API calls                  *)
(*         UseFreeId(id)                               - on receipt of "use-CC id"  *)
(*   RT :  HandleCC(id, v)                             - a controller event         *)
(*         AddWatch, Bind(storage)                     - on receipt of a message    *)
(*                                                                                  *)
(* A storage generation is [map: Seq([id, coarse, s]), cbs: Seq(address), vals:     *)
(* Seq(14-bit value)]: controller id -> value slot s -> callback address.           *)
(* V is the number of values of one 7-bit half (128 in the code, small for TLC).    *)
(*                                                                                  *)
(* Fix = FALSE is the design as implemented: EVERY bind pops one entry of the RT    *)
(* half's pending set - also binds that answer an unMap / re-map / clear rather     *)
(* than a use-CC.  Fix = TRUE is the repaired design (only answers pop).            *)
EXTENDS Integers, Sequences, FiniteSets, TLC
CONSTANTS Addrs, Ids, V, MaxOps, Fix, Bug
NONE == 0 - 1
VARIABLES lq, inv, nst,            \* nRT: learn queue, inverse map, newest storage
          rst, pend, watch,        \* RT: storage in use, pending ids, watch count
          toRT, toNRT,             \* the two queues
          out,                     \* parameter messages emitted by the last step: Seq([addr, x, id])
          ops,                     \* number of API operations so far
          truth,                   \* ghost: id -> <<addr, coarse>> as the learn order intends
          step                     \* ghost: the step just taken
vars == <<lq, inv, nst, rst, pend, watch, toRT, toNRT, out, ops, truth, step>>
EmptySt == [map |-> <<>>, cbs |-> <<>>, vals |-> <<>>]
Init == /\ lq = <<>> /\ inv = [a \in {} |-> 0] /\ nst = EmptySt
        /\ rst = EmptySt /\ pend = <<>> /\ watch = 0
        /\ toRT = <<>> /\ toNRT = <<>> /\ out = <<>> /\ ops = 0
        /\ truth = [i \in {} |-> 0] /\ step = [op |-> "init"]
Has(f, x) == x \in DOMAIN f
Put(f, x, y) == [z \in DOMAIN f \cup {x} |-> IF z = x THEN y ELSE f[z]]
Del(f, x) == [z \in DOMAIN f \ {x} |-> f[z]]
Zero(n) == [i \in 1..n |-> 0]
KillMap(st, id) == [st EXCEPT !.map = SelectSeq(st.map, LAMBDA e : e.id # id)]
BindMsg(st, answer) == [k |-> "bind", st |-> st, answer |-> answer]     \* answer: this bind answers a use-CC
Forget(t, a, coarse) == [i \in { j \in DOMAIN t : t[j] # <<a, coarse>> } |-> t[i]]
\* ------------------------------------------------------------------ nRT half
UnMapCore(a, coarse) ==     \* <<inv', nst', whether a bind is sent>>
  IF ~ Has(inv, a) THEN <<inv, nst, FALSE>>
  ELSE LET e == inv[a]
           kill == IF coarse THEN e.c ELSE e.f
           e2 == IF coarse THEN [e EXCEPT !.c = NONE] ELSE [e EXCEPT !.f = NONE]
           inv2 == IF e2.c = NONE /\ e2.f = NONE THEN Del(inv, a) ELSE Put(inv, a, e2) IN
       IF kill = NONE THEN <<inv2, nst, FALSE>>
       ELSE <<inv2, [KillMap(nst, kill) EXCEPT !.vals = Zero(Len(nst.vals))], TRUE>>
Map(a, coarse) ==
  /\ ops < MaxOps /\ ops' = ops + 1
  /\ IF \E i \in 1..Len(lq) : lq[i] = <<a, coarse>>
     THEN UNCHANGED <<lq, inv, nst, toRT, truth>>                      \* already queued: nothing happens
     ELSE LET u == UnMapCore(a, coarse) IN
          /\ inv' = u[1] /\ nst' = u[2]
          /\ lq' = Append(lq, <<a, coarse>>)
          /\ toRT' = toRT \o (IF u[3] THEN <<BindMsg(u[2], FALSE)>> ELSE <<>>) \o <<[k |-> "watch"]>>
          /\ truth' = Forget(truth, a, coarse)
  /\ out' = <<>> /\ step' = [op |-> "map", a |-> a, coarse |-> coarse]
  /\ UNCHANGED <<rst, pend, watch, toNRT>>
UnMap(a, coarse) ==
  /\ ops < MaxOps /\ ops' = ops + 1
  /\ LET u == UnMapCore(a, coarse) IN
     /\ inv' = u[1] /\ nst' = u[2]
     /\ toRT' = IF u[3] THEN Append(toRT, BindMsg(u[2], FALSE)) ELSE toRT
     /\ truth' = Forget(truth, a, coarse)
  /\ out' = <<>> /\ step' = [op |-> "unmap", a |-> a, coarse |-> coarse]
  /\ UNCHANGED <<lq, rst, pend, watch, toNRT>>
Clear ==
  /\ ops < MaxOps /\ ops' = ops + 1
  /\ lq' = <<>> /\ inv' = [a \in {} |-> 0] /\ nst' = EmptySt
  \* (the watches armed for the dropped requests stay armed: the realtime half has a "remove-watch" port, but sending one per dropped
  \* request is no repair - TLC shows the count going wrong when a dropped request's watch was already consumed by a controller whose
  \* announcement is still in flight; WatchesMatchQueue below therefore holds in neither design once Clear is used)
  /\ toRT' = Append(toRT, BindMsg(EmptySt, FALSE))
  /\ truth' = [i \in {} |-> 0]
  /\ out' = <<>> /\ step' = [op |-> "clear"]
  /\ UNCHANGED <<rst, pend, watch, toNRT>>
UseFreeId(id) ==       \* on receipt of "use-CC id": the oldest queued request gets the controller
  IF lq = <<>> THEN \* nobody waits any more (the queue was cleared while the announcement was in flight): the code stays silent and the
                    \* controller remains "pending" for good; the repaired design answers with the storage it has, so that the entry is popped
                    /\ toRT' = IF Fix THEN Append(toRT, BindMsg(nst, TRUE)) ELSE toRT
                    /\ UNCHANGED <<lq, inv, nst, truth>>
  ELSE LET a == lq[1][1]  coarse == lq[1][2]
           fresh == ~ Has(inv, a)
           st0 == IF fresh THEN [map |-> nst.map, cbs |-> Append(nst.cbs, a), vals |-> Zero(Len(nst.vals) + 1)]
                           ELSE [nst EXCEPT !.vals = Zero(Len(nst.vals))]
           e == IF fresh THEN [s |-> Len(st0.cbs), c |-> NONE, f |-> NONE] ELSE inv[a]
           st1 == [st0 EXCEPT !.map = Append(st0.map, [id |-> (IF Bug = "wrong_slot" THEN id ELSE id), coarse |-> coarse,
                                                         s |-> (IF Bug = "wrong_slot" /\ e.s > 1 THEN e.s - 1 ELSE e.s)])]
           doKill == IF coarse THEN e.c # NONE ELSE e.f # NONE
           st2 == IF doKill THEN KillMap(st1, e.c) ELSE st1            \* (sic: the code kills the coarse id in both branches; unreachable through Map, which un-maps first)
           e2 == IF coarse THEN [e EXCEPT !.c = id] ELSE [e EXCEPT !.f = id]
           served == IF Bug = "lifo" THEN lq[Len(lq)] ELSE lq[1] IN
       /\ lq' = Tail(lq) /\ inv' = Put(inv, a, e2) /\ nst' = st2
       /\ toRT' = Append(toRT, BindMsg(st2, TRUE))
       /\ truth' = Put(Forget(truth, served[1], served[2]), id, <<served[1], served[2]>>)
DeliverToNRT == /\ toNRT # <<>> /\ toNRT' = Tail(toNRT)
                /\ UseFreeId(Head(toNRT))
                /\ out' = <<>> /\ step' = [op |-> "deliver_nrt", id |-> Head(toNRT)]
                /\ UNCHANGED <<rst, pend, watch, ops>>
\* ------------------------------------------------------------------ RT half
Lookup(st, id) == IF \E i \in 1..Len(st.map) : st.map[i].id = id
                  THEN LET i == CHOOSE i \in 1..Len(st.map) : st.map[i].id = id /\ \A j \in 1..(i - 1) : st.map[j].id # id IN st.map[i]
                  ELSE [id |-> NONE]
HandleCC(id, v) ==
  /\ ops < MaxOps /\ ops' = ops + 1
  /\ LET m == Lookup(rst, id) IN
     IF m.id # NONE
     THEN LET old == rst.vals[m.s]
              nv == IF m.coarse THEN v * V + (old % V) ELSE (old \div V) * V + v IN
          /\ rst' = [rst EXCEPT !.vals[m.s] = nv]
          /\ out' = << [addr |-> rst.cbs[m.s], x |-> nv, id |-> id] >>
          /\ UNCHANGED <<pend, watch, toNRT>>
     ELSE /\ out' = <<>> /\ rst' = rst
          /\ IF (~ \E i \in 1..Len(pend) : pend[i] = id) /\ watch > 0
             THEN watch' = watch - 1 /\ pend' = Append(pend, id) /\ toNRT' = Append(toNRT, id)
             ELSE UNCHANGED <<pend, watch, toNRT>>
  /\ step' = [op |-> "cc", id |-> id, v |-> v]
  /\ UNCHANGED <<lq, inv, nst, toRT, truth>>
CloneValues(new, old) ==       \* the 7-bit halves are carried over by controller id
  LET F(acc, i) == LET e == new.map[i]  o == Lookup(old, e.id) IN
                   IF o.id = NONE THEN acc
                   ELSE LET half == IF o.coarse THEN old.vals[o.s] \div V ELSE old.vals[o.s] % V
                            cur == acc[e.s] IN
                        [acc EXCEPT ![e.s] = IF e.coarse THEN half * V + (cur % V) ELSE (cur \div V) * V + half]
      Rec[i \in 0..Len(new.map)] == IF i = 0 THEN Zero(Len(new.vals)) ELSE F(Rec[i - 1], i) IN
  [new EXCEPT !.vals = Rec[Len(new.map)]]
DeliverToRT == /\ toRT # <<>> /\ toRT' = Tail(toRT)
               /\ LET m == Head(toRT) IN
                  IF m.k = "watch" THEN watch' = watch + 1 /\ UNCHANGED <<rst, pend>>
                  ELSE /\ pend' = IF pend = <<>> \/ (Fix /\ ~ m.answer) THEN pend ELSE Tail(pend)
                       /\ rst' = CloneValues(m.st, rst) /\ watch' = watch
               /\ out' = <<>>
               /\ step' = [op |-> "deliver_rt", kind |-> Head(toRT).k,
                            stray |-> (Head(toRT).k = "bind" /\ ~ Head(toRT).answer /\ pend # <<>>)]
               /\ UNCHANGED <<lq, inv, nst, toNRT, ops, truth>>
Next == \/ \E a \in Addrs, c \in BOOLEAN : Map(a, c) \/ UnMap(a, c)
        \/ Clear
        \/ \E id \in Ids, v \in 0..(V - 1) : HandleCC(id, v)
        \/ DeliverToNRT \/ DeliverToRT
Spec == Init /\ [][Next]_vars
View == <<lq, inv, nst, rst, pend, watch, toRT, toNRT, out, ops, truth>>
\* ------------------------------------------------------------------ the property (C20)
\* the learn order is honoured: a controller the ghost says is assigned is assigned so in the nRT half
LearnOrder == \A id \in DOMAIN truth : LET a == truth[id][1] IN Has(inv, a) /\ (IF truth[id][2] THEN inv[a].c = id ELSE inv[a].f = id)
\* no controller is mapped twice in one storage generation ("exactly its parameter")
UniqueIds == \A i, j \in 1..Len(nst.map) : i # j => nst.map[i].id # nst.map[j].id
\* every published storage agrees with the inverse map: controller -> value slot -> callback address
GenConsistent == \A i \in 1..Len(nst.map) : LET e == nst.map[i]  a == nst.cbs[e.s] IN
                    Has(inv, a) /\ inv[a].s = e.s /\ (IF e.coarse THEN inv[a].c = e.id ELSE inv[a].f = e.id)
\* with no message in flight a controller drives exactly its address, and an unassigned one is silent
Quiet == toRT = <<>> /\ toNRT = <<>>
DrivesItsAddress == (Quiet /\ out # <<>>) => LET o == out[1] IN Has(truth, o.id) /\ truth[o.id][1] = o.addr
\* with no message in flight every assigned controller is really driving: the RT half knows it
AssignedIsLive == Quiet => \A id \in DOMAIN truth : Lookup(rst, id).id # NONE /\ rst.cbs[Lookup(rst, id).s] = truth[id][1]
OneMessage == Len(out) <= 1
InRange == out # <<>> => out[1].x \in 0..(V * V - 1)
\* "a not yet assigned controller arrives -> it is assigned to the oldest queued address" needs two things of the exchange: with no
\* message in flight nothing is pending (a pending controller is never announced again, so a stuck entry makes it unlearnable for good),
\* and the realtime half watches for exactly as many controllers as addresses are queued
NoStuckController == Quiet => pend = <<>>
WatchesMatchQueue == Quiet => watch = Len(lq)
\* the pattern behind the known finding: a bind that does not answer a use-CC is delivered while a controller is pending
NoStrayBind == ~ (step.op = "deliver_rt" /\ step.stray)
=============================================================================
