---------------------------- MODULE ArgVals ----------------------------
(* Argument-value lists (rtosc_arg_val_t[]) abstractly, their compressed forms,   *)
(* and the order the statement of C16 prescribes.                                 *)
(*   value  == [t |-> type, v |-> payload]                                        *)
(*      i c r h : v integer          f d : v integer = 2 x the value (halves)      *)
(*      s S b m : v byte sequence    t   : v natural (1 = immediately)             *)
(*      T F N I : v = 0              a   : v = Seq(value), et = element type       *)
(*   item   == [k |-> "one", x |-> value]                                         *)
(*           | [k |-> "rep",   n |-> Nat, x |-> value]            "N x value"      *)
(*           | [k |-> "range", n |-> Nat, x |-> start, d |-> delta]   start + i*d  *)
(* Expand(items) is the plain list a form stands for; all forms of one list must  *)
(* be indistinguishable to comparison, equality, iteration and message building.  *)
EXTENDS Integers, Sequences, FiniteSets
Numeric == {"i", "c", "h", "f", "d"}
RECURSIVE Concat(_)
Concat(ss) == IF ss = <<>> THEN <<>> ELSE Head(ss) \o Concat(Tail(ss))
ExpandItem(it) == CASE it.k = "one" -> << it.x >>
                    [] it.k = "rep" -> [i \in 1..it.n |-> it.x]
                    [] it.k = "range" -> [i \in 1..it.n |-> [t |-> it.x.t, v |-> it.x.v + (i - 1) * it.d]]
Expand(items) == Concat([i \in 1..Len(items) |-> ExpandItem(items[i])])
\* every way of compressing the constant and arithmetic runs of a plain list (runs of length >= 2)
RECURSIVE Forms(_)
Forms(list) ==
  IF list = <<>> THEN { <<>> }
  ELSE LET n == Len(list)
           RunConst(L) == list[1].t # "a" /\ \A i \in 1..L : list[i] = list[1]
           Finite(x) == x.v < 2000000 /\ x.v > 0 - 2000000          \* +-2000000 stand for the infinities: they repeat, but take no part in arithmetic runs
           RunArith(L) == /\ list[1].t \in Numeric /\ \A i \in 1..L : list[i].t = list[1].t /\ Finite(list[i])
                          /\ list[2].v # list[1].v /\ \A i \in 2..L : list[i].v - list[i - 1].v = list[2].v - list[1].v
           Rest(L) == Forms(SubSeq(list, L + 1, n)) IN
       { <<[k |-> "one", x |-> list[1]]>> \o r : r \in Rest(1) }
       \cup UNION { { <<[k |-> "rep", n |-> L, x |-> list[1]]>> \o r : r \in Rest(L) } : L \in { l \in 2..n : RunConst(l) } }
       \cup UNION { { <<[k |-> "range", n |-> L, x |-> list[1], d |-> list[2].v - list[1].v]>> \o r : r \in Rest(L) } : L \in { l \in 2..n : RunArith(l) } }
\* ------------------------------------------------------------------ the prescribed order on same-typed scalars
RECURSIVE LexLess(_, _)
LexLess(a, b) == IF a = <<>> THEN b # <<>> ELSE IF b = <<>> THEN FALSE
                 ELSE IF Head(a) # Head(b) THEN Head(a) < Head(b) ELSE LexLess(Tail(a), Tail(b))   \* a proper prefix comes first
Sign(x) == IF x < 0 THEN 0 - 1 ELSE IF x > 0 THEN 1 ELSE 0
\* -1 / 0 / 1 for two scalars of the same type; "free" where the statement prescribes nothing (MIDI, colour)
CmpScalar(a, b) ==
  CASE a.t \in {"i", "c", "h", "f", "d"} -> Sign(a.v - b.v)                    \* numbers numerically
    [] a.t \in {"s", "S", "b"} -> IF a.v = b.v THEN 0 ELSE IF LexLess(a.v, b.v) THEN 0 - 1 ELSE 1
    [] a.t = "t" -> IF a.v = b.v THEN 0 ELSE IF a.v = 1 THEN 0 - 1 ELSE IF b.v = 1 THEN 1 ELSE Sign(a.v - b.v)   \* immediately first
    [] a.t \in {"T", "F", "N", "I"} -> 0
    [] OTHER -> 2                                                                \* free
=============================================================================
