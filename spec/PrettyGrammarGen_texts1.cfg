CONSTANTS MaxTokens = 1  SimMode = FALSE  PoolName = "texts"
INIT Init
NEXT Next
CONSTRAINT Emit
CHECK_DEADLOCK FALSE
