---------------------------- MODULE UndoHistorySim ----------------------------
(* Engine A front-end for C15: TLC -simulate draws behaviours of UndoHistory.tla    *)
(* (Max = 20, clock steps around the 2-second window) and writes the sequence of     *)
(* calls of each behaviour; the driver performs them on the real rtosc::UndoHistory  *)
(* (time() interposed) and logs what it observes; UndoHistoryTrace judges the log.   *)
EXTENDS UndoHistory, Json, CSV, IOUtils
CONSTANT Profile        \* "free": any call at any time;  "cap": the clock jumps past the merge window after every recorded
                        \*  event, so events do not merge and the Max-entry cap is crossed in every alignment
VARIABLES ops, owe      \* owe: a clock jump is due
SimInit == Init /\ ops = <<>> /\ owe = FALSE
SimNext == IF owe THEN /\ Tick(Window + 1) /\ step' = [op |-> "tick", d |-> Window + 1] /\ ops' = Append(ops, step') /\ owe' = FALSE
           ELSE /\ Next /\ ops' = Append(ops, step') /\ owe' = (Profile = "cap" /\ step'.op = "rec")
Out == IOEnv.OUT
MaxDepth == atoi(IOEnv.DEPTH)
\* In simulation TLC evaluates the constraint on every candidate successor, so exactly one candidate
\* per behaviour is written out: the one that ends with a clock tick of 1.
Export == (TLCGet("level") < MaxDepth) \/ step.op # "tick" \/ step.d # (IF Profile = "cap" THEN Window + 1 ELSE 1) \/ CSVWrite("%1$s", <<ToJson(ops)>>, Out)
=============================================================================
