// scanning of a message must not depend on its neighbours
#include <rtosc/ports.h>
#include <rtosc/savefile.h>
#include <rtosc/pretty-format.h>
#include <string>
#include <vector>
#include <map>
#include <set>
#include <algorithm>
#include <cstdio>
using namespace rtosc;
struct LogDisp : savefile_dispatcher_t {
    std::multiset<std::string> seen;
    int on_dispatch(size_t, char* portname, size_t, size_t nargs, rtosc_arg_val_t* av) override {
        char buf[4096]=""; rtosc_print_arg_vals(av, nargs, buf, sizeof buf, NULL, 0);
        seen.insert(std::string(portname)+" "+buf); return nargs; }
    bool do_dispatch(const char*) override { return true; }
};
int main(int argc, char** argv)
{
    static const Ports none = {};
    std::vector<std::vector<std::string>> sets = {
      {"/a 1", "/b 1.5", "/c \"hello world\"", "/d [1 2 3]", "/e true", "/f 0.25 (0x1p-2)"},
      {"/a [1 ... 5]", "/b 3", "/c [4x0]", "/d -2", "/e 'c'", "/f nil"},
      {"/a 2016-11-16 19:44:06", "/b 3", "/c immediately", "/d 5", "/e 2016-11-16", "/f 1 2"},
      {"/a #ff0000ff", "/b 123h", "/c 1.0d", "/d ident", "/e \"multi\\nline\"", "/f [true false]"},
      {"/a [1 2 ... 9]", "/b 1", "/c [0.5 1.0 ... 3.0]", "/d \"x\" \"y\"", "/e MIDI [0x01 0x02 0x03 0x04]", "/f BLOB [3 0x01 0x02 0x03]"},
      {"/a 1 ... 5", "/b -3", "/c 3x2", "/d 4", "/e inf", "/f [ \"a\" \"b\" ]"},
      {"/a 2016-11-16 19:44", "/b 19", "/c now", "/d 0.5", "/e 2016-11-16 19:44:06.5", "/f 7"},
    };
    int rc=0;
    int only = argc>1 ? atoi(argv[1]) : -1; int si=-1; for(auto& lines : sets) { if(++si != only && only>=0) continue;
        std::sort(lines.begin(), lines.end());
        std::map<std::string,int> outcomes; std::string ex;
        do {
            std::string t; for(auto& l: lines) t += l+"\n";
            LogDisp d; int r = dispatch_printed_messages(t.c_str(), none, nullptr, &d);
            std::string o = "rval=" + std::to_string(r) + ":"; for(auto& s: d.seen) o += " {" + s + "}";
            if(!outcomes[o]++) { }
        } while(std::next_permutation(lines.begin(), lines.end()));
        printf("%zu outcomes\n", outcomes.size());
        for(auto& o : outcomes) printf("   [%d] %s\n", o.second, o.first.c_str());
        if(outcomes.size()!=1) rc=1;
    }
    return rc;
}
