// Conformance driver for the arithmetic on argument values (src/cpp/arg-val-math.c), judged by spec/ArgMathTrace.tla.
//   argmath_driver <records.ndjson> <out.ndjson>
// A record is one state of spec/ArgMath.tla: {"op","a":{"t","n"},"b":{"t","n"},"i","scale"}; n is an integer for c / i / h, sixteenths for f / d,
// 1 / 0 for T / F; scale = 32: the 64-bit operands stand for n * 2^32.  Logged: the record itself, ok, the result's type and number
// (exact = the result is a whole number of sixteenths resp. of 2^32), whether the operands were left as they were.
#include <rtosc/rtosc.h>
#include <rtosc/arg-val-math.h>
#include <cmath>
#include "vjson.hpp"
#include "vguard.hpp"
static rtosc_arg_val_t mk(const J &x, int scale) { rtosc_arg_val_t a; memset(&a, 0, sizeof a); char t = x["t"].s[0]; long n = (long)x["n"].num(); a.type = t;
    switch (t) { case 'c': case 'i': a.val.i = (int)n; break; case 'h': a.val.h = scale ? (int64_t)n * (1LL << scale) : (int64_t)n; break; case 'f': a.val.f = (float)n / 16.0f; break; case 'd': a.val.d = (double)n / 16.0; break;
                 case 'T': a.val.T = 1; break; case 'F': a.val.T = 0; break; case 's': a.val.s = "text"; break; case 't': a.val.t = (uint64_t)n; break; default: break; }
    return a; }
static void put(JW &w, const rtosc_arg_val_t &r, int scale) { char t = r.type; long n = 0; bool exact = true;
    switch (t) { case 'c': case 'i': n = r.val.i; break;
                 case 'h': if (scale) { exact = (r.val.h % (1LL << scale)) == 0; n = (long)(r.val.h / (1LL << scale)); } else { exact = r.val.h >= -2000000000LL && r.val.h <= 2000000000LL; n = (long)r.val.h; } break;
                 case 'f': { double v = (double)r.val.f * 16.0; exact = std::isfinite(v) && v == std::floor(v) && std::fabs(v) < 2e9; n = exact ? (long)v : 0; break; }
                 case 'd': { double v = r.val.d * 16.0; exact = std::isfinite(v) && v == std::floor(v) && std::fabs(v) < 2e9; n = exact ? (long)v : 0; break; }
                 case 'T': case 'F': n = r.val.T ? 1 : 0; break; case 't': n = (long)r.val.t; break; default: n = 0; }
    w.kstr("t", std::string(1, t ? t : '?')).knum("n", n).kbool("exact", exact); }
int main(int argc, char **argv) {
    vg_init(); if (argc < 3) return 2; FILE *f = fopen(argv[1], "r"); FILE *out = fopen(argv[2], "w"); if (!f || !out) return 2; std::string line;
    while (read_line(f, line)) { if (line.empty()) continue; J r = jparse(line); const std::string &op = r["op"].s; int scale = (int)r["scale"].num(); int i = (int)r["i"].num();
        rtosc_arg_val_t a = mk(r["a"], scale), b = mk(r["b"], scale), a0 = a, b0 = b, res; memset(&res, 0, sizeof res); res.type = '?'; int ok = 0; int toint = 0; bool is_toint = false;
        rtosc_arg_val_t range[3]; memset(range, 0, sizeof range); range[0].type = '-'; range[1] = b; range[2] = a;      // layout of a range: header, delta, first value
        int sig = vg_run(5, [&] {
            if (op == "null") { ok = rtosc_arg_val_null(&res, a.type); }
            else if (op == "fromint") { ok = rtosc_arg_val_from_int(&res, a.type, i); }
            else if (op == "neg") { res = a; ok = rtosc_arg_val_negate(&res); }
            else if (op == "round") { res = a; ok = rtosc_arg_val_round(&res); }
            else if (op == "add") ok = rtosc_arg_val_add(&a, &b, &res);
            else if (op == "sub") ok = rtosc_arg_val_sub(&a, &b, &res);
            else if (op == "mult") ok = rtosc_arg_val_mult(&a, &b, &res);
            else if (op == "div") ok = rtosc_arg_val_div(&a, &b, &res);
            else if (op == "toint") { ok = rtosc_arg_val_to_int(&a, &toint); is_toint = true; }
            else if (op == "range") { ok = rtosc_arg_val_range_arg(range, i, &res) != nullptr; } });
        bool intact = memcmp(&a, &a0, sizeof a) == 0 && memcmp(&b, &b0, sizeof b) == 0 && memcmp(&range[1], &b0, sizeof b) == 0 && memcmp(&range[2], &a0, sizeof a) == 0;
        JW w; w.obj().key("rec").raw(line).kbool("ok", ok != 0);
        if (is_toint) w.kstr("t", "i").knum("n", toint).kbool("exact", true); else put(w, res, scale);
        w.kbool("operands_intact", intact).knum("sig", sig).knum("asan", vg_asan_hits).kstr("asan_what", vg_asan_first).end_obj(); fprintf(out, "%s\n", w.s.c_str()); }
    fclose(out); return 0;
}
