---------------------------- MODULE PortTreeGen ----------------------------
(* Input machine for C04 / C09 / C18(lookup): a state is a port table grown one   *)
(* port at a time in canonical order (a table is a set to the specification; the  *)
(* driver replays each table under several permutations, because order only       *)
(* matters to the code: callback order, hash construction).                       *)
(*   Family "flat":   literal names over {a,b} of length 1..3, up to MaxPorts     *)
(*                    ports - the shape for which the library builds a perfect    *)
(*                    hash (shared prefixes, equal lengths, anagrams).            *)
(*   Family "struct": names with #N, ':types', multi-component leaf a#2/b, and    *)
(*                    sub-tree ports (plain and #N) over small child tables.      *)
(* Laws checked in every state: Walk has no duplicates, and every walked address, *)
(* sent as a message, reaches exactly the port it was reported with.              *)
(* Each state is written out with the addresses to try: every walked address and  *)
(* its one-character mutations (delete / replace / insert / append).              *)
EXTENDS PortTree, Json, CSV, IOUtils
CONSTANTS Family, MaxPorts
VARIABLES picks          \* increasing sequence of indices into Pool
A == 97  B == 98  SL == 47
Lit(s) == [k |-> "lit", s |-> s]
En(n) == [k |-> "enum", n |-> n]
NoT == [has |-> FALSE, alts |-> <<>>]
Ty(a) == [has |-> TRUE, alts |-> a]
P(segs, types) == [segs |-> segs, types |-> types]
Leaf(pat) == [leaf |-> TRUE, pat |-> pat, kids |-> <<>>]
Sub(pat, kids) == [leaf |-> FALSE, pat |-> pat, kids |-> kids]
FlatNames == << <<A>>, <<B>>, <<A,A>>, <<A,B>>, <<B,A>>, <<B,B>>, <<A,A,A>>, <<A,A,B>>, <<A,B,A>>, <<A,B,B>>,
                <<B,A,A>>, <<B,A,B>>, <<B,B,A>>, <<B,B,B>> >>
FlatPool == [i \in 1..Len(FlatNames) |-> Leaf(P(<<Lit(FlatNames[i])>>, NoT))]
ChildPool == << Leaf(P(<<Lit(<<A>>)>>, NoT)), Leaf(P(<<Lit(<<B>>)>>, Ty(<< <<105>> >>))), Leaf(P(<<Lit(<<A, B>>), En(2)>>, NoT)),
                Leaf(P(<<Lit(<<A, A>>)>>, NoT)) >>
ChildTables == << <<ChildPool[1]>>, <<ChildPool[1], ChildPool[2]>>, <<ChildPool[3]>>, <<ChildPool[1], ChildPool[4]>>, <<ChildPool[2], ChildPool[3]>> >>
StructLeaves == << Leaf(P(<<Lit(<<A>>)>>, NoT)), Leaf(P(<<Lit(<<A>>)>>, Ty(<< <<105>> >>))), Leaf(P(<<Lit(<<A>>)>>, Ty(<< <<105>>, <<102>> >>))),
                   Leaf(P(<<Lit(<<A>>), En(2)>>, NoT)), Leaf(P(<<Lit(<<A>>), En(12)>>, Ty(<< <<105>> >>))),
                   Leaf(P(<<Lit(<<A, B>>)>>, NoT)), Leaf(P(<<Lit(<<A, B>>), En(2)>>, NoT)), Leaf(P(<<Lit(<<B>>)>>, Ty(<< <<>>, <<105>> >>))),
                   Leaf(P(<<Lit(<<A>>), En(2), Lit(<<SL, B>>)>>, NoT)), Leaf(P(<<Lit(<<B, A>>)>>, NoT)) >>
StructSubs == [j \in 1..(4 * Len(ChildTables)) |->
                 LET c == ((j - 1) % Len(ChildTables)) + 1  v == ((j - 1) \div Len(ChildTables)) + 1 IN
                 Sub(CASE v = 1 -> P(<<Lit(<<B, SL>>)>>, NoT) [] v = 2 -> P(<<Lit(<<A, SL>>)>>, NoT)
                       [] v = 3 -> P(<<Lit(<<B>>), En(2), Lit(<<SL>>)>>, NoT) [] v = 4 -> P(<<Lit(<<A, B>>), En(2), Lit(<<SL>>)>>, NoT), ChildTables[c])]
Pool == IF Family = "flat" THEN FlatPool ELSE StructLeaves \o StructSubs
NSubs(ps) == Len(SelectSeq(ps, LAMBDA i : ~ Pool[i].leaf))
Init == picks = <<>>
Next == /\ Len(picks) < MaxPorts
        /\ \E i \in 1..Len(Pool) :
             /\ (IF picks = <<>> THEN TRUE ELSE i > picks[Len(picks)])
             /\ NSubs(Append(picks, i)) <= 1
             /\ picks' = Append(picks, i)
\* the table with ids: top-level port k has id k; the kids of the sub-tree port at position k have ids 100*k + position
Port(sh, id, kidbase) ==
  [id |-> id, name |-> Render(sh.pat), pat |-> sh.pat, leaf |-> sh.leaf, meta |-> <<>>, ptr |-> "member", enabledby |-> 0,
   sub |-> [dflt |-> FALSE, ports |-> [c \in 1..Len(sh.kids) |->
              [id |-> kidbase + c, name |-> Render(sh.kids[c].pat), pat |-> sh.kids[c].pat, leaf |-> TRUE, meta |-> <<>>,
               ptr |-> "member", enabledby |-> 0, sub |-> [dflt |-> FALSE, ports |-> <<>>]]]]]
Table == [dflt |-> FALSE, ports |-> [k \in 1..Len(picks) |-> Port(Pool[picks[k]], k, 100 * k)]]
walked == Walk(Table, <<47>>)
\* a tag string the port with this id admits (its first alternative, or none)
RECURSIVE PortsOf(_)
PortsOf(tb) == Concat([i \in 1..Len(tb.ports) |-> IF tb.ports[i].leaf THEN <<tb.ports[i]>> ELSE PortsOf(tb.ports[i].sub)])
TagsFor(id) == LET ps == SelectSeq(PortsOf(Table), LAMBDA p : p.id = id) IN
               IF ps[1].pat.types.has THEN ps[1].pat.types.alts[1] ELSE <<>>
Laws == /\ NoDups(walked)
        /\ \A i \in 1..Len(walked) :
             LET cs == Dispatch(Table, Tail(walked[i].addr), TagsFor(walked[i].id)) IN
             /\ walked[i].id \in { c.id : c \in Range(cs) }
             /\ \A k \in 1..Len(cs) : cs[k].loc = walked[i].addr
             /\ NoNamesakes(Table) => Len(cs) = 1
\* derived tables: merging two overlapping halves of a table with distinct names, or cloning all of its names, gives the table back
RouteLaws == DistinctNames(Table) =>
               /\ \A k \in 1..Len(Table.ports) : MergeOfOverlappingHalves(Table, k) = Table
               /\ CloneTable(Table, Names(Table), FALSE) = Table
\* addresses to try (without the leading '/')
Mut(a) == { a } \cup { SubSeq(a, 1, i - 1) \o SubSeq(a, i + 1, Len(a)) : i \in 1..Len(a) }
                \cup { [a EXCEPT ![i] = c] : i \in 1..Len(a), c \in {B, SL, 50} }
                \cup { SubSeq(a, 1, i - 1) \o <<c>> \o SubSeq(a, i, Len(a)) : i \in 1..(Len(a) + 1), c \in {A, SL, 49} }
Bases == { Tail(walked[i].addr) : i \in { j \in 1..Len(walked) : j <= 3 \/ j = Len(walked) } }
Addrs == UNION { Mut(b) : b \in Bases } \ { <<>> }
Out == IF "OUT" \in DOMAIN IOEnv THEN IOEnv.OUT ELSE "none"
Emit == picks = <<>> \/ Out = "none" \/ CSVWrite("%1$s", <<ToJson([table |-> Table, addrs |-> Addrs])>>, Out)
=============================================================================
