// build: g++ -std=c++11 -I/tmp/wt/C12_h/include finding5.cpp /tmp/wt/C12_h/_build/librtosc-cpp.a /tmp/wt/C12_h/_build/librtosc.a -o finding5
//
// An array of option parameters in which one element holds a value without a
// symbol (here 7; the ports accept every int) is saved as an array that mixes
// symbols and numbers ("[off 7 off off]"). The pretty format only knows arrays
// of one element type, so the library rejects its own savefile.
// (A single rOption port prints such a value as a plain number and loads fine.)
#include <rtosc/rtosc.h>
#include <rtosc/ports.h>
#include <rtosc/savefile.h>
#include <rtosc/port-sugar.h>
#include <cstdio>
#include <cstdarg>
#include <string>
#include <set>
using namespace rtosc;

struct App { static const Ports& ports; int dest[4] = {0, 0, 0, 0}; int single = 0; };
#define rObject App
static const Ports app_ports = {
    rArrayOption(dest, 4, rOptions(off, master, aux), rDefault([4xoff]),
                 "destination: off, master, aux or the number of a part"),
    rOption(single, rOptions(off, master, aux), rDefault(off), "the same, not in an array"),
};
#undef rObject
const Ports& App::ports = app_ports;

static void send(App& a, const char* path, const char* args, ...)
{
    char buf[256], loc[256] = "";
    va_list va; va_start(va, args);
    rtosc_vmessage(buf, sizeof(buf), path, args, va);
    va_end(va);
    RtData d; d.obj = &a; d.loc = loc; d.loc_size = sizeof(loc);
    app_ports.dispatch(buf, d, true);
}

int main()
{
    App a;
    send(a, "/dest1", "i", 7);
    send(a, "/single", "i", 7);
    std::set<std::string> written;
    std::string f = save_to_file(app_ports, &a, "app", rtosc_version{1,0,0}, written, {});
    printf("state: dest = %d %d %d %d, single = %d\nsavefile:\n%s\n", a.dest[0], a.dest[1], a.dest[2], a.dest[3], a.single, f.c_str());
    App b;
    int r = load_from_file(f.c_str(), app_ports, &b, "app", rtosc_version{1,0,0});
    printf("expected: load returns 2, dest = 0 7 0 0, single = 7\n");
    printf("happened: load returns %d, dest = %d %d %d %d, single = %d\n", r, b.dest[0], b.dest[1], b.dest[2], b.dest[3], b.single);
    return (r == 2 && b.dest[1] == 7 && b.single == 7) ? 0 : 1;
}
