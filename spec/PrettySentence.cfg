INIT Init
NEXT Next
INVARIANT Judge
CHECK_DEADLOCK FALSE
