// build: gcc -I/tmp/wt/C11_h/include /tmp/wt/C11_h/findings/finding7.c /tmp/wt/C11_h/_build/librtosc-cpp.a /tmp/wt/C11_h/_build/librtosc.a -lm -o /tmp/wt/C11_h/findings/finding7
// A range that holds one value ("1 3 ... 3": a=1, d=2, a+1d=3) is printed with
// a "second value" that is not part of it: "1 3 5 ... 3". That text scans to an
// endless range (3 cells, num 0) outside of an array.
// The same happens in the second round for every two-value range behind a value
// of its type ("2 3 ... 4" -> "2 3 4 ... 4" -> "2 3 4 5 ... 4").
#include <stdio.h>
#include <string.h>
#include <rtosc/rtosc.h>
#include <rtosc/arg-ext.h>
#include <rtosc/pretty-format.h>

// scan text, print into out (out[-1] is a space)
static int scan_print(const char* text, char* out, size_t outsize, rtosc_arg_val_t* av)
{
    char sb[16];
    int n = rtosc_count_printed_arg_vals(text);
    if(n <= 0 || n > 8) return n;
    memset(av, 0, 8 * sizeof *av);
    rtosc_scan_arg_vals(text, av, n, sb, sizeof sb);
    rtosc_print_arg_vals(av, n, out, outsize, NULL, 0);
    return n;
}

static int round_trip(const char* text, int rounds, const char* expect_last)
{
    char bufs[4][128]; rtosc_arg_val_t av[8];
    const char* cur = text;
    int bad = 0;
    printf("<%s>\n", text);
    for(int r = 0; r < rounds; ++r) {
        bufs[r][0] = ' ';
        int n = scan_print(cur, bufs[r] + 1, sizeof bufs[r] - 1, av);
        printf("  round %d: %d cells, printed <%s>\n", r + 1, n, bufs[r] + 1);
        cur = bufs[r] + 1;
    }
    // scan the last print once more and look for an endless range
    char sb[16]; int n = rtosc_count_printed_arg_vals(cur);
    if(n > 0 && n <= 8) {
        memset(av, 0, sizeof av);
        rtosc_scan_arg_vals(cur, av, n, sb, sizeof sb);
        for(int i = 0; i < n; ++i)
            if(av[i].type == '-' && rtosc_av_rep_num(av + i) == 0) {
                printf("  the last print scans to an ENDLESS range (cell %d)   <-- WRONG\n", i);
                bad = 1;
            }
    } else { printf("  the last print is rejected (%d)   <-- WRONG\n", n); bad = 1; }
    printf("  expected a print that denotes %s\n", expect_last);
    return bad;
}

int main(void)
{
    int bad = 0;
    bad |= round_trip("1 3 ... 3", 1, "1 3");
    bad |= round_trip("2 3 ... 4", 2, "2 3 4");
    printf(bad ? "FAIL\n" : "ok\n");
    return bad;
}
