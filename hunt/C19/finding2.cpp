// build (in findings/): g++ -std=c++11 -I../include finding2.cpp ../_build/librtosc-cpp.a ../_build/librtosc.a -o finding2
// The NRPN state (parhi/parlo/valhi/vallo) is not initialised by the
// constructor: the same operation history gives different bindings depending
// on what the memory of the AutomationMgr contained before.
#include <rtosc/ports.h>
#include <rtosc/automations.h>
#include <rtosc/port-sugar.h>
#include <cstdio>
#include <cstdlib>
#include <cstring>
#include <new>
struct D { float a,b; };
#define rObject D
static rtosc::Ports ports = { rParamF(a, rLinear(0,1), "a"), rParamF(b, rLinear(0,1), "b") };
struct Res { int learning, cc, nrpn; };
static Res run(unsigned char fill)
{
    void *mem = malloc(sizeof(rtosc::AutomationMgr));
    memset(mem, fill, sizeof(rtosc::AutomationMgr));   // "whatever was there before"
    rtosc::AutomationMgr *m = new(mem) rtosc::AutomationMgr(2, 1, 16);
    m->set_ports(ports);
    m->createBinding(0, "/a", true);
    m->handleMidi(0, 6, 64);  // a lone data-entry MSB, no NRPN number was ever selected
    Res r = { m->slots[0].learning, m->slots[0].midi_cc, m->slots[0].midi_nrpn };
    m->~AutomationMgr();
    free(mem);
    return r;
}
int main()
{
    Res z = run(0x00), f = run(0xff);
    printf("expected: identical results for both runs (an AutomationMgr's behaviour depends on its operations only)\n");
    printf("memory pre-filled with 0x00: learning=%d midi_cc=%d midi_nrpn=%d\n", z.learning, z.cc, z.nrpn);
    printf("memory pre-filled with 0xff: learning=%d midi_cc=%d midi_nrpn=%d\n", f.learning, f.cc, f.nrpn);
    int bad = memcmp(&z, &f, sizeof(z)) != 0;
    printf(bad ? "FAIL: results differ - NRPN state is read uninitialised\n" : "ok\n");
    return bad;
}
