// Conformance driver for C05 (path-pattern matching).
//  sweep <patterns.ndjson> <maxlen> <out.ndjson>
//     every pattern (abstract form + rendered name from TLC) x EVERY address over the 11-symbol
//     alphabet {a b : 0 1 2 9 / # { }} up to maxlen: rtosc_match_path; and x 9 type strings:
//     rtosc_match on a real message.  Logged: the set of matched addresses (per type string).
//  random <seed> <count> <out.ndjson>
//     larger random patterns (up to 6 segments, long literals, N up to 1e8, indices with leading
//     zeros and up to 9 digits), addresses derived from a member of the language by mutation.
// The verdict is PathPatternTrace.tla's (membership in the pattern's language).
#include <rtosc/rtosc.h>
#include <random>
#include "vjson.hpp"
#include "vguard.hpp"

static const char ALPHA[] = {'a', 'b', ':', '0', '1', '2', '9', '/', '#', '{', '}'};
static const char *TAGS[9] = {"", "i", "f", "if", "ii", "fi", "s", "iff", "T"};

static size_t build_msg(char *buf, size_t cap, const std::string &addr, const char *tags) {
    rtosc_arg_t a[4]; memset(a, 0, sizeof a); static const char *empty = "";
    for (int k = 0; tags[k]; ++k) if (tags[k] == 's') a[k].s = empty;
    // rtosc_amessage takes the address as a C string; an empty address cannot be a message
    return rtosc_amessage(buf, cap, addr.c_str(), tags, a);
}
static void jstr(JW &w, const std::string &s) { w.bytes((const uint8_t *)s.data(), s.size()); }

static void sweep(const J &rec, int maxlen, FILE *out) {
    std::string name = rec["name"].text();
    std::vector<std::string> matched; std::vector<std::vector<std::string>> tm(9);
    int asan = 0, sig = 0; std::string what;
    sig = vg_run(60, [&] {
        std::string a; std::vector<int> idx;
        // enumerate all strings up to maxlen (odometer)
        for (int len = 0; len <= maxlen; ++len) {
            idx.assign(len, 0);
            for (;;) {
                a.resize(len); for (int i = 0; i < len; ++i) a[i] = ALPHA[idx[i]];
                const char *end = nullptr;
                FlushBuf pb(name.size() + 1); memcpy(pb.p, name.c_str(), name.size() + 1);
                FlushBuf ab(a.size() + 1); memcpy(ab.p, a.c_str(), a.size() + 1);
                const char *r = rtosc_match_path((const char *)pb.p, (const char *)ab.p, &end);
                if (r) matched.push_back(a);
                if (len > 0) for (int t = 0; t < 9; ++t) {
                    char buf[64]; size_t n = build_msg(buf, sizeof buf, a, TAGS[t]);
                    FlushBuf mb(n); memcpy(mb.p, buf, n);
                    if (rtosc_match((const char *)pb.p, (const char *)mb.p, nullptr)) tm[t].push_back(a);
                }
                int p = len - 1; while (p >= 0 && ++idx[p] == (int)sizeof ALPHA) { idx[p] = 0; --p; }
                if (p < 0) break;
            }
        }
    });
    asan = vg_asan_hits; what = vg_asan_first;
    JW o; o.obj().kstr("k", "sweep").key("name"); jstr(o, name);
    o.knum("maxlen", maxlen).knum("sig", sig).knum("asan", asan).kstr("asan_what", what);
    o.key("matched").arr(); for (auto &m : matched) jstr(o, m); o.end_arr();
    o.key("tmatched").arr(); for (int t = 0; t < 9; ++t) { o.arr(); for (auto &m : tm[t]) jstr(o, m); o.end_arr(); } o.end_arr();
    o.key("tags").arr(); for (int t = 0; t < 9; ++t) jstr(o, TAGS[t]); o.end_arr();
    o.end_obj();
    fprintf(out, "%s\n", o.s.c_str());   // the checker joins the abstract pattern back in by line number
}

// ---- random patterns (abstract form built here, rendered here; TLC re-renders and compares)
struct Seg { int k; std::string s; long n; std::vector<std::string> alts; };
struct Pat { std::vector<Seg> segs; bool has_types = false; std::vector<std::string> talts; };
static std::string render(const Pat &p) {
    std::string r;
    for (auto &g : p.segs) { if (g.k == 0) r += g.s; else if (g.k == 1) r += "#" + std::to_string(g.n); else { r += "{"; for (size_t i = 0; i < g.alts.size(); ++i) { if (i) r += ","; r += g.alts[i]; } r += "}"; } }
    if (p.has_types) for (auto &t : p.talts) r += ":" + t;
    return r;
}
static void pat_json(JW &w, const Pat &p) {
    w.obj().key("segs").arr();
    for (auto &g : p.segs) { w.obj(); if (g.k == 0) { w.kstr("k", "lit").key("s"); jstr(w, g.s); } else if (g.k == 1) { w.kstr("k", "enum").knum("n", g.n); } else { w.kstr("k", "alt").key("order").arr(); for (auto &a : g.alts) jstr(w, a); w.end_arr(); } w.end_obj(); }
    w.end_arr().key("types").obj().kbool("has", p.has_types).key("alts").arr(); for (auto &t : p.talts) jstr(w, t); w.end_arr().end_obj().end_obj();
}
static void do_random(uint64_t seed, long count, FILE *out) {
    std::mt19937_64 rng(seed * 6364136223846793005ull + 99); auto R = [&](uint64_t n) { return rng() % n; };
    auto word = [&](int maxl) { std::string s; int l = 1 + (int)R(maxl); for (int i = 0; i < l; ++i) s += "abcxyz_-AB"[R(10)]; return s; };
    for (long it = 0; it < count; ++it) {
        Pat p; int ns = 1 + (int)R(6); int prev = -1;
        for (int i = 0; i < ns; ++i) {
            int k = (int)R(3); if (k == prev && k != 2) k = 2; if (i == 0 && k == 1 && R(2)) k = 0;
            Seg g; g.k = k; g.n = 0;
            if (k == 0) { g.s = word(8); if (R(4) == 0 && i + 1 < ns) g.s += "/" + word(3); }
            else if (k == 1) { static const long ns_[] = {1, 2, 3, 10, 16, 100, 128, 1000, 65536, 100000000}; g.n = ns_[R(10)]; }
            else { int na = 1 + (int)R(4); std::string base = word(3); for (int a = 0; a < na; ++a) { std::string s = R(2) ? base.substr(0, 1 + R(base.size())) + (R(2) ? word(2) : "") : word(4); bool dup = false; for (auto &x : g.alts) if (x == s) dup = true; if (!dup) g.alts.push_back(s); } }
            p.segs.push_back(g); prev = k;
        }
        if (R(3) == 0) { if (p.segs.back().k == 0) p.segs.back().s += "/"; else { Seg g; g.k = 0; g.s = "/"; g.n = 0; p.segs.push_back(g); } }
        if (R(2)) { p.has_types = true; int nt = 1 + (int)R(3); for (int i = 0; i < nt; ++i) { std::string t; int l = (int)R(3); for (int k = 0; k < l; ++k) t += "ifs"[R(3)]; p.talts.push_back(t); } }
        std::string name = render(p);
        // a member of the language ...
        std::string addr;
        for (auto &g : p.segs) { if (g.k == 0) addr += g.s; else if (g.k == 1) { long v = (long)R(g.n); std::string d = std::to_string(v); int z = (int)R(3); while (z-- > 0 && d.size() < 9) d = "0" + d; addr += d; } else addr += g.alts[R(g.alts.size())]; }
        // ... mutated in 2 of 3 cases: char appended/removed/changed, index N-1/N/N+1, slash games
        for (int variant = 0; variant < 6; ++variant) {
            std::string a = addr;
            switch (variant) {
                case 0: break;
                case 1: a += "abc/0"[R(5)]; break;
                case 2: if (a.size() > 1) a.erase(R(a.size()), 1); break;
                case 3: if (!a.empty()) a[R(a.size())] = "abcxyz019/"[R(10)]; break;
                case 4: { // boundary index for the first enumeration
                    a.clear(); bool done = false;
                    for (auto &g : p.segs) { if (g.k == 0) a += g.s; else if (g.k == 1) { long v = done ? 0 : (R(2) ? g.n : g.n - 1); if (R(8) == 0 && !done) v = g.n + 1; done = true; if (v > 999999999) v = 999999999; a += std::to_string(v); } else a += g.alts[0]; }
                    break; }
                default: if (p.segs.back().k == 0 && p.segs.back().s.back() == '/') a += word(3); else a += "/"; break;
            }
            if (a.empty() || a.find('\0') != std::string::npos) continue;
            std::string tags; if (R(2) && p.has_types) tags = p.talts[R(p.talts.size())]; else { int l = (int)R(3); for (int k = 0; k < l; ++k) tags += "ifs"[R(3)]; }
            if (R(4) == 0) tags += "ifs"[R(3)];
            char buf[256]; size_t n = build_msg(buf, sizeof buf, a, tags.c_str()); if (!n) continue;
            bool pr = false, fr = false; int sig = vg_run(5, [&] {
                FlushBuf pb(name.size() + 1); memcpy(pb.p, name.c_str(), name.size() + 1);
                FlushBuf mb(n); memcpy(mb.p, buf, n);
                pr = rtosc_match_path((const char *)pb.p, (const char *)mb.p, nullptr) != nullptr;
                fr = rtosc_match((const char *)pb.p, (const char *)mb.p, nullptr); });
            JW w; w.obj().kstr("k", "point").key("pat"); pat_json(w, p); w.key("name"); jstr(w, name); w.key("addr"); jstr(w, a); w.key("tags"); jstr(w, tags);
            w.kbool("path_res", pr).kbool("full_res", fr).knum("sig", sig).knum("asan", vg_asan_hits).kstr("asan_what", vg_asan_first).end_obj();
            fprintf(out, "%s\n", w.s.c_str());
        }
    }
}

int main(int argc, char **argv) {
    vg_init();
    if (argc < 5) return 2;
    std::string mode = argv[1];
    if (mode == "sweep") {
        FILE *f = fopen(argv[2], "r"); FILE *out = fopen(argv[4], "w"); if (!f || !out) return 2;
        int maxlen = atoi(argv[3]); std::string line;
        while (read_line(f, line)) { if (line.empty()) continue; J j = jparse(line);
            sweep(j, maxlen, out); }
        fclose(out); return 0;
    }
    if (mode == "random") { FILE *out = fopen(argv[4], "w"); if (!out) return 2; do_random(strtoull(argv[2], 0, 10), atol(argv[3]), out); fclose(out); return 0; }
    return 2;
}
