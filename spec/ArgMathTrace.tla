---------------------------- MODULE ArgMathTrace ----------------------------
(* Judgement of the arithmetic on argument values: a log line is one record of     *)
(* ArgMath.tla (operation, operands) with what the real function returned: ok, the  *)
(* result's type and number (sixteenths for floats, exact = the float was a whole   *)
(* number of sixteenths; for scale = 32 the 64-bit result divided by 2^32).         *)
EXTENDS ArgMath
Log == ndJsonDeserialize(IOEnv.TRACE)
VARIABLE l
NB == 64
TInit == l \in {0 - b : b \in 1..NB}
TNext == /\ l < 0
         /\ \E j \in 0..(Len(Log) \div NB) : LET i == j * NB + (0 - l) IN i <= Len(Log) /\ l' = i
Fails(r) ==
  IF r.sig # 0 THEN {"crash_or_hang"}
  ELSE LET e == Expected(r.rec) IN
       {k \in {"oob", "defined_for_type", "result_type", "result_value", "operands_changed"} :
        ~ CASE k = "oob" -> r.asan = 0
            [] k = "defined_for_type" -> r.ok = e.ok
            [] k = "result_type" -> (e.ok /\ r.ok) => r.t = e.v.t
            [] k = "result_value" -> (e.ok /\ r.ok) => (r.exact /\ r.n = e.v.n)
            [] k = "operands_changed" -> r.operands_intact }
Judge == l < 0 \/ LET f == Fails(Log[l]) IN f = {} \/ PrintT(<<"REJECT", l, f>>)
=============================================================================
