CONSTANTS Addr = {"a"}  Vals = {0}  Types = {"i"}  Max = 20  Window = 2  MaxClock = 100000  Bug = "none"
INIT TInit
NEXT TNext
CHECK_DEADLOCK FALSE
