// build: g++ -std=c++11 -I/tmp/wt/C18_h/include finding3.cpp /tmp/wt/C18_h/_build/librtosc-cpp.a /tmp/wt/C18_h/_build/librtosc.a -o finding3 && ./finding3
//
// (borderline - see findings.md)  Siblings "q1x" and "q#12": neither NAME is a
// prefix of the other, but the walked address "/q1" of the bundle port is
// answered with the unrelated port "q1x", because the leaf loop of
// Ports::apropos accepts the first port whose name merely STARTS with the
// address before it tries an exact match.
#include <rtosc/ports.h>
#include <cstdio>
#include <cstring>
using namespace rtosc;
static void null_fn(const char*, RtData&) {}

static const Ports root = {
    {"q1x::i", 0, 0, null_fn},
    {"q#12::i", 0, 0, null_fn},
};

static int bad = 0;
static void walker(const Port *p, const char *name, const char*,
                   const Ports&, void*, void*)
{
    const Port *found = root.apropos(name);
    if(found != p) {
        printf("address %-5s expected: \"%s\"   got: %s%s%s\n", name, p->name,
               found ? "\"" : "", found ? found->name : "NULL", found ? "\"" : "");
        bad = 1;
    }
}

int main()
{
    char buf[256]; memset(buf, 0, sizeof(buf));
    walk_ports(&root, buf, sizeof(buf), NULL, walker);
    if(!bad) printf("every walked address is looked up as the port it was reported with\n");
    return bad;
}
