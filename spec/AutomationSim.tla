---------------------------- MODULE AutomationSim ----------------------------
(* Engine A front-end for C19: behaviours of Automation.tla drawn by TLC -simulate. *)
EXTENDS Automation, Json, CSV, IOUtils
VARIABLE sops
SimInit == Init /\ sops = <<>>
SimNext == Next /\ sops' = Append(sops, step')
Out == IOEnv.OUT
MaxDepth == atoi(IOEnv.DEPTH)
\* one candidate successor per behaviour is written: the one that ends with clearing slot 1
Export == (TLCGet("level") < MaxDepth) \/ step.op # "clear" \/ step.s # 1 \/ CSVWrite("%1$s", <<ToJson(sops)>>, Out)
=============================================================================
