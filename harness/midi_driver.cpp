// Conformance driver for C20 (MidiMappernRT / MidiMapperRT).
//   midi_driver replay <steps.ndjson> <out.ndjson>   one JSON array of MidiMapper.tla steps per line
//   midi_driver random <seed> <count> <out.ndjson>   seeded random histories with random delivery orders
// The two halves talk through harness queues; a "deliver_*" step hands the oldest queued message to
// the other half (RT side: through MidiMapperRT::ports).  After every step: backend messages, queue
// contents (kinds), learn queue, and per address has / coarse id / fine id.
#include <rtosc/miditable.h>
#include <rtosc/ports.h>
#include <rtosc/port-sugar.h>
#include <deque>
#include <random>
#include <cmath>
#include "vjson.hpp"
#include "vguard.hpp"
using namespace rtosc;

struct Obj { int p; int q; float r; float s; float pp; int sx; };
#define rObject Obj
static const Ports base = {
    // look-alikes: ports whose names merely START with the name of a learnable parameter, declared before it, with another type and range
    rParamF(pp, rLinear(0, 1), "look-alike of p"),
    rParamI(sx, rLinear(0, 1000), "look-alike of s"),
    rParamI(p, rLinear(0, 127), "int 0..127"),
    rParamI(q, rLinear(-64, 63), "int -64..63"),
    rParamF(r, rLinear(-2.5, 10.25), "float"),
    rParamF(s, rLinear(0, 1), "float 0..1"),
};
#undef rObject
static const char *ADDRS[4] = {"/p", "/q", "/r", "/s"};

struct World {
    MidiMappernRT nrt; MidiMapperRT rt;
    std::deque<std::string> toRT, toNRT; std::vector<std::string> out;
    World() {
        nrt.base_ports = &base;
        nrt.rt_cb = [this](const char *m) { toRT.push_back(std::string(m, rtosc_message_length(m, 2048))); };
        rt.setFrontendCb([this](const char *m) { toNRT.push_back(std::string(m, rtosc_message_length(m, 2048))); });
        rt.setBackendCb([this](const char *m) { out.push_back(std::string(m, rtosc_message_length(m, 2048))); });
    }
    void deliver_rt() { if (toRT.empty()) return; std::string m = toRT.front(); toRT.pop_front();
        RtData d; d.obj = &rt; char loc[128]; loc[0] = 0; d.loc = loc; d.loc_size = sizeof loc;
        const char *p = m.c_str(); const char *tail = strrchr(p, '/'); // "/midi-learn/midi-bind" -> "midi-bind"
        MidiMapperRT::ports.dispatch(tail + 1, d, false); }
    void deliver_nrt() { if (toNRT.empty()) return; std::string m = toNRT.front(); toNRT.pop_front(); nrt.useFreeID(rtosc_argument(m.c_str(), 0).i); }
    void observe(JW &w) {
        w.key("out").arr();
        for (auto &s : out) { const char *m = s.c_str(); char t = rtosc_type(m, 0); long v = t == 'f' ? lround(rtosc_argument(m, 0).f * 1000.0) : (long)rtosc_argument(m, 0).i * 1000;
            w.obj().kstr("a", m).kstr("ty", std::string(1, t)).knum("v", v).end_obj(); }
        w.end_arr().key("to_rt").arr(); for (auto &s : toRT) w.str(strstr(s.c_str(), "bind") ? "bind" : "watch"); w.end_arr();
        w.key("to_nrt").arr(); for (auto &s : toNRT) w.num(rtosc_argument(s.c_str(), 0).i); w.end_arr();
        w.key("lq").arr(); for (auto &e : nrt.learnQueue) w.obj().kstr("a", e.first).kbool("coarse", e.second).end_obj(); w.end_arr();
        w.key("view").arr(); for (auto a : ADDRS) w.obj().kstr("a", a).kbool("has", nrt.has(a)).knum("c", nrt.getCoarse(a)).knum("f", nrt.getFine(a)).end_obj(); w.end_arr();
    }
};
static void run_steps(World &wd, const std::vector<J> &steps, JW &ev) {
    for (auto &st : steps) {
        const std::string &op = st["op"].s; wd.out.clear();
        if (op == "drain") {      // deliver whatever is queued, oldest first, the realtime half first: logged as the deliveries it consists of
            int guard = 0;
            while ((!wd.toRT.empty() || !wd.toNRT.empty()) && guard++ < 64) { bool rt = !wd.toRT.empty(); wd.out.clear();
                ev.obj().kstr("op", rt ? "deliver_rt" : "deliver_nrt"); if (rt) wd.deliver_rt(); else wd.deliver_nrt(); wd.observe(ev); ev.end_obj(); }
            continue; }
        ev.obj().kstr("op", op);
        if (op == "map") { wd.nrt.map(st["a"].s.c_str(), st["coarse"].b); ev.kstr("a", st["a"].s).kbool("coarse", st["coarse"].b); }
        else if (op == "unmap") { wd.nrt.unMap(st["a"].s.c_str(), st["coarse"].b); ev.kstr("a", st["a"].s).kbool("coarse", st["coarse"].b); }
        else if (op == "clear") wd.nrt.clear();
        else if (op == "cc") { wd.rt.handleCC((int)st["id"].num(), (int)st["v"].num()); ev.knum("id", st["id"].num()).knum("v", st["v"].num()); }
        else if (op == "deliver_rt") wd.deliver_rt();
        else if (op == "deliver_nrt") wd.deliver_nrt();
        wd.observe(ev); ev.end_obj();
    }
}
static J mk(const char *op) { J j; j.k = J::OBJ; J o; o.k = J::STR; o.s = op; j.o.emplace_back("op", o); return j; }
static void add(J &j, const char *k, const std::string &s) { J o; o.k = J::STR; o.s = s; j.o.emplace_back(k, o); }
static void addn(J &j, const char *k, long n) { J o; o.k = J::NUM; o.n = n; j.o.emplace_back(k, o); }
static void addb(J &j, const char *k, bool b) { J o; o.k = J::BOOL; o.b = b; j.o.emplace_back(k, o); }

int main(int argc, char **argv) {
    vg_init(); if (argc < 4) return 2; std::string mode = argv[1];
    if (mode == "replay") {
        FILE *f = fopen(argv[2], "r"); FILE *out = fopen(argv[3], "w"); if (!f || !out) return 2; std::string line;
        while (read_line(f, line)) { if (line.empty()) continue; J steps = jparse(line); World *wd = new World; JW ev; ev.arr();
            int sig = vg_run(20, [&] { run_steps(*wd, steps.a, ev); });
            if (sig) { JW w; w.obj().key("ev").raw("[]").knum("sig", sig).knum("asan", vg_asan_hits).end_obj(); fprintf(out, "%s\n", w.s.c_str()); continue; }
            ev.end_arr(); JW w; w.obj().key("ev").raw(ev.s).knum("sig", 0).knum("asan", vg_asan_hits).kstr("asan_what", vg_asan_first).end_obj(); fprintf(out, "%s\n", w.s.c_str()); }
        fclose(out); return 0;   // (the worlds are leaked on purpose: storages are shared between the halves)
    }
    if (mode == "random") {
        FILE *out = fopen(argv[4], "w"); if (!out) return 2; std::mt19937_64 rng(strtoull(argv[2], 0, 10) * 77 + 1); long count = atol(argv[3]);
        for (long i = 0; i < count; ++i) { World *wd = new World; JW ev; ev.arr(); int n = 5 + (int)(rng() % 50); int nid = 2 + (int)(rng() % 5); int na = 2 + (int)(rng() % 3);
            int lazy = (int)(rng() % 4);   // 0: deliver eagerly ... 3: deliveries rare (long in-flight windows)
            int sig = vg_run(20, [&] { for (int k = 0; k < n; ++k) { std::vector<J> one; int r = (int)(rng() % (8 + 3 * (3 - lazy)));
                if (r == 0) { J j = mk("map"); add(j, "a", ADDRS[rng() % na]); addb(j, "coarse", rng() % 3 != 0); one.push_back(j); }
                else if (r == 1) { J j = mk("unmap"); add(j, "a", ADDRS[rng() % na]); addb(j, "coarse", rng() % 3 != 0); one.push_back(j); }
                else if (r == 2 && rng() % 6 == 0) one.push_back(mk("clear"));
                else if (r <= 6) { J j = mk("cc"); addn(j, "id", 1 + rng() % nid); addn(j, "v", rng() % 4 == 0 ? (rng() % 2 ? 0 : 127) : rng() % 128); one.push_back(j); }
                else { if (!wd->toRT.empty() && (wd->toNRT.empty() || rng() % 2)) one.push_back(mk("deliver_rt")); else if (!wd->toNRT.empty()) one.push_back(mk("deliver_nrt")); else continue; }
                run_steps(*wd, one, ev); } });
            ev.end_arr(); JW w; w.obj().key("ev").raw(sig ? "[]" : ev.s).knum("sig", sig).knum("asan", vg_asan_hits).kstr("asan_what", vg_asan_first).end_obj(); fprintf(out, "%s\n", w.s.c_str()); }
        fclose(out); return 0;
    }
    return 2;
}
