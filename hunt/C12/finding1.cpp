// build: g++ -std=c++11 -I/tmp/wt/C12_h/include finding1.cpp /tmp/wt/C12_h/_build/librtosc-cpp.a /tmp/wt/C12_h/_build/librtosc.a -o finding1
//
// A sub-tree that is enabled by one of its own ports - the Guide's
//   rSelf(some_parameters, rEnabledBy(i_am_enabled)), rToggle(i_am_enabled, ...)
// - can not be saved while it is disabled: walk_ports/port_is_enabled hands the
// enabling port to the walker with a "port name from base" pointer that lies
// behind the end of the path string (uninitialised stack memory), so
// get_changed_values queries the port with a garbage message.
#include <rtosc/rtosc.h>
#include <rtosc/ports.h>
#include <rtosc/savefile.h>
#include <rtosc/port-sugar.h>
#include <cstdio>
#include <cstring>
#include <string>
#include <set>
using namespace rtosc;

struct Sub { static const Ports& ports; int x = 1; bool on = false; };
struct App { static const Ports& ports; Sub s; int z = 0; };

static int bad_queries = 0, good_queries = 0;
static char first_bad[32];

#define rObject Sub
static const Ports sub_ports = {
    rSelf(Sub, rEnabledBy(on)),
    // same as rToggle(on, rDefault(false), "..."), but it checks the message
    // it is called with: a port callback always gets the rest of the path,
    // starting with its own name
    {"on::T:F", rProp(parameter) rDefault(false) rDoc("enables these parameters"), NULL,
        [](const char* msg, RtData& d) {
            Sub* obj = (Sub*)d.obj;
            if(strncmp(msg, "on", 3)) {
                if(!bad_queries++) { strncpy(first_bad, msg, 31); first_bad[31]=0; }
                d.reply(d.loc, obj->on ? "T" : "F");
                return;
            }
            ++good_queries;
            if(!*rtosc_argument_string(msg)) d.reply(d.loc, obj->on ? "T" : "F");
            else obj->on = rtosc_argument(msg, 0).T;
        }},
    rParamI(x, rDefault(1), "a parameter"),
};
#undef rObject
const Ports& Sub::ports = sub_ports;
#define rObject App
static const Ports app_ports = {
    rRecur(s, "sub-tree, enabled by s/on"),
    rParamI(z, rDefault(0), "another parameter"),
};
#undef rObject
const Ports& App::ports = app_ports;

// leave something else than zeroes on the stack, as any earlier call does
static void __attribute__((noinline)) use_stack()
{
    volatile char waste[200000];
    for(size_t i = 0; i < sizeof(waste); ++i) waste[i] = 'A';
}

int main()
{
    App a; // untouched: s.on == false, i.e. the sub-tree is disabled
    use_stack();
    std::set<std::string> written;
    std::string f = save_to_file(app_ports, &a, "app", rtosc_version{1,0,0}, written, {});
    printf("savefile of the untouched application:\n%s\n", f.c_str());
    printf("expected: the enabling port /s/on is only ever queried with the message \"on\"\n");
    printf("happened: %d well-formed queries, %d queries with a garbage message", good_queries, bad_queries);
    if(bad_queries) {
        printf(" (first one starts with bytes:");
        for(int i = 0; i < 8; ++i) printf(" %02x", (unsigned char)first_bad[i]);
        printf(")");
    }
    printf("\n");
    return bad_queries ? 1 : 0;
}
