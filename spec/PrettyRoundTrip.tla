---------------------------- MODULE PrettyRoundTrip ----------------------------
(* C10: pretty-printing is reversible.  A case is an argument list (values as bit   *)
(* patterns: 16-bit limbs, byte strings; arrays) with print options; the log holds   *)
(* what the real printer, syntax checker and scanner did with it: the printed text,  *)
(* the printer's return value, the checker's count, the bytes the scanner consumed,  *)
(* and the scanned values expanded by the real arg-val iterator.  The clauses are    *)
(* the statement of C10: return value = length of the text, checker accepts, scanner *)
(* consumes the whole text, scanned values = originals (ranges by their expansion),  *)
(* the address survives, and printing the scanned values scans back equal.           *)
(* Calibrations (part of the specification): the element type of an EMPTY array is   *)
(* not observable in the text; the text may begin with blanks (the printer may turn  *)
(* buffer[-1] into a line break) and the scan starts after them.                     *)
EXTENDS Integers, Sequences, FiniteSets, TLC, Json, IOUtils
Log == ndJsonDeserialize(IOEnv.TRACE)
VARIABLE l
NB == 64
Init == l \in {0 - b : b \in 1..NB}
Next == /\ l < 0
        /\ \E j \in 0..(Len(Log) \div NB) : LET i == j * NB + (0 - l) IN i <= Len(Log) /\ l' = i
RECURSIVE NormIn(_)
NormIn(x) == IF x.t = "a" THEN [t |-> "a", el |-> [i \in 1..Len(x.v) |-> NormIn(x.v[i])]] ELSE [t |-> x.t, v |-> x.v]
RECURSIVE NormOut(_)
NormOut(x) == IF x.t = "a" THEN [t |-> "a", el |-> [i \in 1..Len(x.el) |-> NormOut(x.el[i])]] ELSE [t |-> x.t, v |-> x.v]
INT_MIN == 0 - 2147483647 - 1
Fails(r) ==
  IF r.sig # 0 THEN {"crash_or_hang"}
  ELSE LET n == Len(r.text)
           orig == [i \in 1..Len(r.list) |-> NormIn(r.list[i])]
           got  == [i \in 1..Len(r.scanned) |-> NormOut(r.scanned[i])]
           msg  == r.addr # <<>> IN
  {k \in {"oob", "scanner_writes_more_than_counted", "printed_length", "checker_rejects", "not_all_consumed", "values_differ", "address", "reprint_differs", "wrote_before_buffer"} :
   ~ CASE k = "oob" -> r.asan = 0
       [] k = "scanner_writes_more_than_counted" -> r.extra_cells = 0
       [] k = "printed_length" -> r.ret = n
       [] k = "checker_rejects" -> r.count >= 0 \/ (r.list = <<>> /\ r.count = INT_MIN) \/ (r.list = <<>> /\ ~ msg)
       [] k = "not_all_consumed" -> r.consumed = n \/ (r.list = <<>> /\ ~ msg)
       [] k = "values_differ" -> got = orig
       [] k = "address" -> msg => r.addr = r.addr_scanned
       [] k = "reprint_differs" -> r.again_equal
       \* the byte in front of the caller's buffer is not the printer's: a list printed from column 0 has nothing in front of its first value to break the line at
       [] k = "wrote_before_buffer" -> r.before = 32 }
Judge == l < 0 \/ LET f == Fails(Log[l]) IN f = {} \/ PrintT(<<"REJECT", l, f>>)
=============================================================================
