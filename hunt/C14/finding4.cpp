// build: g++ -std=c++11 -g -I/tmp/wt/C14_h/include finding4.cpp /tmp/wt/C14_h/_build/librtosc-cpp.a /tmp/wt/C14_h/_build/librtosc.a -o finding4 && ./finding4
//
// rParam puts its own rMap(min,0) rMap(max,127) IN FRONT of the properties the
// caller passes, and metadata lookup returns the first entry of a name: a range
// declared on an rParam port (rLinear(-20,64) here) is never used for clamping.
#include <rtosc/ports.h>
#include <rtosc/port-sugar.h>
#include <cstdio>
#include <cstring>
using namespace rtosc;

struct Obj { char pan; };
#define rObject Obj
static const Ports ports = { rParam(pan, rLinear(-20, 64), "declared -20..64") };
struct Rt : RtData {
    char buf[128];
    Rt(Obj *o) { memset(buf, 0, sizeof buf); loc = buf; loc_size = sizeof buf; obj = o; }
};
static int clampi(int v, int lo, int hi) { return v < lo ? lo : v > hi ? hi : v; }

int main()
{
    Obj o; o.pan = 0;
    Rt rt(&o);
    int bad = 0;
    printf("metadata of /pan:");
    for(auto m : ports["pan"]->meta())
        if(!strcmp(m.title, "min") || !strcmp(m.title, "max")) printf(" %s=%s", m.title, m.value);
    printf("\n");
    const int in[] = {100, 64, 65, 127, -10, -20, -21, -128, 0};
    for(int v : in) {
        char m[64];
        rtosc_message(m, sizeof m, "/pan", "c", v);
        ports.dispatch(m, rt, true);
        int exp = clampi(v, -20, 64);
        printf("/pan %4d: expected stored %3d, got %3d%s\n", v, exp, o.pan, exp == o.pan ? "" : "   <-- WRONG");
        bad |= exp != o.pan;
    }
    puts(bad ? "FAIL" : "ok");
    return bad;
}
