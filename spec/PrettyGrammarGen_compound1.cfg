CONSTANTS MaxTokens = 1  SimMode = FALSE  PoolName = "compound"
INIT Init
NEXT Next
CONSTRAINT Emit
CHECK_DEADLOCK FALSE
