// build: cc -O1 -g -I/tmp/wt/C10_h/include -o finding2 finding2.c /tmp/wt/C10_h/_build/librtosc-cpp.a /tmp/wt/C10_h/_build/librtosc.a -lm
/* ---------------------------------------------------------------------------------------------
 * FINDING 2 - a list that starts with an array gets a line break in front of it; the scanner turns
 *             the leading blanks into a phantom "0h"
 *
 * Failing input (bare argument list, rtosc_print_arg_vals(..., cols_used = 0); buffer[-1] is a
 *  blank, as the header demands):
 *  A: [-1234567890 5] 6, line length 10: the text is "    [-1234567890\n    5] 6" (starts with four
 *     blanks, buffer[-1] became '\n'); checker says 4; rtosc_scan_arg_vals consumes 24 of 25 bytes
 *     and delivers 0h [-1234567890 5] - the 6 is lost.
 *  B: [a_symbol_of_more_than_20_chars], line length 20: checker says 2, the scanner writes 3 cells
 *     (0h, array head, element) - one past what the caller allocated (debug: assert(nargs) :1601).
 *  Any array whose first element crosses the line length does it: an 11-digit int with line
 *  length 10, MIDI with line length < 27, a lossless float with line length < ~25, a date with time.
 *
 * Clauses contradicted: "the scanner consumes the whole text", "the scanned values equal the
 *  originals", "reports the number of values the scanner then writes".
 *
 * Responsible code: src/cpp/pretty-format.c:662  int args_written_this_line = (cols_used) ? 1 : 0;
 *  cols_used is a POINTER here (it is an int in rtosc_print_arg_vals :728, where the line comes from),
 *  so the array code always believes that something stands on the line already and breaks the line in
 *  front of '[' (last_sep = buffer - 1, :661) when the first element is too long.
 *  Second half: rtosc_scan_arg_val does not know leading white space; scanf_fmtstr :867-879 computes
 *  an expected length of 0, the first format "%*lih%n" "matches" 0 bytes -> a zero-length 'h'.
 *
 * Repair: 4th hunk of repairs.diff (one line, also repairs finding 3):
 *   int args_written_this_line = (*cols_used && isspace((unsigned char)buffer[-1])) ? 1 : 0;
 *  Optionally let rtosc_scan_arg_vals skip leading white space like rtosc_count_printed_arg_vals (:1527).
 * --------------------------------------------------------------------------------------------- */
/* round-trip helper shared by the finding programs (same text in each of them) */
#include <stdio.h>
#include <stdlib.h>
#include <string.h>
#include <stdint.h>
#include <limits.h>
#include <unistd.h>
#include <sys/wait.h>
#include <rtosc/rtosc.h>
#include <rtosc/arg-ext.h>
#include <rtosc/arg-val-math.h>
#include <rtosc/pretty-format.h>
#include <rtosc/rtosc-time.h>

static __attribute__((unused)) int rt_cells(const rtosc_arg_val_t* a) { return a->type == 'a' ? rtosc_av_arr_len(a) + 1 : 1; }

/* expand ranges ("a ... b", "Nxa") into plain cells; <0 on nonsense */
static int rt_expand(const rtosc_arg_val_t* in, int n_in, rtosc_arg_val_t* out, int cap)
{
    int n = 0;
    for(int i = 0; i < n_in; ) {
        if(n >= cap - 1) return -1;
        if(in[i].type == '-') {
            int num = rtosc_av_rep_num(in+i), hd = rtosc_av_rep_has_delta(in+i);
            if(num <= 0 || num > 10000) return -2;
            if(hd) {
                for(int k = 0; k < num; ++k) { if(n >= cap-1) return -1; rtosc_arg_val_range_arg(in+i, k, out+n); n++; }
                i += 3;
            } else {
                int cs = rt_cells(in+i+1);
                rtosc_arg_val_t tmp[64];
                int en = rt_expand(in+i+1, cs, tmp, 64);
                if(en < 0) return en;
                for(int k = 0; k < num; ++k) { if(n + en >= cap-1) return -1; memcpy(out+n, tmp, en*sizeof(*tmp)); n += en; }
                i += 1 + cs;
            }
        } else if(in[i].type == 'a') {
            int len = rtosc_av_arr_len(in+i);
            rtosc_arg_val_t* hdr = out + n;
            *hdr = in[i];
            int en = rt_expand(in+i+1, len, out+n+1, cap-n-1);
            if(en < 0) return en;
            rtosc_av_arr_len_set(hdr, en);
            n += en + 1; i += len + 1;
        } else out[n++] = in[i++];
    }
    return n;
}
static int rt_eq(const rtosc_arg_val_t* a, int na, const rtosc_arg_val_t* b, int nb)
{
    if(na != nb) return 0;
    for(int i = 0; i < na; ++i) {
        if(a[i].type != b[i].type) return 0;
        switch(a[i].type) {
            case 'i': case 'c': case 'r': if(a[i].val.i != b[i].val.i) return 0; break;
            case 'h': if(a[i].val.h != b[i].val.h) return 0; break;
            case 't': if(a[i].val.t != b[i].val.t) return 0; break;
            case 'f': if(a[i].val.f != b[i].val.f) return 0; break;
            case 'd': if(a[i].val.d != b[i].val.d) return 0; break;
            case 's': case 'S': if(strcmp(a[i].val.s, b[i].val.s)) return 0; break;
            case 'a': if(rtosc_av_arr_len(a+i) != rtosc_av_arr_len(b+i)) return 0; break;
            default: break;
        }
    }
    return 1;
}
static __attribute__((unused)) void rt_show(const char* what, const rtosc_arg_val_t* a, int n)
{
    printf("  %s:", what);
    for(int i = 0; i < n; ++i) switch(a[i].type) {
        case 'i': printf(" %d", a[i].val.i); break;
        case 'c': printf(" '%c'", a[i].val.i); break;
        case 'h': printf(" %lldh", (long long)a[i].val.h); break;
        case 't': printf(" t:%016llx", (unsigned long long)a[i].val.t); break;
        case 's': case 'S': printf(" \"%s\"%s", a[i].val.s, a[i].type == 'S' ? "S" : ""); break;
        case 'a': printf(" [array of %d:", rtosc_av_arr_len(a+i)); break;
        case '-': printf(" <range num=%d delta=%d>", rtosc_av_rep_num(a+i), rtosc_av_rep_has_delta(a+i)); break;
        default: printf(" <%c>", a[i].type ? a[i].type : '0');
    }
    printf("\n");
}

/* One round trip, done in a child process so that a crash is reported instead of taking the program down.
   returns 0 = property holds, 1 = property violated */
static int rt_roundtrip(const char* title, const rtosc_arg_val_t* orig, int n, const rtosc_print_options* opt, int as_message)
{
    printf("%s\n", title);
    fflush(stdout);
    pid_t pid = fork();
    if(pid == 0) {
        static char pbuf_[65536 + 8]; static char sbuf[65536];
        static rtosc_arg_val_t scanned[1024], eo[4096], es[4096];
        char* pbuf = pbuf_ + 8; memset(pbuf_, ' ', 8);           /* buffer[-1] is whitespace, as the header demands */
        pbuf[0] = 0;
        int bad = 0;
        size_t wrt = as_message ? rtosc_print_message("/p", orig, n, pbuf, 65536, opt, 0)
                                : rtosc_print_arg_vals(orig, n, pbuf, 65536, opt, 0);
        printf("  printed text: <<%s>>\n", pbuf);
        if(strlen(pbuf) != wrt) { printf("  VIOLATION: printer returned %zu, text has %zu bytes\n", wrt, strlen(pbuf)); bad = 1; }
        int cnt = as_message ? rtosc_count_printed_arg_vals_of_msg(pbuf) : rtosc_count_printed_arg_vals(pbuf);
        printf("  syntax checker: %d\n", cnt);
        if(cnt < 0 || (cnt == 0 && n)) { printf("  VIOLATION: the syntax checker rejects what the printer wrote\n"); fflush(stdout); _exit(1); }
        if(cnt > 1000) _exit(1);
        for(int i = cnt; i < cnt + 8; ++i) scanned[i].type = '#';   /* canaries behind the cells the checker announced */
        fflush(stdout);
        char addr[16];
        size_t rd = as_message ? rtosc_scan_message(pbuf, addr, sizeof(addr), scanned, cnt, sbuf, sizeof(sbuf))
                               : rtosc_scan_arg_vals(pbuf, scanned, cnt, sbuf, sizeof(sbuf));
        if(rd != strlen(pbuf)) { printf("  VIOLATION: scanner consumed %zu of %zu bytes\n", rd, strlen(pbuf)); bad = 1; }
        for(int i = cnt; i < cnt + 8; ++i) if(scanned[i].type != '#') { printf("  VIOLATION: scanner wrote cell %d, checker announced only %d\n", i, cnt); bad = 1; break; }
        rt_show("scanned cells", scanned, cnt);
        int no = rt_expand(orig, n, eo, 4096), ns = rt_expand(scanned, cnt, es, 4096);
        if(ns < 0) { printf("  VIOLATION: scanned cells hold a nonsensical range\n"); bad = 1; }
        else if(!rt_eq(eo, no, es, ns)) { rt_show("expected values", eo, no); rt_show("scanned values ", es, ns); printf("  VIOLATION: scanned values differ from the originals\n"); bad = 1; }
        if(!bad) printf("  ok\n");
        fflush(stdout);
        _exit(bad);
    }
    int st = 0; waitpid(pid, &st, 0);
    if(WIFSIGNALED(st)) { printf("  VIOLATION: crashed with signal %d\n", WTERMSIG(st)); return 1; }
    return WEXITSTATUS(st) != 0;
}
static __attribute__((unused)) rtosc_arg_val_t rt_i(int32_t v) { rtosc_arg_val_t a; memset(&a, 0, sizeof(a)); a.type = 'i'; a.val.i = v; return a; }
static __attribute__((unused)) rtosc_arg_val_t rt_h(int64_t v) { rtosc_arg_val_t a; memset(&a, 0, sizeof(a)); a.type = 'h'; a.val.h = v; return a; }
static __attribute__((unused)) rtosc_arg_val_t rt_c(char v)    { rtosc_arg_val_t a; memset(&a, 0, sizeof(a)); a.type = 'c'; a.val.i = v; return a; }
static __attribute__((unused)) rtosc_arg_val_t rt_s(const char* v) { rtosc_arg_val_t a; memset(&a, 0, sizeof(a)); a.type = 's'; a.val.s = v; return a; }
static __attribute__((unused)) rtosc_arg_val_t rt_arr(char type, int len) { rtosc_arg_val_t a; memset(&a, 0, sizeof(a)); a.type = 'a'; rtosc_av_arr_type_set(&a, type); rtosc_av_arr_len_set(&a, len); return a; }
int main(void)
{
    setenv("TZ", "UTC", 1);
    int bad = 0;
    {
        rtosc_print_options opt = { true, 2, " ", 10, true };   // line length 10
        rtosc_arg_val_t v[] = { rt_arr('i', 2), rt_i(-1234567890), rt_i(5), rt_i(6) };
        bad |= rt_roundtrip("A: [-1234567890 5] 6, line length 10 (expected: text starts with '[', whole text consumed, values come back)", v, 4, &opt, 0);
    }
    {
        rtosc_print_options opt = { true, 2, " ", 20, true };   // line length 20, array alone
        rtosc_arg_val_t v[] = { rt_arr('S', 1), rt_s("a_symbol_of_more_than_20_chars") };
        v[1].type = 'S';
        bad |= rt_roundtrip("B: [a_symbol_of_more_than_20_chars] alone, line length 20 (expected: the array comes back)", v, 2, &opt, 0);
    }
    printf(bad ? "FAILED\n" : "all fine\n");
    return bad;
}
