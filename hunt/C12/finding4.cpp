// build: g++ -std=c++11 -I/tmp/wt/C12_h/include finding4.cpp /tmp/wt/C12_h/_build/librtosc-cpp.a /tmp/wt/C12_h/_build/librtosc.a -o finding4
//
// A '#N' array port whose default is written as ONE value that holds for every
// element (the Guide: "rDefault(false), // => [... NUM_COMPONENTSxfalse]";
// test/default-value.cpp: "rDefault(3), // all not yet specified values are
// set to 3") is always saved: get_changed_values() compares the single default
// value with the array of runtime values, which never compare equal.
#include <rtosc/rtosc.h>
#include <rtosc/ports.h>
#include <rtosc/savefile.h>
#include <rtosc/port-sugar.h>
#include <cstdio>
#include <string>
#include <set>
using namespace rtosc;

struct Voice { static const Ports& ports; int x = 1; bool enabled = false; };
struct App {
    static const Ports& ports;
    int level[4] = {3, 3, 3, 3};
    Voice voice[3];
};
#define rObject Voice
static const Ports voice_ports = { rParamI(x, rDefault(1), "x") };
#undef rObject
const Ports& Voice::ports = voice_ports;
#define rObject App
static const Ports app_ports = {
    rArrayI(level, 4, rDefault(3), "four levels, each one 3 by default"),
    rRecurs(voice, 3, "voices"),
    // the Guide's example for a port of the parent that tells whether a component is enabled
    {"voice#3/enabled::T:F", rProp(parameter) rDefault(false) rDoc("voice enabled"), NULL,
        rArrayTCbMember(voice, enabled)},
};
#undef rObject
const Ports& App::ports = app_ports;

int main()
{
    App a; // untouched
    std::set<std::string> written;
    std::string f = save_to_file(app_ports, &a, "app", rtosc_version{1,0,0}, written, {});
    std::string expected = "% RT OSC v0.3.1 savefile\n% app v1.0.0\n";
    {
        char v[12]; rtosc_version cur = rtosc_current_version();
        rtosc_version_print_to_12byte_str(&cur, v);
        expected = std::string("% RT OSC v") + v + " savefile\n% app v1.0.0\n";
    }
    printf("expected (untouched application, only the two header lines):\n%s\n", expected.c_str());
    printf("happened:\n%s\n", f.c_str());
    return f == expected ? 0 : 1;
}
