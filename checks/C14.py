from checks import appcommon


def run(ctx):
    ctx.rule = ("scripts on the curated application app1 (32 concrete parameters: char/int/unbounded int/float/one-sided float/toggle/option/string, "
                "preset-dependent default, int/float/toggle arrays, member sub-tree with 'enabled by', enumerated sub-trees, pointer sub-tree): every one- and "
                "two-message script of AppGen over boundary values (quick: a fifth of the two-message ones), TLC-simulated scripts of 12 messages, each followed by "
                "a query, then save + load under every permutation of the lines (<= 6 lines, 302 seeded permutations beyond) and every single-line omission; "
                "evaluations = operations judged; non-trivial = distinct script whose savefile has >= 2 lines")
    ctx.assumptions = ["one curated application; floats are multiples of 1/4; char-backed kinds driven with -128..127; unknown option symbols excluded",
                       "state equality after loading is on the reachable parameters (values hidden under a disabled sub-tree are not in the file by construction)"]
    appcommon.run(ctx, "c14:")
