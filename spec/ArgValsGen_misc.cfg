CONSTANTS MaxLen = 3  Pool = "misc"
INIT Init
NEXT Next
INVARIANT FormsLaw
CONSTRAINT Emit
CHECK_DEADLOCK FALSE
