// build: g++ -std=c++11 -I/tmp/wt/C04_h/include /tmp/wt/C04_h/findings/finding1.cpp /tmp/wt/C04_h/_build/librtosc-cpp.a /tmp/wt/C04_h/_build/librtosc.a -o /tmp/wt/C04_h/findings/finding1
//
// C04 finding 1: the LAST alternative of a ':types' specification admits every
// type tag string that merely STARTS with it ("a:i" takes ",ii", ",if", ...),
// while every other alternative must be matched exactly.  So whether ",ii" is
// admitted by {i,f} depends on the order the alternatives are written in.
#include <rtosc/ports.h>
#include <rtosc/rtosc.h>
#include <cstdio>
#include <cstring>
using namespace rtosc;

static int hits[4];
#define CB(n) [](msg_t, RtData &) { hits[n]++; }

int main()
{
    // no '#', distinct names -> the library picks the hashed lookup when a
    // location buffer is given, the linear rtosc_match() loop otherwise
    Ports ports = {
        {"a:i",   "", NULL, CB(0)},   // only ",i"
        {"b:i:f", "", NULL, CB(1)},   // ",i" or ",f"
        {"c:f:i", "", NULL, CB(2)},   // the same set, other order
        {"d:i:",  "", NULL, CB(3)},   // ",i" or no argument
    };
    const char *addr[4] = {"/a", "/b", "/c", "/d"};
    int bad = 0;
    for(int with_loc = 0; with_loc < 2; ++with_loc) {
        for(int p = 0; p < 4; ++p) {
            char msg[64], loc[64];
            rtosc_message(msg, sizeof(msg), addr[p], "ii", 1, 2);
            RtData d;
            if(with_loc) { d.loc = loc; d.loc_size = sizeof(loc); }
            memset(hits, 0, sizeof(hits));
            ports.dispatch(msg, d, true);
            int n = hits[0] + hits[1] + hits[2] + hits[3];
            printf("%-4s ,ii -> port \"%s\"  %s: expected 0 callbacks, got %d%s\n",
                   addr[p], ports.ports[p].name,
                   with_loc ? "with loc (hashed)" : "no loc  (linear)", n,
                   n ? "   <-- WRONG" : "");
            bad += n;
        }
    }
    // the C entry point on its own
    char msg[64];
    rtosc_message(msg, sizeof(msg), "x", "ii", 1, 2);
    bool m1 = rtosc_match("x:i:f", msg, NULL), m2 = rtosc_match("x:f:i", msg, NULL);
    printf("rtosc_match(\"x:i:f\", x,ii) = %d, rtosc_match(\"x:f:i\", x,ii) = %d "
           "(expected 0 and 0)\n", m1, m2);
    bad += m1 + m2;
    if(bad) { printf("FAIL: non-admitted type tags were dispatched\n"); return 1; }
    printf("ok\n");
    return 0;
}
