// build: cc -O1 -g -I/tmp/wt/C10_h/include -o finding4 finding4.c /tmp/wt/C10_h/_build/librtosc-cpp.a /tmp/wt/C10_h/_build/librtosc.a -lm
/* ---------------------------------------------------------------------------------------------
 * FINDING 4 - the syntax checker looks for "..." in the TEXT of the previous value
 *
 * Failing input (compression on):
 *  A:  s:"... 3 "  i: 5 6 7 8 9 10  -> printed "\"... 3 \" 5 ... 10"; the checker returns -2 (it takes
 *      the 3 out of the string as the value left of 5, derives delta 2, and 5+2n never hits 10;
 *      "5 ... 9" happens to divide and passes).
 *  A2: message /p "see ... 'a' " 'c' ... 'h' - rejected the same way.
 *  B:  a time tag with a fraction followed by a run: 2001-09-09 01:46:40.5  5 6 7 8 9 -> printed
 *      "2001-09-09 01:46:40.500 (...+0x1p-1s) 5 ... 9". The checker continues behind the "..." of the
 *      lossless part, cannot parse "+0x1p-1s)", and then compares the UNINITIALISED llhstype
 *      (declared :1377, read :1453; MemorySanitizer: use-of-uninitialized-value in types_match).
 *      If the stale byte equals the run's type, rtosc_scan_arg_val("+0x1p-1s) ...") is called, where
 *      scanf_fmtstr returns NULL: assert(buf) :896 in debug builds, fast_strcpy(bytes16, NULL, 16)
 *      -> SIGSEGV otherwise. This program paints the stack with 'i' / 'c' first and gets the SIGSEGV
 *      from the release library every time; a random tester hit it unpainted 3 times in 30000 lists
 *      (a time tag, or a symbol like "Snil...\"S]/"S, in front of a run).
 *
 * Clause contradicted: "the syntax checker accepts it" (A, A2); crash / uninitialised read in the
 *  checker (B). Strings are printable ASCII, the fraction 0.5 is float-representable.
 *
 * Responsible code: src/cpp/pretty-format.c:1438-1444 strstr(llhssrc, "...") on the raw text of the
 *  previous argument; :1377 llhstype without a value; :1450-1453 failed parse not noticed.
 *
 * Repair: hunks 5 and 6 of repairs.diff: find the previous range's ellipsis by skipping its first
 *  value (rtosc_skip_next_printed_arg) instead of searching the text, and initialise llhstype.
 * --------------------------------------------------------------------------------------------- */
/* round-trip helper shared by the finding programs (same text in each of them) */
#include <stdio.h>
#include <stdlib.h>
#include <string.h>
#include <stdint.h>
#include <limits.h>
#include <unistd.h>
#include <sys/wait.h>
#include <rtosc/rtosc.h>
#include <rtosc/arg-ext.h>
#include <rtosc/arg-val-math.h>
#include <rtosc/pretty-format.h>
#include <rtosc/rtosc-time.h>

static __attribute__((unused)) int rt_cells(const rtosc_arg_val_t* a) { return a->type == 'a' ? rtosc_av_arr_len(a) + 1 : 1; }

/* expand ranges ("a ... b", "Nxa") into plain cells; <0 on nonsense */
static int rt_expand(const rtosc_arg_val_t* in, int n_in, rtosc_arg_val_t* out, int cap)
{
    int n = 0;
    for(int i = 0; i < n_in; ) {
        if(n >= cap - 1) return -1;
        if(in[i].type == '-') {
            int num = rtosc_av_rep_num(in+i), hd = rtosc_av_rep_has_delta(in+i);
            if(num <= 0 || num > 10000) return -2;
            if(hd) {
                for(int k = 0; k < num; ++k) { if(n >= cap-1) return -1; rtosc_arg_val_range_arg(in+i, k, out+n); n++; }
                i += 3;
            } else {
                int cs = rt_cells(in+i+1);
                rtosc_arg_val_t tmp[64];
                int en = rt_expand(in+i+1, cs, tmp, 64);
                if(en < 0) return en;
                for(int k = 0; k < num; ++k) { if(n + en >= cap-1) return -1; memcpy(out+n, tmp, en*sizeof(*tmp)); n += en; }
                i += 1 + cs;
            }
        } else if(in[i].type == 'a') {
            int len = rtosc_av_arr_len(in+i);
            rtosc_arg_val_t* hdr = out + n;
            *hdr = in[i];
            int en = rt_expand(in+i+1, len, out+n+1, cap-n-1);
            if(en < 0) return en;
            rtosc_av_arr_len_set(hdr, en);
            n += en + 1; i += len + 1;
        } else out[n++] = in[i++];
    }
    return n;
}
static int rt_eq(const rtosc_arg_val_t* a, int na, const rtosc_arg_val_t* b, int nb)
{
    if(na != nb) return 0;
    for(int i = 0; i < na; ++i) {
        if(a[i].type != b[i].type) return 0;
        switch(a[i].type) {
            case 'i': case 'c': case 'r': if(a[i].val.i != b[i].val.i) return 0; break;
            case 'h': if(a[i].val.h != b[i].val.h) return 0; break;
            case 't': if(a[i].val.t != b[i].val.t) return 0; break;
            case 'f': if(a[i].val.f != b[i].val.f) return 0; break;
            case 'd': if(a[i].val.d != b[i].val.d) return 0; break;
            case 's': case 'S': if(strcmp(a[i].val.s, b[i].val.s)) return 0; break;
            case 'a': if(rtosc_av_arr_len(a+i) != rtosc_av_arr_len(b+i)) return 0; break;
            default: break;
        }
    }
    return 1;
}
static __attribute__((unused)) void rt_show(const char* what, const rtosc_arg_val_t* a, int n)
{
    printf("  %s:", what);
    for(int i = 0; i < n; ++i) switch(a[i].type) {
        case 'i': printf(" %d", a[i].val.i); break;
        case 'c': printf(" '%c'", a[i].val.i); break;
        case 'h': printf(" %lldh", (long long)a[i].val.h); break;
        case 't': printf(" t:%016llx", (unsigned long long)a[i].val.t); break;
        case 's': case 'S': printf(" \"%s\"%s", a[i].val.s, a[i].type == 'S' ? "S" : ""); break;
        case 'a': printf(" [array of %d:", rtosc_av_arr_len(a+i)); break;
        case '-': printf(" <range num=%d delta=%d>", rtosc_av_rep_num(a+i), rtosc_av_rep_has_delta(a+i)); break;
        default: printf(" <%c>", a[i].type ? a[i].type : '0');
    }
    printf("\n");
}

/* One round trip, done in a child process so that a crash is reported instead of taking the program down.
   returns 0 = property holds, 1 = property violated */
static int rt_roundtrip(const char* title, const rtosc_arg_val_t* orig, int n, const rtosc_print_options* opt, int as_message)
{
    printf("%s\n", title);
    fflush(stdout);
    pid_t pid = fork();
    if(pid == 0) {
        static char pbuf_[65536 + 8]; static char sbuf[65536];
        static rtosc_arg_val_t scanned[1024], eo[4096], es[4096];
        char* pbuf = pbuf_ + 8; memset(pbuf_, ' ', 8);           /* buffer[-1] is whitespace, as the header demands */
        pbuf[0] = 0;
        int bad = 0;
        size_t wrt = as_message ? rtosc_print_message("/p", orig, n, pbuf, 65536, opt, 0)
                                : rtosc_print_arg_vals(orig, n, pbuf, 65536, opt, 0);
        printf("  printed text: <<%s>>\n", pbuf);
        if(strlen(pbuf) != wrt) { printf("  VIOLATION: printer returned %zu, text has %zu bytes\n", wrt, strlen(pbuf)); bad = 1; }
        int cnt = as_message ? rtosc_count_printed_arg_vals_of_msg(pbuf) : rtosc_count_printed_arg_vals(pbuf);
        printf("  syntax checker: %d\n", cnt);
        if(cnt < 0 || (cnt == 0 && n)) { printf("  VIOLATION: the syntax checker rejects what the printer wrote\n"); fflush(stdout); _exit(1); }
        if(cnt > 1000) _exit(1);
        for(int i = cnt; i < cnt + 8; ++i) scanned[i].type = '#';   /* canaries behind the cells the checker announced */
        fflush(stdout);
        char addr[16];
        size_t rd = as_message ? rtosc_scan_message(pbuf, addr, sizeof(addr), scanned, cnt, sbuf, sizeof(sbuf))
                               : rtosc_scan_arg_vals(pbuf, scanned, cnt, sbuf, sizeof(sbuf));
        if(rd != strlen(pbuf)) { printf("  VIOLATION: scanner consumed %zu of %zu bytes\n", rd, strlen(pbuf)); bad = 1; }
        for(int i = cnt; i < cnt + 8; ++i) if(scanned[i].type != '#') { printf("  VIOLATION: scanner wrote cell %d, checker announced only %d\n", i, cnt); bad = 1; break; }
        rt_show("scanned cells", scanned, cnt);
        int no = rt_expand(orig, n, eo, 4096), ns = rt_expand(scanned, cnt, es, 4096);
        if(ns < 0) { printf("  VIOLATION: scanned cells hold a nonsensical range\n"); bad = 1; }
        else if(!rt_eq(eo, no, es, ns)) { rt_show("expected values", eo, no); rt_show("scanned values ", es, ns); printf("  VIOLATION: scanned values differ from the originals\n"); bad = 1; }
        if(!bad) printf("  ok\n");
        fflush(stdout);
        _exit(bad);
    }
    int st = 0; waitpid(pid, &st, 0);
    if(WIFSIGNALED(st)) { printf("  VIOLATION: crashed with signal %d\n", WTERMSIG(st)); return 1; }
    return WEXITSTATUS(st) != 0;
}
static __attribute__((unused)) rtosc_arg_val_t rt_i(int32_t v) { rtosc_arg_val_t a; memset(&a, 0, sizeof(a)); a.type = 'i'; a.val.i = v; return a; }
static __attribute__((unused)) rtosc_arg_val_t rt_h(int64_t v) { rtosc_arg_val_t a; memset(&a, 0, sizeof(a)); a.type = 'h'; a.val.h = v; return a; }
static __attribute__((unused)) rtosc_arg_val_t rt_c(char v)    { rtosc_arg_val_t a; memset(&a, 0, sizeof(a)); a.type = 'c'; a.val.i = v; return a; }
static __attribute__((unused)) rtosc_arg_val_t rt_s(const char* v) { rtosc_arg_val_t a; memset(&a, 0, sizeof(a)); a.type = 's'; a.val.s = v; return a; }
static __attribute__((unused)) rtosc_arg_val_t rt_arr(char type, int len) { rtosc_arg_val_t a; memset(&a, 0, sizeof(a)); a.type = 'a'; rtosc_av_arr_type_set(&a, type); rtosc_av_arr_len_set(&a, len); return a; }
static rtosc_arg_val_t rt_t(uint64_t secs, uint32_t frac) { rtosc_arg_val_t a; memset(&a, 0, sizeof(a)); a.type = 't'; a.val.t = (secs << 32) | frac; return a; }

static __attribute__((noinline)) void paint_stack(char c)
{
    volatile char junk[16384];
    for(size_t i = 0; i < sizeof(junk); ++i) junk[i] = c;
}
static int checker_with_painted_stack(const char* title, const rtosc_arg_val_t* v, int n, char paint)
{
    printf("%s\n", title); fflush(stdout);
    pid_t pid = fork();
    if(pid == 0) {
        static char pbuf_[4096]; char* pbuf = pbuf_ + 8; memset(pbuf_, ' ', 8);
        rtosc_print_options opt = { true, 3, " ", 80, true };
        rtosc_print_arg_vals(v, n, pbuf, 4000, &opt, 0);
        printf("  printed text: <<%s>>\n", pbuf); fflush(stdout);
        paint_stack(paint);
        int cnt = rtosc_count_printed_arg_vals(pbuf);
        printf("  syntax checker: %d\n", cnt); fflush(stdout);
        _exit(cnt > 0 ? 0 : 1);
    }
    int st = 0; waitpid(pid, &st, 0);
    if(WIFSIGNALED(st)) { printf("  VIOLATION: the syntax checker crashed with signal %d\n", WTERMSIG(st)); return 1; }
    if(WEXITSTATUS(st)) { printf("  VIOLATION: the syntax checker rejects what the printer wrote\n"); return 1; }
    printf("  ok (this time)\n");
    return 0;
}
int main(void)
{
    setenv("TZ", "UTC", 1);
    rtosc_print_options opt = { true, 2, " ", 80, true };
    int bad = 0;
    {
        rtosc_arg_val_t v[] = { rt_s("... 3 "), rt_i(5), rt_i(6), rt_i(7), rt_i(8), rt_i(9), rt_i(10) };
        bad |= rt_roundtrip("A: \"... 3 \" 5 6 7 8 9 10 (expected: checker says 4, string and six ints come back)", v, 7, &opt, 0);
    }
    {
        rtosc_arg_val_t v[] = { rt_s("see ... 'a' "), rt_c('c'), rt_c('d'), rt_c('e'), rt_c('f'), rt_c('g'), rt_c('h') };
        bad |= rt_roundtrip("A2: \"see ... 'a' \" 'c' 'd' 'e' 'f' 'g' 'h' as message (expected: accepted)", v, 7, &opt, 1);
    }
    {
        rtosc_arg_val_t v[] = { rt_t(1000000000u, 0x80000000u), rt_i(5), rt_i(6), rt_i(7), rt_i(8), rt_i(9) };
        bad |= checker_with_painted_stack("B: time tag 2001-09-09 01:46:40.5 followed by 5 6 7 8 9, stack painted with 'i' (expected: checker says 4)", v, 6, 'i');
        rtosc_arg_val_t w[] = { rt_t(1000000000u, 0x80000000u), rt_c('a'), rt_c('b'), rt_c('c'), rt_c('d'), rt_c('e') };
        bad |= checker_with_painted_stack("B2: the same time tag followed by 'a' 'b' 'c' 'd' 'e', stack painted with 'c' (expected: checker says 4)", w, 6, 'c');
    }
    printf(bad ? "FAILED\n" : "all fine\n");
    return bad;
}
