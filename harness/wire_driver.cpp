// Conformance driver for the OSC wire family (C01 C02 C07 C08).
// Runs the real rtosc functions on abstract inputs (from TLC's enumeration or from
// its own seeded generator) and logs input + observation as one JSON line each;
// the judgement is made by TLC (spec/OscWireTrace.tla), not here.
//
//   wire_driver <mode> in <vectors.ndjson> <out.ndjson>
//   wire_driver <mode> random <seed> <count> <out.ndjson>
// modes: msg (C01)  cap (C02)  bundle (C08)  bytes (C07)
#include "oscmsg.hpp"
#include "vguard.hpp"
#include <algorithm>

static size_t build_a(const AMsg &m, char *buf, size_t cap) {
    auto ra = amsg_args(m);
    return rtosc_amessage(buf, cap, m.addr.c_str(), m.tags().c_str(), ra.data());
}
static size_t build_v(const AMsg &m, char *buf, size_t cap, bool &faithful) {
    VaSlots vs = amsg_va_slots(m); faithful = vs.faithful;
    return call_vmessage(buf, cap, m.addr.c_str(), m.tags().c_str(), vs.slots);
}
static size_t build_av(const AMsg &m, char *buf, size_t cap) {
    std::vector<rtosc_arg_val_t> av; auto ra = amsg_args(m); size_t k = 0;
    for (auto &a : m.args) { rtosc_arg_val_t x; memset(&x, 0, sizeof x); x.type = a.t;
        if (tag_has_payload(a.t)) x.val = ra[k++]; else if (a.t == 'T') x.val.T = 1;
        av.push_back(x); }
    return rtosc_avmessage(buf, cap, m.addr.c_str(), av.size(), av.data());
}

// ---------------------------------------------------------------- C01
static void accessors(JW &w, const char *m, size_t n, unsigned nv) {
    w.knum("mlen", (long long)rtosc_message_length(m, n));
    const char *as = rtosc_argument_string(m);
    w.kbytes("argstr", (const uint8_t *)as, strlen(as));
    w.knum("nargs", rtosc_narguments(m));
    w.key("types").arr(); for (unsigned i = 0; i < nv; ++i) w.num((unsigned char)rtosc_type(m, i)); w.end_arr();
    w.key("vals").arr(); for (unsigned i = 0; i < nv; ++i) { char t = rtosc_type(m, i); obs_val(w, t, rtosc_argument(m, i)); } w.end_arr();
    rtosc_arg_itr_t it = rtosc_itr_begin(m); unsigned cnt = 0;
    w.key("itr").arr();
    while (!rtosc_itr_end(it) && cnt < nv + 4) { rtosc_arg_val_t v = rtosc_itr_next(&it); w.obj().knum("t", (unsigned char)v.type).key("v"); obs_val(w, v.type, v.val); w.end_obj(); cnt++; }
    w.end_arr();
    w.kbool("itr_end", rtosc_itr_end(it) != 0);
}
static void do_msg(const AMsg &m, FILE *out) {
    JW w; w.obj().kstr("k", "msg"); amsg_to_json(w, m);
    unsigned nv = 0; for (auto &a : m.args) if (a.t != '[' && a.t != ']') nv++;
    std::string acc; int sig = 0; int hits = 0; std::string first;
    sig = vg_run(5, [&] {
        size_t need = build_a(m, NULL, 0);
        w.knum("sizeq", (long long)need);
        size_t cap = need + 16;
        std::vector<char> b1(cap, (char)0xA5), b2(cap, (char)0xA5), b3(cap, (char)0xA5);
        size_t r1 = build_a(m, b1.data(), cap);
        w.knum("ret_a", (long long)r1).kbytes("bytes", (const uint8_t *)b1.data(), std::min(r1, cap));
        bool faithful = true; size_t r2 = build_v(m, b2.data(), cap, faithful);
        w.kbool("v_done", faithful).knum("ret_v", (long long)r2).kbool("eq_v", r2 == r1 && !memcmp(b1.data(), b2.data(), std::min(r1, cap)));
        bool avok = !m.has_brackets();
        size_t r3 = avok ? build_av(m, b3.data(), cap) : 0;
        w.kbool("av_done", avok).knum("ret_av", (long long)r3).kbool("eq_av", avok && r3 == r1 && !memcmp(b1.data(), b3.data(), std::min(r1, cap)));
        bool tail = true; for (size_t i = r1; i < cap; ++i) if ((unsigned char)b1[i] != 0xA5) tail = false;
        w.kbool("tail_ok", tail);
        if (r1 > 0 && r1 <= cap) { FlushBuf fb(r1); memcpy(fb.p, b1.data(), r1); w.kbool("acc", true); accessors(w, (const char *)fb.p, r1, nv); }
        else w.kbool("acc", false);
    });
    hits = vg_asan_hits; first = vg_asan_first;
    if (sig) { // the writer may be mid-structure: emit a minimal record instead
        JW e; e.obj().kstr("k", "msg"); amsg_to_json(e, m); e.knum("sig", sig).knum("asan", hits).kstr("asan_what", first).end_obj();
        fprintf(out, "%s\n", e.s.c_str()); return;
    }
    w.knum("sig", 0).knum("asan", hits).kstr("asan_what", first).end_obj();
    fprintf(out, "%s\n", w.s.c_str());
}

// ---------------------------------------------------------------- C02
// one record per message: for every capacity 0..need+8 the return value, whether
// [0,cap) is all zero, whether [0,ret) equals the reference bytes, whether the
// guard zone behind the buffer is intact, and ASan reports.
static void do_cap(const AMsg &m, FILE *out) {
    JW w; w.obj().kstr("k", "cap"); amsg_to_json(w, m);
    int sig = vg_run(20, [&] {
        size_t need = build_a(m, NULL, 0);
        w.knum("sizeq", (long long)need);
        std::vector<char> ref(need + 16, 0); size_t rr = build_a(m, ref.data(), need + 16);
        w.knum("ret_big", (long long)rr).kbytes("bytes", (const uint8_t *)ref.data(), std::min(rr, need + 16));
        std::string which[3] = {"a", "v", "av"};
        for (int c = 0; c < 3; ++c) {
            if (c == 2 && m.has_brackets()) continue;
            std::vector<long long> rets; std::vector<int> zero, eq, guard, asan;
            for (size_t cap = 0; cap <= need + 8; ++cap) {
                FlushBuf fb(cap + 8); memset(fb.p, 0xA5, cap + 8);      // 8 explicit guard bytes, then the poisoned red zone
                int h0 = vg_asan_hits; size_t r; bool f = true;
                if (c == 0) r = build_a(m, (char *)fb.p, cap); else if (c == 1) r = build_v(m, (char *)fb.p, cap, f); else r = build_av(m, (char *)fb.p, cap);
                rets.push_back((long long)r);
                bool z = true; for (size_t i = 0; i < cap; ++i) if (fb.p[i]) z = false; zero.push_back(z);
                eq.push_back(r <= cap && r == rr && !memcmp(fb.p, ref.data(), r));
                bool g = true; for (size_t i = cap; i < cap + 8; ++i) if (fb.p[i] != 0xA5) g = false; guard.push_back(g);
                asan.push_back(vg_asan_hits - h0);
            }
            w.key(("rets_" + which[c]).c_str()).arr(); for (auto x : rets) w.num(x); w.end_arr();
            w.key(("zero_" + which[c]).c_str()).arr(); for (auto x : zero) w.boolean(x); w.end_arr();
            w.key(("eq_" + which[c]).c_str()).arr(); for (auto x : eq) w.boolean(x); w.end_arr();
            w.key(("guard_" + which[c]).c_str()).arr(); for (auto x : guard) w.boolean(x); w.end_arr();
            w.key(("asan_" + which[c]).c_str()).arr(); for (auto x : asan) w.num(x); w.end_arr();
        }
        w.kbool("av_done", !m.has_brackets());
    });
    if (sig) { JW e; e.obj().kstr("k", "cap"); amsg_to_json(e, m); e.knum("sig", sig).kstr("asan_what", vg_asan_first).end_obj(); fprintf(out, "%s\n", e.s.c_str()); return; }
    w.knum("sig", 0).kstr("asan_what", vg_asan_first).end_obj();
    fprintf(out, "%s\n", w.s.c_str());
}

int main(int argc, char **argv) {
    vg_init();
    if (argc < 5) { fprintf(stderr, "usage\n"); return 2; }
    std::string mode = argv[1], src = argv[2];
    FILE *out = nullptr;
    std::vector<AMsg> msgs;
    if (src == "in") {
        FILE *f = fopen(argv[3], "r"); if (!f) { perror(argv[3]); return 2; }
        out = fopen(argv[4], "w");
        std::string line;
        while (read_line(f, line)) { if (line.empty()) continue; J j = jparse(line);
            if (mode == "msg") do_msg(amsg_from_json(j), out);
            else if (mode == "cap") do_cap(amsg_from_json(j), out);
        }
        fclose(f);
    } else {
        uint64_t seed = strtoull(argv[3], 0, 10); long count = atol(argv[4]); out = fopen(argv[5], "w");
        MsgGen g(seed * 2654435761u + 17);
        for (long i = 0; i < count; ++i) {
            // sizes: mostly small, sometimes up to the property's stated bounds
            bool big = g.R(10) == 0;
            AMsg m = g.msg(big ? 40 : 6, big ? 64 : 9, big ? 40 : 9);
            if (mode == "msg") do_msg(m, out);
            else if (mode == "cap") do_cap(m, out);
        }
    }
    fclose(out);
    return 0;
}
