// build (in findings/): g++ -std=c++11 -I../include finding5.cpp ../_build/librtosc-cpp.a ../_build/librtosc.a -o finding5
// A parameter declared with the library's plain rParam() macro has type 'c'
// ("vol::c", min 0, max 127). Bound to a slot it is sent 'i' messages, which
// the port does not accept: the parameter is never changed.
#include <rtosc/ports.h>
#include <rtosc/automations.h>
#include <rtosc/port-sugar.h>
#include <cstdio>
struct D { unsigned char vol; };
#define rObject D
static rtosc::Ports ports = { rParam(vol, "volume") };
static char type;
int main()
{
    D d = {0};
    int matches = 0;
    rtosc::AutomationMgr m(2, 1, 16);
    m.set_ports(ports);
    m.backend = [&](const char *msg){
        type = *rtosc_argument_string(msg);
        rtosc::RtData rd; char loc[128]; rd.loc = loc; rd.loc_size = sizeof(loc); rd.obj = &d;
        rd.matches = 0; ports.dispatch(msg, rd, true); matches = rd.matches; };
    m.createBinding(0, "/vol", false);
    m.setSlot(0, 1.0f);
    printf("port is '%s'\n", ports.ports[0].name);
    printf("expected: a 'c' message that the port accepts, vol = 127\n");
    printf("got     : a '%c' message, accepted by %d port(s), vol = %d\n", type, matches, d.vol);
    int bad = type != 'c' || matches != 1 || d.vol != 127;
    printf(bad ? "FAIL\n" : "ok\n");
    return bad;
}
