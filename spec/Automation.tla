---------------------------- MODULE Automation ----------------------------
(* rtosc::AutomationMgr: automation slots with sub-automations bound to parameters, *)
(* the MIDI-learn queue, controller / NRPN handling and the value mapping.           *)
(* One action per public call.  The learn queue is specified as the statement of C19 *)
(* intends it - slots are served in the order in which they asked, clearing an       *)
(* unrelated slot disturbs nothing - not as the renumbering trick of the code.       *)
(*                                                                                   *)
(* Numbers: every quantity is an integer scaled by SC = 128.  Slot values are k/8,   *)
(* gains multiples of 50 %, offsets multiples of 25 %, parameter bounds multiples of *)
(* 1/4; on these the float arithmetic of the code is exact, so the specification's   *)
(* value is THE value (log-scale parameters are only judged for range/monotonicity). *)
EXTENDS Integers, Sequences, FiniteSets, TLC
CONSTANTS NSlots, PerSlot, Params, PosValues, NegValues, PosGains, NegGains, PosOffsets, NegOffsets, CCs, MaxOps, Bug
\* (a configuration file cannot spell negative numbers: the Neg* sets hold the magnitudes)
Values == PosValues \cup { 0 - v : v \in NegValues }
Gains == PosGains \cup { 0 - g : g \in NegGains }
Offsets == PosOffsets \cup { 0 - o : o \in NegOffsets }
SC == 128
\* parameter table: kind "i" | "f" | "l" (log float) | "T"; lo/hi scaled by SC
PInfo(p) == CASE p = "/i" -> [ty |-> "i", lo |-> 0,         hi |-> 127 * SC, log |-> FALSE]
              [] p = "/c" -> [ty |-> "c", lo |-> 0,         hi |-> 127 * SC, log |-> FALSE]      \* an rParam port (char, 0..127): its messages carry the type 'c'
              [] p = "/n" -> [ty |-> "i", lo |-> 0 - 64 * SC, hi |-> 63 * SC,  log |-> FALSE]
              [] p = "/f" -> [ty |-> "f", lo |-> 0 - 320,    hi |-> 1312,     log |-> FALSE]      \* -2.5 .. 10.25
              [] p = "/l" -> [ty |-> "f", lo |-> 0,          hi |-> 0,        log |-> TRUE]       \* 0.01 .. 100, log scale
              [] p = "/m" -> [ty |-> "i", lo |-> SC,         hi |-> 1000 * SC, log |-> TRUE]      \* an INTEGER parameter on a log scale, 1 .. 1000
              [] p = "/t" -> [ty |-> "T", lo |-> 0,          hi |-> SC,       log |-> FALSE]
Slots == 1..NSlots
Subs == 1..PerSlot
NONE == 0 - 1
NoSub == [used |-> FALSE, p |-> "", gain |-> 100, offset |-> 0, a |-> 0, b |-> 0]
VARIABLES slot,      \* slot[s] = [used, cc, nrpn]
          sub,       \* sub[s][j] = [used, p, gain, offset, a, b]  (a, b: control points, scaled)
          reqs,      \* the learn queue: slots waiting for a controller, oldest first
          nrpn,      \* NRPN assembly state [parhi, parlo, valhi, vallo], NONE = unset
          out,       \* messages emitted by the last call: Seq([p, ty, v]) (v scaled; T/F: 1/0)
          ops, step,
          asked      \* ghost: the slots that asked for MIDI learn and were neither served nor cleared since, in the order in which they asked
vars == <<slot, sub, reqs, nrpn, out, ops, step, asked>>
Init == /\ slot = [s \in Slots |-> [used |-> FALSE, cc |-> NONE, nrpn |-> NONE]]
        /\ sub = [s \in Slots |-> [j \in Subs |-> NoSub]]
        /\ reqs = <<>> /\ nrpn = [parhi |-> NONE, parlo |-> NONE, valhi |-> NONE, vallo |-> NONE]
        /\ out = <<>> /\ ops = 0 /\ step = [op |-> "init"] /\ asked = <<>>
Rank(s) == IF \E i \in 1..Len(reqs) : reqs[i] = s THEN CHOOSE i \in 1..Len(reqs) : reqs[i] = s ELSE NONE
Tick == ops < MaxOps /\ ops' = ops + 1
\* ------------------------------------------------------------------ value mapping
Points(p, gain, offset) ==       \* control points a (at slot value 0) and b (at 1), scaled by SC; exact for the generated numbers
  LET i == PInfo(p)
      center == ((i.lo + i.hi) * (50 + offset)) \div 100
      half == ((i.hi - i.lo) * gain) \div 200 IN
  [a |-> center - half, b |-> center + half]
Clamp(x, lo, hi) == IF x > hi THEN hi ELSE IF x < lo THEN lo ELSE x
RoundHalfAway(n) == IF n >= 0 THEN (n + SC \div 2) \div SC ELSE 0 - ((0 - n + SC \div 2) \div SC)
\* value: slot value in eighths.  Result scaled by SC (ints: the integer times SC; toggles 0 / 1)
Emit(u, value8) ==
  LET i == PInfo(u.p)
      raw == (value8 * (u.b - u.a)) \div 8 + u.a IN          \* exact: (b - a) is a multiple of 8 / SC-units by construction
  IF i.ty = "T" THEN [p |-> u.p, ty |-> (IF raw * 2 > SC THEN "T" ELSE "F"), v |-> (IF raw * 2 > SC THEN 1 ELSE 0)]
  ELSE IF i.log THEN [p |-> u.p, ty |-> i.ty, v |-> 0]              \* log scale: value not specified here (range and monotonicity are judged on the trace)
  ELSE IF i.ty \in {"i", "c"} THEN [p |-> u.p, ty |-> i.ty, v |-> RoundHalfAway(Clamp(raw, i.lo, i.hi)) * SC]
  ELSE [p |-> u.p, ty |-> "f", v |-> Clamp(raw, i.lo, i.hi)]
SetSlotOut(s, value8) == LET js == SelectSeq([j \in Subs |-> j], LAMBDA j : sub[s][j].used) IN
                         [k \in 1..Len(js) |-> Emit(sub[s][js[k]], value8)]
\* ------------------------------------------------------------------ calls
FreeSub(s) == IF \E j \in Subs : ~ sub[s][j].used THEN CHOOSE j \in Subs : ~ sub[s][j].used /\ \A k \in 1..(j - 1) : sub[s][k].used ELSE 0
CreateBinding(s, p, learn) ==
  /\ Tick /\ out' = <<>> /\ step' = [op |-> "create", s |-> s, p |-> p, learn |-> learn]
  /\ LET j == FreeSub(s) IN
     IF j = 0 THEN UNCHANGED <<slot, sub, reqs, asked>>
     ELSE LET pts == Points(p, 100, 0) IN
          /\ sub' = [sub EXCEPT ![s][j] = [used |-> TRUE, p |-> p, gain |-> 100, offset |-> 0, a |-> pts.a, b |-> pts.b]]
          /\ slot' = [slot EXCEPT ![s].used = TRUE]
          /\ reqs' = IF learn /\ Rank(s) = NONE /\ slot[s].cc = NONE
                     THEN (IF Bug = "lifo" THEN <<s>> \o reqs ELSE Append(reqs, s)) ELSE reqs
          /\ asked' = IF learn /\ Rank(s) = NONE /\ slot[s].cc = NONE THEN Append(asked, s) ELSE asked
  /\ UNCHANGED nrpn
ClearSlot(s) ==
  /\ Tick /\ out' = <<>> /\ step' = [op |-> "clear", s |-> s]
  /\ slot' = [slot EXCEPT ![s] = [used |-> FALSE, cc |-> NONE, nrpn |-> NONE]]
  /\ sub' = [sub EXCEPT ![s] = [j \in Subs |-> NoSub]]
  /\ reqs' = IF Bug = "clear_disturbs" /\ Rank(s) = NONE /\ reqs # <<>> THEN Tail(reqs)      \* (mutant: an unrelated clear loses the oldest request)
             ELSE SelectSeq(reqs, LAMBDA t : t # s)
  /\ asked' = SelectSeq(asked, LAMBDA t : t # s)
  /\ UNCHANGED nrpn
ClearSlotSub(s, j) ==
  /\ Tick /\ out' = <<>> /\ step' = [op |-> "clearsub", s |-> s, j |-> j]
  /\ sub' = [sub EXCEPT ![s][j] = NoSub]
  /\ UNCHANGED <<slot, reqs, nrpn, asked>>
SetGainOffset(s, j, g, o) ==      \* setSlotSubGain + setSlotSubOffset + updateMapping
  /\ Tick /\ out' = <<>> /\ step' = [op |-> "map", s |-> s, j |-> j, gain |-> g, offset |-> o]
  /\ IF sub[s][j].used
     THEN LET pts == Points(sub[s][j].p, g, o) IN
          sub' = [sub EXCEPT ![s][j].gain = g, ![s][j].offset = o, ![s][j].a = pts.a, ![s][j].b = pts.b]
     ELSE sub' = [sub EXCEPT ![s][j].gain = g, ![s][j].offset = o]      \* an unbound sub-automation remembers the numbers; they shape nothing until it is bound
  /\ UNCHANGED <<slot, reqs, nrpn, asked>>
\* setSlotSubPath: bind sub-automation j of slot s to a parameter directly; unlike createBinding it KEEPS the gain and offset the
\* sub-automation holds (the mapping is recomputed from them), never touches the learn queue, and rebinds a used sub-automation
SetSubPath(s, j, p) ==
  /\ Tick /\ out' = <<>> /\ step' = [op |-> "path", s |-> s, j |-> j, p |-> p]
  /\ LET pts == Points(p, sub[s][j].gain, sub[s][j].offset) IN
     sub' = [sub EXCEPT ![s][j] = [used |-> TRUE, p |-> p, gain |-> sub[s][j].gain, offset |-> sub[s][j].offset, a |-> pts.a, b |-> pts.b]]
  /\ slot' = [slot EXCEPT ![s].used = TRUE]
  /\ UNCHANGED <<reqs, nrpn, asked>>
SetSlot(s, value8) ==
  /\ Tick /\ out' = SetSlotOut(s, value8) /\ step' = [op |-> "set", s |-> s, v |-> value8]
  /\ UNCHANGED <<slot, sub, reqs, nrpn, asked>>
\* controller events.  A plain CC (channel*128 + number); value 0..127 mapped to the nearest eighth is not exact,
\* so the generated controller values are multiples of 127/8 only in spirit: the model uses val in {0, 127} (slot value 0 / 1)
Val8(val) == IF val = 127 THEN 8 ELSE 0
Bound(c) == { s \in Slots : slot[s].cc = c }
Serve(c, isnrpn, val) ==           \* nobody is bound to c: the oldest waiting slot (if any) learns it and is set
  IF reqs = <<>> THEN /\ out' = <<>> /\ UNCHANGED <<slot, reqs, asked>>
  ELSE LET s == reqs[1] IN
       /\ asked' = SelectSeq(asked, LAMBDA t : t # s)
       /\ slot' = IF isnrpn THEN [slot EXCEPT ![s].nrpn = c] ELSE [slot EXCEPT ![s].cc = c]
       /\ reqs' = Tail(reqs)
       /\ out' = SetSlotOut(s, Val8(val))
HandleCC(c, val) ==
  /\ Tick /\ step' = [op |-> "cc", c |-> c, val |-> val]
  /\ IF Bound(c) # {}
     THEN /\ out' = SetSlotOut(CHOOSE s \in Bound(c) : TRUE, Val8(val)) /\ Cardinality(Bound(c)) = 1 /\ UNCHANGED <<slot, reqs, asked>>
     ELSE Serve(c, FALSE, val)
  /\ UNCHANGED <<sub, nrpn>>
\* NRPN assembly (controller numbers 99/98 select the parameter, 6/38 carry the value).  A part of an unfinished
\* sequence drives nothing and is nothing a waiting slot could learn: the controller is the NRPN, and it has arrived only
\* when all four parts are there.  A complete value has both halves equal in the generated histories (slot value 0 or 1).
NrpnAfter(type, val) == CASE type = 99 -> [nrpn EXCEPT !.parhi = val, !.valhi = NONE, !.vallo = NONE]
                          [] type = 98 -> [nrpn EXCEPT !.parlo = val, !.valhi = NONE, !.vallo = NONE]
                          [] type = 6  -> IF nrpn.parhi >= 0 /\ nrpn.parlo >= 0 THEN [nrpn EXCEPT !.valhi = val] ELSE nrpn
                          [] type = 38 -> IF nrpn.parhi >= 0 /\ nrpn.parlo >= 0 THEN [nrpn EXCEPT !.vallo = val] ELSE nrpn
Complete(n) == n.parhi >= 0 /\ n.parlo >= 0 /\ n.valhi >= 0 /\ n.vallo >= 0
BoundN(c) == { s \in Slots : slot[s].nrpn = c }
HandleNrpn(type, val) ==
  /\ Tick /\ step' = [op |-> "nrpn", type |-> type, val |-> val]
  /\ LET n2 == NrpnAfter(type, val) IN
     /\ nrpn' = n2
     /\ Complete(n2) => n2.valhi = n2.vallo        \* (generated values: both halves equal, i.e. slot value 0 or 1)
     /\ IF ~ Complete(n2) THEN out' = <<>> /\ UNCHANGED <<slot, reqs, asked>>
        ELSE LET pid == n2.parhi * 128 + n2.parlo IN
             IF BoundN(pid) # {}
             THEN /\ out' = SetSlotOut(CHOOSE s \in BoundN(pid) : TRUE, Val8(n2.valhi)) /\ Cardinality(BoundN(pid)) = 1 /\ UNCHANGED <<slot, reqs, asked>>
             ELSE Serve(pid, TRUE, val)
  /\ UNCHANGED sub
Next == \/ \E s \in Slots, p \in Params, l \in BOOLEAN : CreateBinding(s, p, l)
        \/ \E t \in {99, 98, 6, 38}, val \in {0, 127} : HandleNrpn(t, val)
        \/ \E s \in Slots : ClearSlot(s)
        \/ \E s \in Slots, j \in Subs : ClearSlotSub(s, j)
        \/ \E s \in Slots, j \in Subs, g \in Gains, o \in Offsets : SetGainOffset(s, j, g, o)
        \/ \E s \in Slots, j \in Subs, p \in Params : SetSubPath(s, j, p)
        \/ \E s \in Slots, v \in Values : SetSlot(s, v)
        \/ \E c \in CCs, val \in {0, 127} : HandleCC(c, val)
Spec == Init /\ [][Next]_vars
View == <<slot, sub, reqs, nrpn, out, ops, asked>>
\* ------------------------------------------------------------------ the property (C19)
\* every emitted message goes to the bound parameter with its type and a value inside [min, max]
InRange == \A k \in 1..Len(out) : LET i == PInfo(out[k].p) IN
              IF i.ty = "T" THEN out[k].ty \in {"T", "F"}
              ELSE out[k].ty = i.ty /\ (i.log \/ (out[k].v >= i.lo /\ out[k].v <= i.hi))
\* MIDI-learn requests are served in the order in which they were made, whatever happens to unrelated slots in between
ServedInOrder == reqs = asked
\* a waiting slot is never bound, a slot waits at most once, a controller drives at most one slot
QueueSane == /\ \A i, j \in 1..Len(reqs) : i # j => reqs[i] # reqs[j]
             /\ \A i \in 1..Len(reqs) : slot[reqs[i]].cc = NONE
             /\ \A s, t \in Slots : (slot[s].cc # NONE /\ slot[s].cc = slot[t].cc) => s = t
\* at the default gain and offset the mapping is linear from min (slot value 0) to max (slot value 1)
LinearAtDefault == \A s \in Slots, j \in Subs : (sub[s][j].used /\ sub[s][j].gain = 100 /\ sub[s][j].offset = 0 /\ ~ PInfo(sub[s][j].p).log) =>
                      (sub[s][j].a = PInfo(sub[s][j].p).lo /\ sub[s][j].b = PInfo(sub[s][j].p).hi)
\* positive gain: the control points are ordered, so the output never decreases when the slot value increases
MonotoneMapping == \A s \in Slots, j \in Subs : (sub[s][j].used /\ sub[s][j].gain > 0) => sub[s][j].a <= sub[s][j].b
=============================================================================
