// build (in findings/): g++ -std=c++11 -I../include finding4.cpp ../_build/librtosc-cpp.a ../_build/librtosc.a -o finding4
// createBinding looks the port up with Ports::apropos, which returns the FIRST
// port whose name merely STARTS with the path: binding "/freq" takes type and
// range from "freq_enabled::T:F" (or "freqrand::f") when that port is listed
// before "freq::f".
#include <rtosc/ports.h>
#include <rtosc/automations.h>
#include <rtosc/port-sugar.h>
#include <cstdio>
#include <cstring>
struct D { bool freq_enabled; float freqrand; float freq; };
#define rObject D
static rtosc::Ports ports = {
    rToggle(freq_enabled, "on/off"),
    rParamF(freqrand, rLinear(0,1), "randomness"),
    rParamF(freq, rLinear(-1,10), "frequency"),
};
static char type; static float val; static char addr[128];
int main()
{
    D d = {false, 0, 0};
    rtosc::AutomationMgr m(2, 1, 16);
    m.set_ports(ports);
    m.backend = [&d](const char *msg){
        strcpy(addr, msg); type = *rtosc_argument_string(msg);
        val = type == 'f' ? rtosc_argument(msg,0).f : (type == 'T');
        rtosc::RtData rd; char loc[128]; rd.loc = loc; rd.loc_size = sizeof(loc); rd.obj = &d;
        ports.dispatch(msg, rd, true); };
    m.createBinding(0, "/freq", false);
    m.setSlot(0, 1.0f);
    printf("expected: '/freq' 'f' 10 (declared range -1..10), d.freq = 10\n");
    printf("got     : '%s' '%c' %g, d.freq = %g\n", addr, type, val, d.freq);
    int bad = strcmp(addr, "/freq") || type != 'f' || val != 10.0f || d.freq != 10.0f;
    printf(bad ? "FAIL\n" : "ok\n");
    return bad;
}
