// build: gcc -I/tmp/wt/C11_h/include /tmp/wt/C11_h/findings/finding10.c /tmp/wt/C11_h/_build/librtosc-cpp.a /tmp/wt/C11_h/_build/librtosc.a -lm -o /tmp/wt/C11_h/findings/finding10
// Float ranges are not reproduced by print + scan although the (default)
// lossless mode writes every number exactly: the printed range is anchored one
// value later ("a b b+d ... c"), so its values are (b+d)+i*d' instead of
// b+(i+1)*d, and these differ in the last bit.
#include <stdio.h>
#include <string.h>
#include <rtosc/rtosc.h>
#include <rtosc/arg-ext.h>
#include <rtosc/pretty-format.h>
#include <rtosc/arg-val-cmp.h>
#include <rtosc/arg-val-itr.h>

static int expand(const rtosc_arg_val_t* av, int n, float* out, int max)
{
    rtosc_arg_val_itr itr; rtosc_arg_val_t tmp; int k = 0;
    rtosc_arg_val_itr_init(&itr, av);
    for(; itr.i < (size_t)n && k < max; rtosc_arg_val_itr_next(&itr))
        out[k++] = rtosc_arg_val_itr_get(&itr, &tmp)->val.f;
    return k;
}

static int check(const char* text)
{
    rtosc_arg_val_t av[8], av2[8]; char sb[8];
    char out_[512]; char* out = out_ + 1; out_[0] = ' ';
    float v1[64], v2[64];
    memset(av, 0, sizeof av); memset(av2, 0, sizeof av2);
    int n = rtosc_count_printed_arg_vals(text);
    rtosc_scan_arg_vals(text, av, n, sb, sizeof sb);
    rtosc_print_arg_vals(av, n, out, sizeof out_ - 1, NULL, 0);
    int n2 = rtosc_count_printed_arg_vals(out);
    printf("<%s>\n  printed <%s>\n", text, out);
    if(n2 <= 0 || n2 > 8) { printf("  print rejected\n"); return 1; }
    rtosc_scan_arg_vals(out, av2, n2, sb, sizeof sb);
    int eq = rtosc_arg_vals_eq(av, av2, n, n2, NULL);
    int k1 = expand(av, n, v1, 64), k2 = expand(av2, n2, v2, 64);
    printf("  expected: rtosc_arg_vals_eq(scanned, rescanned) = 1; got %d (%d and %d values)\n", eq, k1, k2);
    for(int i = 0; i < k1 && i < k2; ++i)
        if(v1[i] != v2[i])
            printf("    value %d: %a (%.9g) became %a (%.9g)\n", i, v1[i], v1[i], v2[i], v2[i]);
    return !eq;
}

int main(void)
{
    int bad = 0;
    bad |= check("0.0 0.5 ... 2.0");   // control: dyadic steps are exact
    bad |= check("0.0 0.1 ... 1.0");
    bad |= check("0.1 0.3 ... 0.9");
    printf(bad ? "FAIL\n" : "ok\n");
    return bad;
}
