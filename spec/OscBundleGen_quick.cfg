CONSTANTS MaxElems = 3  MaxNest = 1
INIT Init
NEXT Next
INVARIANT Laws
CONSTRAINT Emit
CHECK_DEADLOCK FALSE
