CONSTANTS Family = "flat"  MaxPorts = 4
INIT Init
NEXT Next
INVARIANT Laws RouteLaws
CONSTRAINT Emit
CHECK_DEADLOCK FALSE
