CONSTANTS N = 6  Lens = {0, 2, 3}  K = 4  P = 4  Bug = "no_resync"
SPECIFICATION Spec
INVARIANT Fifo LaFifo HasNextExact
VIEW View
CHECK_DEADLOCK FALSE
