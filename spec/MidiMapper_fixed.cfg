CONSTANTS Addrs = {"p", "q"}  Ids = {1, 2, 3}  V = 2  MaxOps = 6  Fix = TRUE  Bug = "none"
SPECIFICATION Spec
INVARIANT LearnOrder UniqueIds GenConsistent DrivesItsAddress AssignedIsLive OneMessage InRange NoStuckController
VIEW View
CHECK_DEADLOCK FALSE
