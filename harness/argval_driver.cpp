// Conformance driver for C16 (argument-value comparison, iteration, message building).
//   argval_driver <blocks.ndjson> <out.ndjson>
// A block is {"forms":[ [item...], ... ], "owner":[list number per form]} in the abstract form of
// spec/ArgVals.tla.  Every form is materialised as rtosc_arg_val_t[] (ranges as '-' cells); the driver
// logs the K x K matrices of rtosc_arg_vals_cmp (signs) and rtosc_arg_vals_eq, what the arg-val
// iterator yields for each form, and the bytes of rtosc_avmessage.  The laws are judged by ArgValsTrace.
#include <rtosc/rtosc.h>
#include <rtosc/arg-val.h>
#include <rtosc/arg-val-cmp.h>
#include <rtosc/arg-val-itr.h>
#include <rtosc/arg-ext.h>
#include <deque>
#include <cmath>
#include "vjson.hpp"
#include "vguard.hpp"

struct Store { std::deque<std::string> strs; std::deque<std::vector<uint8_t>> blobs; };
static rtosc_arg_val_t scalar(const J &x, Store &st) {
    rtosc_arg_val_t a; memset(&a, 0, sizeof a); char t = x["t"].s[0]; a.type = t;
    switch (t) {
        case 'i': case 'c': case 'r': a.val.i = (int)x["v"].num(); break;
        case 'h': a.val.h = x["v"].num() * (1LL << 31); break;          // 64-bit values: the abstract integer v stands for v * 2^31
        case 'f': a.val.f = std::fabs(x["v"].num()) >= 2000000 ? (x["v"].num() > 0 ? INFINITY : -INFINITY) : (float)x["v"].num() / 2.0f; break;      // +-2000000 stands for +-infinity
        case 'd': a.val.d = std::fabs(x["v"].num()) >= 2000000 ? (x["v"].num() > 0 ? INFINITY : -INFINITY) : (double)x["v"].num() / 2.0; break;
        case 't': a.val.t = x["v"].num() == 1 ? 1 : (uint64_t)x["v"].num() << 33; break;   // 1 = immediately; otherwise v * 2^33
        case 's': case 'S': st.strs.push_back(x["v"].text()); a.val.s = st.strs.back().c_str(); break;
        case 'b': { st.blobs.push_back(x["v"].bytes()); a.val.b.len = (int)st.blobs.back().size(); static uint8_t none[1]; a.val.b.data = st.blobs.back().empty() ? none : st.blobs.back().data(); break; }   // an empty blob still has a valid pointer
        case 'm': { auto b = x["v"].bytes(); for (int k = 0; k < 4; ++k) a.val.m[k] = b[k]; break; }
        case 'T': a.val.T = 1; break;
        default: break;
    }
    return a;
}
static void put_value(std::vector<rtosc_arg_val_t> &out, const J &x, Store &st) {
    if (x["t"].s == "a") {
        std::vector<rtosc_arg_val_t> el; for (auto &e : x["v"].a) put_value(el, e, st);
        rtosc_arg_val_t h; memset(&h, 0, sizeof h); h.type = 'a'; rtosc_av_arr_type_set(&h, x["et"].s[0]); rtosc_av_arr_len_set(&h, (int)el.size());
        out.push_back(h); out.insert(out.end(), el.begin(), el.end());
    } else out.push_back(scalar(x, st));
}
static std::vector<rtosc_arg_val_t> materialise(const J &form, Store &st) {
    std::vector<rtosc_arg_val_t> out;
    for (auto &it : form.a) {
        const std::string &k = it["k"].s;
        if (k == "one") put_value(out, it["x"], st);
        else { rtosc_arg_val_t h; memset(&h, 0, sizeof h); h.type = '-'; rtosc_av_rep_num_set(&h, (int)it["n"].num()); rtosc_av_rep_has_delta_set(&h, k == "range"); out.push_back(h);
            if (k == "range") { J d = it["x"]; for (auto &p : d.o) if (p.first == "v") p.second.n = it["d"].num(); out.push_back(scalar(d, st)); }
            out.push_back(scalar(it["x"], st)); }
    }
    return out;
}
static int sgn(int x) { return x < 0 ? -1 : x > 0 ? 1 : 0; }
static void log_val(JW &w, const rtosc_arg_val_t *v) {
    w.obj().kstr("t", std::string(1, v->type)).key("v");
    switch (v->type) {
        case 'i': case 'c': case 'r': w.num(v->val.i); break;
        case 'h': w.num(v->val.h / (1LL << 31)); break;
        case 'f': w.num(std::isinf(v->val.f) ? (v->val.f > 0 ? 2000000LL : -2000000LL) : (long long)llround(v->val.f * 2.0)); break;
        case 'd': w.num(std::isinf(v->val.d) ? (v->val.d > 0 ? 2000000LL : -2000000LL) : (long long)llround(v->val.d * 2.0)); break;
        case 't': w.num(v->val.t == 1 ? 1 : (long long)(v->val.t >> 33)); break;
        case 's': case 'S': w.bytes((const uint8_t *)v->val.s, v->val.s ? strlen(v->val.s) : 0); break;
        case 'b': w.bytes(v->val.b.data, v->val.b.len > 0 ? v->val.b.len : 0); break;
        case 'm': w.bytes(v->val.m, 4); break;
        default: w.num(0);
    }
    w.end_obj();
}
int main(int argc, char **argv) {
    vg_init(); if (argc < 3) return 2; FILE *f = fopen(argv[1], "r"); FILE *out = fopen(argv[2], "w"); if (!f || !out) return 2; std::string line;
    while (read_line(f, line)) { if (line.empty()) continue; J blk = jparse(line); Store st; size_t K = blk["forms"].size();
        std::vector<std::vector<rtosc_arg_val_t>> fm; for (auto &fo : blk["forms"].a) fm.push_back(materialise(fo, st));
        JW w; w.obj().key("forms").raw("@F@").key("owner").arr(); for (auto &o : blk["owner"].a) w.num(o.num()); w.end_arr();
        int sig = vg_run(30, [&] {
            w.key("cmp").arr(); for (size_t i = 0; i < K; ++i) { w.arr(); for (size_t j = 0; j < K; ++j) w.num(sgn(rtosc_arg_vals_cmp(fm[i].data(), fm[j].data(), fm[i].size(), fm[j].size(), NULL))); w.end_arr(); } w.end_arr();
            w.key("eq").arr(); for (size_t i = 0; i < K; ++i) { w.arr(); for (size_t j = 0; j < K; ++j) w.num(rtosc_arg_vals_eq(fm[i].data(), fm[j].data(), fm[i].size(), fm[j].size(), NULL) ? 1 : 0); w.end_arr(); } w.end_arr();
            w.key("iter").arr();
            for (size_t i = 0; i < K; ++i) { w.arr(); if (!fm[i].empty()) { rtosc_arg_val_itr it; rtosc_arg_val_itr_init(&it, fm[i].data()); int guard = 0;
                    while (it.i < fm[i].size() && guard++ < 64) { rtosc_arg_val_t buf; const rtosc_arg_val_t *v = rtosc_arg_val_itr_get(&it, &buf); log_val(w, v); rtosc_arg_val_itr_next(&it); } }
                w.end_arr(); }
            w.end_arr().key("msg").arr();
            for (size_t i = 0; i < K; ++i) { bool has_arr = false; for (auto &c : fm[i]) if (c.type == 'a') has_arr = true;
                if (has_arr) { w.arr().num(-1).end_arr(); continue; }
                char buf[1024]; size_t n = rtosc_avmessage(buf, sizeof buf, "/x", fm[i].size(), fm[i].data()); w.bytes((const uint8_t *)buf, n); }
            w.end_arr(); });
        w.knum("sig", sig).knum("asan", vg_asan_hits).kstr("asan_what", vg_asan_first).end_obj();
        std::string s = w.s; std::string fs = line.substr(line.find("\"forms\":") + 8); size_t cut = fs.rfind(",\"owner\""); fs = fs.substr(0, cut); s.replace(s.find("@F@"), 3, fs);
        if (sig) { JW e; e.obj().key("forms").raw(fs).key("owner").raw("[]").knum("sig", sig).knum("asan", vg_asan_hits).kstr("asan_what", vg_asan_first).end_obj(); s = e.s; }
        fprintf(out, "%s\n", s.c_str()); }
    fclose(out); return 0;
}
