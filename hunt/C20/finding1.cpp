// build: clang++ -std=c++17 -I/tmp/wt/C20_h/include /tmp/wt/C20_h/findings/finding1.cpp /tmp/wt/C20_h/_build/librtosc-cpp.a /tmp/wt/C20_h/_build/librtosc.a -o /tmp/wt/C20_h/findings/finding1
//
// A controller that is moved while a watch left over by clear() is armed can never be learned any more.
// History (every message is delivered at once, in order):  map /b ; clear ; CC(2,10) ; map /c ; CC(2,10) ; CC(2,64)
#include "harness.inc"
struct D{int b; float c;};
#define rObject D
static const rtosc::Ports ports = {
    rParamI(b, rLinear(-5,20), "int parameter"),
    rParamF(c, rLinear(0,1),   "float parameter"),
};
int main(){
    Sys s(&ports);
    s.map("/b");          // queue /b, one watch is armed in the realtime half
    s.clear();            // the queue is emptied - the watch stays armed
    s.cc(2,10);           // consumes the stale watch, /midi-use-CC 2 is never answered: 2 stays in 'pending'
    printf("after map /b; clear; CC(2,10): watchSize=%u, pending.has(2)=%d, learn queue length=%zu\n",
            s.rt.watchSize, (int)s.rt.pending.has(2), s.nrt.learnQueue.size());
    s.map("/c");          // /c is queued for learning now, controller 2 is not assigned to anything
    s.cc(2,10);           // expected: controller 2 is assigned to /c
    printf("after map /c; CC(2,10): expected getCoarse(/c)=2 and /c no longer queued\n"
           "                        got      getCoarse(/c)=%d, hasPending(/c)=%d\n",
            s.nrt.getCoarse("/c"), (int)s.nrt.hasPending("/c"));
    std::vector<Out> o = s.cc(2,64);
    printf("CC(2,64): expected exactly one message '/c' f 0.5, got %zu message(s)", o.size());
    for(auto &x:o) printf(" ['%s' %c %g]", x.addr.c_str(), x.type, x.f);
    printf("\n");
    bool ok = s.nrt.getCoarse("/c")==2 && o.size()==1 && o[0].addr=="/c" && o[0].type=='f' && o[0].f==0.5f;
    // for contrast: a controller that was not touched in between is learned fine
    if(!ok) {
        s.cc(3,0);
        std::vector<Out> o3 = s.cc(3,64);
        printf("contrast: CC(3,0); CC(3,64) -> getCoarse(/c)=%d, %zu message(s)\n", s.nrt.getCoarse("/c"), o3.size());
    }
    printf(ok ? "OK\n" : "DEFECT: unassigned controller 2 is ignored while /c waits in the learn queue\n");
    return ok ? 0 : 1;
}
