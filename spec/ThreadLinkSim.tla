---------------------------- MODULE ThreadLinkSim ----------------------------
(* Engine A front-end for C06: TLC -simulate draws behaviours of ThreadLink.tla;  *)
(* every behaviour that reaches the requested depth is written out (the ghost     *)
(* variable hist is the behaviour: thread, action, operation argument, whether    *)
(* the operation ended, and the observables at its end) and is then forced, step  *)
(* by step, on the real rtosc::ThreadLink by harness/threadlink_driver.cpp.       *)
EXTENDS ThreadLink, Json, CSV, IOUtils
Out == IOEnv.OUT
MaxDepth == atoi(IOEnv.DEPTH)
Export == (TLCGet("level") < MaxDepth) \/ CSVWrite("%1$s", <<ToJson(hist)>>, Out)
=============================================================================
