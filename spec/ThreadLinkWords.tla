---------------------------- MODULE ThreadLinkWords ----------------------------
(* The concrete 4-byte words (as numbers) of the messages the C06 driver sends.   *)
(* ThreadLink.tla knows a message only as `len` cells tagged (id, off, len); the   *)
(* driver gives message `id` one of three shapes (id % 3) so that the reader's     *)
(* framing function meets every kind of length rule inside a wrapped ring:         *)
(*   0  "/X" ",ii.."  ints        word k >= 2 : id * 16 + k                         *)
(*   1  "/X" ",b"     a blob      word 2 : its size 4 * (len - 3), then payload     *)
(*                                words id * 16 + k          (needs len >= 3)       *)
(*   2  "/X" ",s"     a string    4 * (len - 2) - 1 copies of one letter and the    *)
(*                                terminating NUL            (needs len >= 3)       *)
(* A message of two words has no arguments whatever its id.                        *)
EXTENDS Naturals
Shape(id, len) == IF len < 3 THEN 0 ELSE id % 3
Letter(id) == 97 + (id % 26)
WordAt(id, off, len) ==
  IF off = 0 THEN 47 * 16777216 + (65 + (id % 60)) * 65536
  ELSE IF off = 1 THEN
         CASE Shape(id, len) = 0 -> 44 * 16777216 + (IF len >= 3 THEN 105 * 65536 ELSE 0) + (IF len >= 4 THEN 105 * 256 ELSE 0)
           [] Shape(id, len) = 1 -> 44 * 16777216 + 98 * 65536
           [] OTHER              -> 44 * 16777216 + 115 * 65536
  ELSE CASE Shape(id, len) = 0 -> id * 16 + off
         [] Shape(id, len) = 1 -> IF off = 2 THEN 4 * (len - 3) ELSE id * 16 + off
         [] OTHER              -> Letter(id) * (16777216 + 65536 + 256 + (IF off = len - 1 THEN 0 ELSE 1))
=============================================================================
