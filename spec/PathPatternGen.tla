---------------------------- MODULE PathPatternGen ----------------------------
(* Input machine for C05: a state is a pattern of the documented grammar, grown    *)
(* one segment at a time (literal text, #N enumeration, {a,b,...} alternatives -   *)
(* including alternatives that are prefixes of one another, in both orders), then  *)
(* finished with an optional trailing '/' and an optional ':types' specification.  *)
(* BFS therefore enumerates every pattern up to MaxSegs.  Each finished pattern is *)
(* written out with its rendering; the driver sweeps it over every address up to a *)
(* length bound and PathPatternTrace compares with the pattern's language.         *)
EXTENDS PathPattern, Json, CSV, IOUtils
CONSTANTS MaxSegs
VARIABLES segs, types, done
A == 97  B == 98  SL == 47
Lits == { <<A>>, <<B>>, <<A, B>>, <<A, A>>, <<A, SL, B>> }
Ns == {1, 2, 10, 12}
AltOrders == { << <<A>>, <<A, B>> >>, << <<A, B>>, <<A>> >>, << <<A>>, <<B>> >>, << <<B>> >>, << <<A>>, <<B>>, <<A, A>> >> }
SegChoices == { [k |-> "lit", s |-> s] : s \in Lits } \cup { [k |-> "enum", n |-> n] : n \in Ns }
              \cup { [k |-> "alt", order |-> o] : o \in AltOrders }
NoTypes == [has |-> FALSE, alts |-> <<>>]
TypeChoices == { NoTypes } \cup { [has |-> TRUE, alts |-> a] : a \in { << <<>> >>, << <<105>> >>, << <<105>>, <<102>> >>, << <<>>, <<105>> >>,
                                                                                  << <<105, 105, 105, 105, 105>> >>, << <<105>>, <<102, 102, 102, 102, 102, 102, 102, 102, 102>> >> } }    \* alternatives longer than the padding of a short message
Init == segs = <<>> /\ types = NoTypes /\ done = FALSE
Grow == /\ ~ done /\ Len(segs) < MaxSegs
        /\ \E g \in SegChoices :
             /\ (segs # <<>> /\ segs[Len(segs)].k = "lit") => g.k # "lit"        \* two literals in a row are one literal
             /\ (segs # <<>> /\ segs[Len(segs)].k = "enum") => g.k # "enum"      \* '#2#3' is not in the grammar (location := text '#' number)
             /\ segs' = Append(segs, g)
        /\ UNCHANGED <<types, done>>
Finish == /\ ~ done /\ segs # <<>>
          /\ \E sub \in BOOLEAN : \E t \in TypeChoices :
               /\ segs' = IF sub THEN (IF segs[Len(segs)].k = "lit"
                                        THEN [segs EXCEPT ![Len(segs)].s = Append(@, SL)]
                                        ELSE Append(segs, [k |-> "lit", s |-> <<SL>>])) ELSE segs
               /\ types' = t
          /\ done' = TRUE
Next == Grow \/ Finish
pat == [segs |-> segs, types |-> types]
\* laws of the language definition itself, checked on every generated pattern
RECURSIVE Member(_)
Member(ss) == IF ss = <<>> THEN <<>>
              ELSE LET g == Head(ss) IN
                   (CASE g.k = "lit" -> g.s [] g.k = "enum" -> <<48>> [] g.k = "alt" -> g.order[Len(g.order)]) \o Member(Tail(ss))
Laws == done => /\ MatchPath(pat, Member(segs))                                  \* the canonical member is in the language
                /\ (~ MatchPath(pat, Member(segs) \o <<99>>) \/ Subtree(pat))         \* an extra character is not (unless sub-tree)
                /\ TypeVerdict(pat, <<115, 115>>) \in (IF types.has THEN {0, 1} ELSE {2})
Out == IF "OUT" \in DOMAIN IOEnv THEN IOEnv.OUT ELSE "none"
Emit == (~ done) \/ Out = "none" \/ CSVWrite("%1$s", <<ToJson([name |-> Render(pat), pat |-> pat])>>, Out)
=============================================================================
