CONSTANTS Mode = "enum"  Depth = 0  MaxLen = 8  Alphabet = {0, 47, 44, 98, 115, 255}  Prefix = "none"
INIT Init
NEXT Next
INVARIANT Laws
CONSTRAINT Emit
VIEW View
CHECK_DEADLOCK FALSE
