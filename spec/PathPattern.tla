---------------------------- MODULE PathPattern ----------------------------
(* The documented pattern language of rtosc port names (doc/Guide.adoc "Path        *)
(* Specifiers", include/rtosc/rtosc.h rtosc_match) as a set-theoretic definition:    *)
(* a pattern denotes a language of addresses; matching is membership.  Nothing here  *)
(* scans with a cursor, so "commit to the first alternative", "compare one character *)
(* less" or "<= instead of <" cannot be copied from the code.                        *)
EXTENDS Naturals, Sequences, FiniteSets, TLC
\* A pattern is [segs |-> Seq(Segment), types |-> Seq(Seq(Byte)) | "none"]
\* Segment:  [k |-> "lit", s |-> bytes] | [k |-> "enum", n |-> Nat] | [k |-> "alt", order |-> Seq(bytes)]
\*   lit  : the address spells s            enum : a maximal run of 1..9 decimal digits whose value is < n
\*   alt  : the address spells one of the listed strings (order is the order in which they are written)
\* a trailing "/" literal makes the pattern a sub-tree pattern (address may continue)
Digits == 48..57
IsDigit(c) == c \in Digits
RECURSIVE DigitRun(_)
DigitRun(a) == IF a = <<>> \/ ~IsDigit(Head(a)) THEN 0 ELSE 1 + DigitRun(Tail(a))
RECURSIVE Val(_, _)
Val(a, n) == IF n = 0 THEN 0 ELSE Val(a, n - 1) * 10 + (a[n] - 48)   \* value of first n digits (n <= 9)
Drop(a, n) == SubSeq(a, n + 1, Len(a))
IsPrefix(s, a) == Len(s) <= Len(a) /\ SubSeq(a, 1, Len(s)) = s

RECURSIVE InLang(_, _, _)
InLang(segs, a, subtree) ==
  IF segs = <<>> THEN (a = <<>> \/ subtree)
  ELSE LET g == Head(segs)  rest == Tail(segs) IN
    CASE g.k = "lit"  -> IsPrefix(g.s, a) /\ InLang(rest, Drop(a, Len(g.s)), subtree)
      [] g.k = "enum" -> LET d == DigitRun(a) IN d >= 1 /\ d <= 9 /\ Val(a, d) < g.n /\ InLang(rest, Drop(a, d), subtree)   \* maximal digit run
      [] g.k = "alt"  -> \E i \in 1..Len(g.order) : IsPrefix(g.order[i], a) /\ InLang(rest, Drop(a, Len(g.order[i])), subtree)
Subtree(p) == p.segs # <<>> /\ p.segs[Len(p.segs)].k = "lit" /\
              LET s == p.segs[Len(p.segs)].s IN s # <<>> /\ s[Len(s)] = 47
MatchPath(p, a) == InLang(p.segs, a, Subtree(p))
\* type rule: 2 = must match, 0 = must not, 1 = either
IsExt(alt, t) == IsPrefix(alt, t)
TypeVerdict(p, t) == IF ~p.types.has THEN 2
                     ELSE IF \E i \in 1..Len(p.types.alts) : p.types.alts[i] = t THEN 2
                     ELSE IF \E i \in 1..Len(p.types.alts) : IsExt(p.types.alts[i], t) THEN 1 ELSE 0
\* rendering to the C string of Port::name
RECURSIVE ToDec(_)
ToDec(n) == IF n < 10 THEN <<48 + n>> ELSE ToDec(n \div 10) \o <<48 + (n % 10)>>
RECURSIVE JoinAlt(_)
JoinAlt(ss) == IF Len(ss) = 1 THEN ss[1] ELSE ss[1] \o <<44>> \o JoinAlt(Tail(ss))
SetToSeq(S) == CHOOSE f \in [1..Cardinality(S) -> S] : \A i, j \in 1..Cardinality(S) : i # j => f[i] # f[j]
RenderSeg(g) == CASE g.k = "lit" -> g.s [] g.k = "enum" -> <<35>> \o ToDec(g.n)
                  [] g.k = "alt" -> <<123>> \o JoinAlt(g.order) \o <<125>>
RECURSIVE RenderSegs(_)
RenderSegs(segs) == IF segs = <<>> THEN <<>> ELSE RenderSeg(Head(segs)) \o RenderSegs(Tail(segs))
RECURSIVE RenderTypes(_)
RenderTypes(ts) == IF ts = <<>> THEN <<>> ELSE <<58>> \o Head(ts) \o RenderTypes(Tail(ts))
Render(p) == RenderSegs(p.segs) \o (IF ~p.types.has THEN <<>> ELSE RenderTypes(p.types.alts))
=============================================================================
