// build: cc -I/tmp/wt/C16_h/include /tmp/wt/C16_h/findings/finding1.c /tmp/wt/C16_h/_build/librtosc-cpp.a /tmp/wt/C16_h/_build/librtosc.a -lm -o /tmp/wt/C16_h/findings/finding1
//
// C16 finding 1: two infinite ranges are never compared with each other.
// rtosc_arg_vals_cmp_has_next() stops as soon as both iterators stand on an
// infinite range, *before* a single value of the two ranges was compared, and
// rtosc_arg_vals_eq_after_abort() then reports "equal".
// So [0 ...] == [1 ...], [1 2 ...] == [1 3 ...], [1 2 ...] == [1 2 4 ...].
// Responsible: src/cpp/arg-val-cmp.c:42-49 (rtosc_arg_vals_cmp_has_next), used by
// rtosc_arg_vals_eq (169) and rtosc_arg_vals_cmp (325); eq_after_abort (54-62).
// Repair: in has_next, additionally go on while
//   "|| litr->range_i < 2 || ritr->range_i < 2"
// (two aligned values of each infinite range decide). test/arg-val-cmp.cpp:311
// has delta/start cells swapped (l[3]=1, l[4]=3 is what it means).
#include <stdio.h>
#include <string.h>
#include <rtosc/rtosc.h>
#include <rtosc/arg-ext.h>
#include <rtosc/arg-val-cmp.h>
#include <rtosc/pretty-format.h>

static int fails = 0;

static int scan(const char* txt, rtosc_arg_val_t* av, char* strbuf, size_t bs)
{
    int n = rtosc_count_printed_arg_vals(txt);
    if(n <= 0) { printf("cannot scan '%s' (%d)\n", txt, n); return 0; }
    rtosc_scan_arg_vals(txt, av, n, strbuf, bs);
    return n;
}

// l is the smaller one of two different lists
static void expect_less(const char* what,
                        const rtosc_arg_val_t* l, size_t ln,
                        const rtosc_arg_val_t* r, size_t rn)
{
    int eq  = rtosc_arg_vals_eq (l, r, ln, rn, NULL);
    int cmp = rtosc_arg_vals_cmp(l, r, ln, rn, NULL);
    int rcmp= rtosc_arg_vals_cmp(r, l, rn, ln, NULL);
    int bad = !(eq == 0 && cmp < 0 && rcmp > 0);
    printf("%-34s expected eq=0 cmp<0 rcmp>0, got eq=%d cmp=%d rcmp=%d  %s\n",
           what, eq, cmp, rcmp, bad ? "WRONG" : "ok");
    fails += bad;
}

int main(void)
{
    // 1. through the documented text form (doc/Guide.adoc, "Arrays")
    const char* pairs[][2] = {
        { "[0 ...]",   "[1 ...]"     },   // 0 0 0 ...   vs 1 1 1 ...
        { "[1 2 ...]", "[1 3 ...]"   },   // 1 2 3 4 ... vs 1 3 5 7 ...
        { "[1 2 ...]", "[1 2 4 ...]" },   // 1 2 3 4 ... vs 1 2 4 6 ...
        { "[\"a\" ...]", "[\"b\" ...]" }, // a a a ...   vs b b b ...
    };
    for(size_t k = 0; k < sizeof(pairs)/sizeof(pairs[0]); ++k)
    {
        rtosc_arg_val_t a[16], b[16]; char s1[64], s2[64], what[80];
        int n = scan(pairs[k][0], a, s1, sizeof(s1)),
            m = scan(pairs[k][1], b, s2, sizeof(s2));
        if(!n || !m) { ++fails; continue; }
        snprintf(what, sizeof(what), "%s vs %s", pairs[k][0], pairs[k][1]);
        expect_less(what, a, n, b, m);
    }

    // 2. the same without the scanner: cells '-'(num=0), value
    rtosc_arg_val_t l[2], r[2];
    memset(l, 0, sizeof(l)); memset(r, 0, sizeof(r));
    l[0].type = r[0].type = '-';
    rtosc_av_rep_num_set(l, 0); rtosc_av_rep_has_delta_set(l, 0);
    rtosc_av_rep_num_set(r, 0); rtosc_av_rep_has_delta_set(r, 0);
    l[1].type = r[1].type = 'i';
    l[1].val.i = 0; r[1].val.i = 1;
    expect_less("hand-built 0 ... vs 1 ...", l, 2, r, 2);

    // control: an infinite range against a finite list *is* compared
    {
        rtosc_arg_val_t a[16], b[16]; char s1[64], s2[64];
        int n = scan("[0 ...]", a, s1, sizeof(s1)),
            m = scan("[1 1 1]", b, s2, sizeof(s2));
        expect_less("[0 ...] vs [1 1 1] (control)", a, n, b, m);
    }

    printf("%s\n", fails ? "FAILED: different infinite ranges compare as equal"
                         : "all ok");
    return fails ? 1 : 0;
}
