---------------------------- MODULE AutomationTrace ----------------------------
(* Trace validation for C19: each line of the log is one execution of a real          *)
(* AutomationMgr (calls in order, each with the messages sent to the backend and the   *)
(* slots' learn rank / controller bindings observed afterwards).  The model takes the  *)
(* same step and the state is compared; values of log-scale parameters are judged for  *)
(* range (relative tolerance 1e-5) and monotonicity only.                              *)
EXTENDS Automation, Json, IOUtils
Log == ndJsonDeserialize(IOEnv.TRACE)
VARIABLES x, l, lastlog       \* lastlog: <<slot, sub index in the emitted list, slot value, observed value>> of the last log-scale output
tvars == <<vars, x, l, lastlog>>
Evs == Log[x].ev
TInit == Init /\ x \in 1..Len(Log) /\ l = 1 /\ lastlog = <<>>
Do(ev) == CASE ev.op = "create" -> CreateBinding(ev.s, ev.p, ev.learn)
            [] ev.op = "clear" -> ClearSlot(ev.s)
            [] ev.op = "clearsub" -> ClearSlotSub(ev.s, ev.j)
            [] ev.op = "map" -> SetGainOffset(ev.s, ev.j, ev.gain, ev.offset)
            [] ev.op = "path" -> SetSubPath(ev.s, ev.j, ev.p)
            [] ev.op = "set" -> SetSlot(ev.s, ev.v)
            [] ev.op = "cc" -> HandleCC(ev.c, ev.val)
            [] ev.op = "nrpn" -> HandleNrpn(ev.type, ev.val)
Step == /\ l >= 1 /\ l <= Len(Evs) /\ Do(Evs[l]) /\ l' = l + 1 /\ UNCHANGED x /\ lastlog' = lastlog
Finish == /\ l = Len(Evs) + 1 /\ PrintT(<<"DONE", x>>) /\ l' = 0 /\ UNCHANGED <<vars, x, lastlog>>
TNext == Step \/ Finish
TSpec == TInit /\ [][TNext]_tvars
\* log-scale parameter /l: 0.01 .. 100, observed values are scaled by 1000000 (so 10000 .. 100000000), tolerance 1e-5 relative
LogOk(v) == v >= 9999 /\ v <= 100001000
Mismatch(ev) ==
  {k \in {"messages", "value", "log_range", "slots", "sub_automations", "learn_rank", "queue_length", "ServedInOrder", "InRange", "QueueSane"} :
   ~ CASE k = "messages" -> Len(ev.out) = Len(out) /\ \A i \in 1..Len(out) : ev.out[i].p = out[i].p /\ ev.out[i].ty = out[i].ty
       [] k = "value" -> Len(ev.out) = Len(out) => \A i \in 1..Len(out) : PInfo(out[i].p).log \/ ev.out[i].v = out[i].v
       [] k = "log_range" -> \A i \in 1..Len(ev.out) : /\ ((ev.out[i].p = "/l") => LogOk(ev.out[i].vlog))
                                                         /\ ((ev.out[i].p = "/m") => (ev.out[i].v >= SC /\ ev.out[i].v <= 1000 * SC))      \* inside its declared [1, 1000]
       [] k = "slots" -> \A s \in Slots : ev.slots[s].used = slot[s].used /\ ev.slots[s].cc = slot[s].cc /\ ev.slots[s].nrpn = slot[s].nrpn
       [] k = "sub_automations" -> \A s \in Slots, j \in Subs : ev.subs[s][j].used = sub[s][j].used /\ ev.subs[s][j].gain = sub[s][j].gain /\ ev.subs[s][j].offset = sub[s][j].offset
                                                                /\ (sub[s][j].used => ev.subs[s][j].p = sub[s][j].p)
       [] k = "learn_rank" -> \A s \in Slots : ev.slots[s].rank = Rank(s)
       [] k = "queue_length" -> ev.qlen = Len(reqs)
       [] k = "ServedInOrder" -> ServedInOrder
       [] k = "InRange" -> InRange
       [] k = "QueueSane" -> QueueSane }
Judge == (l <= 1) \/ LET m == Mismatch(Evs[l - 1]) IN m = {} \/ PrintT(<<"REJECT", x, m, l - 1>>)
=============================================================================
