"""C18 - path utilities: '..' collapsing, lookup by address, child search.
PathUtil.tla defines Collapse (stack semantics) and IsSearchResult (filter by prefix; table
order / string order / string order with names below a returned 'name/' removed); the lookup
sentence is judged on the walk records of C09's machinery (clause "lookup", under the stated
side condition).  TLC enumerates all absolute paths of 1..5 (thorough 6) components over
{a, bb, .., c., ..x}; child-search queries run on curated and seeded random tables with
duplicate names, common prefixes and metadata of every length; the reply message is decoded by
the OscWire.tla decoder."""
import json, os, random, itertools
from vlib import core
from checks import treegen, C09
from checks.C04 import tname


def port(gen, name, meta=None, sub=None):
    gen.next_id += 1
    segs = [treegen.lit(name)]
    pat = dict(segs=segs, types=dict(has=False, alts=[]))
    return dict(id=gen.next_id, name=[ord(c) for c in name], pat=pat, leaf=sub is None, meta=meta or [], ptr="member", enabledby=0,
                sub=sub or dict(dflt=False, ports=[]))


def search_inputs(seed, n):
    rng = random.Random(seed)
    g = treegen.Gen(seed)
    names = ["a", "ab", "a/", "a/b", "a/x", "b", "b2", "c/d/", "c/d/e", "ba", "aab", "x/", "x/y", "abc"]
    metas = [None, [("doc", "x")], [("parameter", None)], [("doc", "a longer text"), ("min", "0"), ("max", "127")], [("a", "")], [("k", ":=")]]
    out = []
    for i in range(n):
        k = rng.randint(1, 7)
        ports = []
        for _ in range(k):
            nm = rng.choice(names)                      # duplicates on purpose
            m = rng.choice(metas)
            ports.append(port(g, nm, treegen.meta_bytes(m) if m else []))
        # one real sub-tree so that a location can address children below the root
        kids = [port(g, rng.choice(["y", "yy", "y/", "z"]), treegen.meta_bytes(rng.choice(metas) or [])) for _ in range(rng.randint(1, 3))]
        # and a sub-tree inside it: a location two levels down
        deep = [port(g, rng.choice(["y", "a", "ab", "q/"]), treegen.meta_bytes(rng.choice(metas) or [])) for _ in range(rng.randint(1, 3))]
        kids.insert(rng.randrange(len(kids) + 1), port(g, "deep/", [], dict(dflt=False, ports=deep)))
        subname = "m/sub/" if i % 3 == 2 else "sub/"          # a third of the tables: the sub-tree port's own name has two path components
        ports.insert(rng.randrange(len(ports) + 1), port(g, subname, [], dict(dflt=False, ports=kids)))
        tb = dict(dflt=False, ports=ports)
        qs = []
        for loc, nchild in (("", len(ports)), ("/", len(ports)), ("/" + subname, len(kids)), ("/" + subname + "deep/", len(deep))):
            for needle in ("", "a", "ab", "a/", "b", "y", "zz", "c/"):
                for opt in (0, 1, 2):
                    if rng.random() < 0.5:
                        q = dict(loc=[ord(c) for c in loc], needle=[ord(c) for c in needle], opt=opt, with_query=rng.random() < 0.3)
                        if rng.random() < 0.4:
                            q["max"] = nchild                  # the documented size: the number of child ports at that location
                        qs.append(q)
        out.append(dict(table=tb, queries=qs))
    return out


def run(ctx):
    ctx.rule = ("collapse: every absolute path of 1..MaxComps components over {a, bb, .., c., ..x} + seeded random paths of up to 8 components; "
                "lookup: every walked address of the C09 tables (side condition: no namesakes, no sibling prefix); search: seeded random tables of 2..8 "
                "children drawn from 14 names (duplicates, common prefixes, 'name/' entries with names below them) x 6 metadata shapes x "
                "(location, prefix, option, with/without query echo); non-trivial = distinct path with a '..' / distinct (table, query)")
    ctx.assumptions = ["the location of a child search is the root ('' or '/') or a sub-tree port (one or two levels down) addressed by its exact name",
                       "equal names may appear in any relative order after sorting (std::sort is not stable)"]
    if ctx.replay:
        case = json.load(open(ctx.replay))["case"]
        mode = case.pop("mode")
        p = ctx.write_ndjson("in.ndjson", [case])
        ctx.driver("tree_driver", "asan", [mode, p, ctx.path("log.ndjson")])
        judge(ctx, ctx.path("log.ndjson"), mode)
        return
    thorough = ctx.tier == "thorough"
    # collapse
    vec, r = ctx.vectors("PathUtilGen", "PathUtilGen_6.cfg" if thorough else "PathUtilGen_5.cfg", "paths")
    ctx.exhaustive = True
    ctx.bounds["collapse_paths"] = len(vec)
    rng = random.Random(ctx.seed)
    for _ in range(50000 if thorough else 5000):
        comps = [rng.choice(["a", "bb", "..", "..", "c.", "..x", "x..", "d", ".", "..."]) for _ in range(rng.randint(1, 8))]
        vec.append(dict(comps=[[ord(c) for c in x] for x in comps], path=[ord(c) for c in "".join("/" + x for x in comps)]))
    p = ctx.write_ndjson("paths.ndjson", vec)
    ctx.driver("tree_driver", "asan", ["collapse", p, ctx.path("collapse.ndjson")])
    judge(ctx, ctx.path("collapse.ndjson"), "collapse")
    # search
    si = search_inputs(ctx.seed, 4000 if thorough else 400)
    p = ctx.path("search_in.ndjson")
    with open(p, "w") as f:
        for x in si:
            f.write(json.dumps(dict(table=x["table"], queries=x["queries"]), separators=(",", ":")) + "\n")
    ctx.driver("tree_driver", "asan", ["search", p, ctx.path("search.ndjson")])
    judge(ctx, ctx.path("search.ndjson"), "search")
    # lookup: the walk records carry the clause "lookup"
    g = treegen.Gen(ctx.seed + 5)
    inputs = []
    for i in range(1500 if thorough else 200):
        tb, _ = treegen.walk_table(g, rng.randint(1, 3), rng.choice([2, 4, 8]))
        inputs.append(dict(table=tb, rt=False))
    vecw, _ = ctx.vectors("PortTreeGen", "PortTreeGen_struct2.cfg", "tables")
    inputs += [dict(table=v["table"]) for v in vecw]
    C09.run_walk(ctx, inputs, "lookup")


def judge(ctx, log, mode):
    rej = ctx.validate("PortTreeTrace", "PortTreeTrace.cfg", log)
    recs = ctx.read_ndjson(log)
    for i, r in enumerate(recs, 1):
        if mode == "collapse":
            ctx.evaluations += 1
            pth = bytes(r["path"]).decode("latin1")
            if ".." in pth:
                ctx.nontrivial.add(pth)
            for c in rej.get(i, []):
                ctx.reject(dict(clause=c, path=pth), dict(mode="collapse", comps=r["comps"], path=r["path"]),
                           "clause %s fails for collapsing '%s' (got '%s') %s" % (c, pth, bytes(r["result"]).decode("latin1"), r.get("asan_what", "")))
        else:
            ctx.evaluations += len(r["queries"])
            ctx.nontrivial.add(tname(r["table"]))
            for c in rej.get(i, []):
                ctx.reject(dict(clause=c, table=tname(r["table"])), dict(mode="search", table=r["table"], queries=[{k2: q[k2] for k2 in ("loc", "needle", "opt", "with_query", "max") if k2 in q} for q in r["queries"]]),
                           "clause %s fails for a child search on table %s %s" % (c, tname(r["table"]), r.get("asan_what", "")))
    if recs:
        r = recs[len(recs) // 3]
        if mode == "collapse":
            ctx.sample(dict(path=bytes(r["path"]).decode("latin1"), collapsed=bytes(r["result"]).decode("latin1")))
        else:
            q = r["queries"][0] if r["queries"] else {}
            ctx.sample(dict(table=tname(r["table"]), location=bytes(q.get("loc", [])).decode(), prefix=bytes(q.get("needle", [])).decode(), option=q.get("opt"), reply_len=q.get("ret")))
