"""C20 - a learned MIDI controller drives exactly its parameter, within its range.
MidiMapper.tla models both halves of the MIDI learn and the two message queues, one action
per call / port, message delivery as separate actions (every admissible order).  TLC checks
the property's invariants (LearnOrder, UniqueIds, GenConsistent, DrivesItsAddress,
AssignedIsLive) on the repaired design and on the implemented design restricted to
behaviours without a stray bind, rejects two specification mutants, and - on the implemented
design without the restriction - finds the known defect, whose counterexample is replayed on
the real objects.  TLC-simulated behaviours (V = 128) and seeded random histories with random
delivery orders are executed on real MidiMappernRT / MidiMapperRT objects and validated step
by step by MidiMapperTrace, which also evaluates the invariants on every real state."""
import json, os
from vlib import core

STRUCT = ("structure_to_rt", "structure_to_nrt")


def stray_before(ev, upto):
    """was a bind that does not answer a use-CC delivered while a controller was pending (up to call `upto`)?"""
    flags, pend, prev_rt, prev_nrt, stray = [], 0, [], [], False
    for i, e in enumerate(ev[:upto], 1):
        if e["op"] == "deliver_rt":
            if prev_rt:
                k = prev_rt[0]
                a = flags.pop(0) if flags else False
                if k == "bind":
                    if pend > 0 and not a:
                        stray = True
                    pend = max(0, pend - 1)
        new = e["to_rt"][len(prev_rt) - (1 if e["op"] == "deliver_rt" and prev_rt else 0):]
        for k in new:
            flags.append(e["op"] == "deliver_nrt") if k == "bind" else flags.append(False)
        if e["op"] == "cc" and len(e["to_nrt"]) > len(prev_nrt):
            pend += 1
        prev_rt, prev_nrt = e["to_rt"], e["to_nrt"]
    return stray


def steps_of(ev):
    out = []
    for e in ev:
        out.append({k: v for k, v in e.items() if k in ("op", "a", "coarse", "id", "v")})
    return out


def judge(ctx, log, label):
    rej = ctx.validate_execs("MidiMapperTrace", "MidiMapperTrace.cfg", log, timeout=1800, multi=True)
    recs = ctx.read_ndjson(log)
    nstruct = 0
    MODEL_FREE = ("real_unique_ids", "real_drives_bound_address", "value_out_of_range")
    for i, r in enumerate(recs, 1):
        ctx.evaluations += len(r["ev"])
        if sum(1 for e in r["ev"] if e["op"] == "cc" and e["out"]) >= 2:
            ctx.nontrivial.add((label, i))
        if r.get("sig") or r.get("asan"):
            ctx.reject(dict(clause="crash_or_memory_error", source=label, stray_bind_before=stray_before(r["ev"], len(r["ev"]))), dict(steps=steps_of(r["ev"])),
                       "crash/ASan report in a %s MIDI-learn history of %d calls: %s" % (label, len(r["ev"]), r.get("asan_what")))
        if i in rej:
            # every judged step of the execution, in order.  Once the halves have exchanged other messages than the model's (structure_*), model and code
            # have parted ways: from there on only the clauses that speak about the real objects alone are judged (the others would compare apples and pears)
            steps = sorted(rej[i], key=lambda t: t[1])
            parted = min([l for cl, l in steps if any(c in STRUCT for c in cl)] or [10 ** 9])
            # the step at which they part is still judged in full (before it model and code agreed); two readings are reported, the first rejected
            # step with it and the first one without it, so that a parting step explained by a known finding does not hide what the real halves do later
            hits = []
            for incl in (True, False):
                for cl, l in steps:
                    real = [c for c in cl if c not in STRUCT and (l < parted or (incl and l == parted) or c in MODEL_FREE)]
                    if real:
                        if (real, l) not in hits:
                            hits.append((real, l))
                        break
            if not hits:
                nstruct += 1
                continue
            for real, l in hits:
                sb = stray_before(r["ev"], l)
                cleared = any(e["op"] == "clear" for e in r["ev"][:l])      # a clear() leaves the watches of the dropped requests armed
                for c in real:
                    ctx.reject(dict(clause=c, source=label, stray_bind_before=sb, clear_before=cleared), dict(steps=steps_of(r["ev"][:l])),
                               "%s history, call %d (%s): %s%s" % (label, l, steps_of(r["ev"][l - 1:l])[0], c,
                                    " after a bind that answers no use-CC was delivered while a controller was pending" if sb else ""))
    if nstruct:
        ctx.notes["structure_mismatches_" + label] = nstruct
    return recs


def run(ctx):
    ctx.rule = ("(a) exhaustive TLC search of MidiMapper.tla (2 addresses x coarse/fine, 3 controllers, 2-valued halves, 6 API operations, unbounded delivery "
                "interleavings) for the repaired design, the implemented design without stray binds, the implemented design, and 2 mutants; "
                "(b') directed histories (coarse + fine controllers per address, values, then another address unmapped or re-learned, more values); (b) TLC-simulated behaviours with V=128, 4 addresses, 6 controllers replayed on the real objects; (c) seeded random histories with random "
                "delivery laziness; evaluations = steps validated; non-trivial = history in which a bound controller produced >= 2 parameter messages")
    ctx.assumptions = ["parameter ports: /p int 0..127, /q int -64..63, /r float -2.5..10.25, /s float 0..1",
                       "value rule judged: inside [min,max], type of the parameter, monotone in the 14-bit controller value (not the exact scaling)",
                       "a difference in the messages the halves exchange is reported as structure mismatch, not as a violation"]
    if ctx.replay:
        case = json.load(open(ctx.replay))["case"]
        p = ctx.path("steps.ndjson")
        open(p, "w").write(json.dumps(case["steps"]) + "\n")
        ctx.driver("midi_driver", "asan", ["replay", p, ctx.path("log.ndjson")])
        judge(ctx, ctx.path("log.ndjson"), "replay")
        return
    thorough = ctx.tier == "thorough"
    ctx.spec_law("MidiMapper", "MidiMapper_fixed.cfg", workers=16)
    ctx.spec_law("MidiMapper", "MidiMapper_asis_nostray.cfg", workers=16)
    ctx.exhaustive = True
    for b in ("lifo", "wrong_slot"):
        ctx.spec_mutant("MidiMapper", "MidiMapper_%s.cfg" % b, workers=8)
    # the implemented design, unrestricted: a violation here is a defect of the design; its counterexample is replayed on the real objects
    cex = ctx.path("cex.json")
    r = ctx.tlc("MidiMapper", "MidiMapper_asis.cfg", workers=16, extra=["-dumpTrace", "json", cex], count=False)
    steps_files = []
    if r.violated and os.path.exists(cex):
        st = json.load(open(cex))["counterexample"]["state"]
        steps = []
        for s in st[1:]:
            e = dict(s[1]["step"])
            e.pop("stray", None); e.pop("kind", None)
            if "a" in e:
                e["a"] = "/" + e["a"]
            steps.append(e)
        ctx.notes["design_counterexample"] = dict(invariant=r.violated, steps=steps)
        with open(ctx.path("cex_steps.ndjson"), "w") as f:
            f.write(json.dumps(steps) + "\n")
        ctx.driver("midi_driver", "asan", ["replay", ctx.path("cex_steps.ndjson"), ctx.path("cex_log.ndjson")])
        n0 = len(ctx.rejects)
        judge(ctx, ctx.path("cex_log.ndjson"), "design_counterexample")
        ctx.notes["design_counterexample_reproduced_on_real_objects"] = len(ctx.rejects) > n0
    elif r.violated:
        raise core.Broken("TLC reported %s but wrote no trace" % r.violated)
    # engine A
    raw = ctx.path("sim.raw")
    depth = 45
    r = ctx.tlc("MidiMapperSim", "MidiMapperSim.cfg", env={"OUT": raw, "DEPTH": depth}, workers=4, simulate=3000 if thorough else 300, depth=depth, seed=ctx.seed)
    seen = set()
    with open(ctx.path("steps.ndjson"), "w") as f:
        for line in open(raw):
            s = json.loads(line)
            if s not in seen:
                seen.add(s)
                f.write(s + "\n")
    os.remove(raw)
    ctx.driver("midi_driver", "asan", ["replay", ctx.path("steps.ndjson"), ctx.path("logA.ndjson")])
    recs = judge(ctx, ctx.path("logA.ndjson"), "simulated")
    ctx.notes["simulated_behaviours"] = len(recs)
    # engine A': directed histories around the 14-bit values: addresses with a coarse AND a fine controller, values on both halves, then another
    # address is unmapped / re-learned / everything re-bound, then more values - the halves of the untouched addresses must survive
    import random
    rng = random.Random(ctx.seed + 20)
    with open(ctx.path("scen.ndjson"), "w") as f:
        for i in range(3000 if thorough else 400):
            addrs = rng.sample(["/p", "/q", "/r", "/s"], rng.randint(2, 4))
            ids = list(range(1, 13)); rng.shuffle(ids)
            steps, bound = [], {}
            def learn(a, coarse):
                cid = ids.pop()
                steps.extend([dict(op="map", a=a, coarse=coarse), dict(op="drain"), dict(op="cc", id=cid, v=rng.randrange(128)), dict(op="drain")])
                bound.setdefault(a, {})[coarse] = cid
            for a in addrs:
                learn(a, True)
                if rng.random() < 0.7:
                    learn(a, False)
            def play(n):
                for _ in range(n):
                    a = rng.choice(list(bound)); c = rng.choice(list(bound[a]))
                    steps.append(dict(op="cc", id=bound[a][c], v=rng.choice([0, 1, 63, 64, 100, 127, rng.randrange(128)])))
            play(rng.randint(2, 8))
            victim = rng.choice(addrs[:-1])                      # not the last learned: later entries shift
            kind = rng.random()
            if kind < 0.6:
                c = rng.choice(list(bound[victim])); steps.extend([dict(op="unmap", a=victim, coarse=c), dict(op="drain")]); del bound[victim][c]
                if not bound[victim]:
                    del bound[victim]
            else:
                c = rng.choice(list(bound[victim])); del bound[victim][c]
                if not bound[victim]:
                    del bound[victim]
                learn(victim, c)
            if bound:
                play(rng.randint(3, 10))
            f.write(json.dumps(steps) + "\n")
    ctx.driver("midi_driver", "asan", ["replay", ctx.path("scen.ndjson"), ctx.path("logS.ndjson")])
    recsS = judge(ctx, ctx.path("logS.ndjson"), "directed")
    ctx.notes["directed_histories"] = len(recsS)
    # engine B
    ctx.driver("midi_driver", "asan", ["random", ctx.seed, 30000 if thorough else 3000, ctx.path("logB.ndjson")])
    recs2 = judge(ctx, ctx.path("logB.ndjson"), "random")
    ctx.notes["random_histories"] = len(recs2)
    if recs:
        ctx.sample(dict(steps=steps_of(recs[0]["ev"][:14])))
    ctx.sample(dict(steps=steps_of(recs2[-1]["ev"][:14])))
