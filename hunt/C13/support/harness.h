// permutation harness: loads every permutation of `lines` into a fresh object
// (in a forked child, so crashes/hangs are seen) and reports distinct outcomes
#pragma once
#include <rtosc/ports.h>
#include <rtosc/port-sugar.h>
#include <rtosc/savefile.h>
#include <rtosc/default-value.h>
#include <string>
#include <vector>
#include <map>
#include <set>
#include <algorithm>
#include <functional>
#include <cstdio>
#include <cstring>
#include <unistd.h>
#include <sys/wait.h>
#include <signal.h>

template<class Obj>
int run_perms(const char* title, const rtosc::Ports& ports,
              std::vector<std::string> lines,
              std::function<std::string(Obj&)> dump,
              std::function<void(Obj&)> init = nullptr)
{
    std::sort(lines.begin(), lines.end());
    std::map<std::string, std::vector<std::string>> outcomes;
    do {
        std::string file;
        for(auto& l : lines) { file += l; file += "\n"; }
        int fd[2];
        if(pipe(fd)) return 99;
        fflush(stdout);
        pid_t pid = fork();
        if(pid == 0) {
            close(fd[0]);
            alarm(10);
            Obj o;
            if(init) init(o);
            int r = rtosc::dispatch_printed_messages(file.c_str(), ports, &o);
            std::string s = "rval=" + std::to_string(r) + " state=" + dump(o);
            (void)!write(fd[1], s.c_str(), s.size());
            _exit(0);
        }
        close(fd[1]);
        std::string res; char buf[4096]; ssize_t n;
        while((n = read(fd[0], buf, sizeof buf)) > 0) res.append(buf, n);
        close(fd[0]);
        int st; waitpid(pid, &st, 0);
        if(WIFSIGNALED(st)) res = "KILLED by signal " + std::to_string(WTERMSIG(st));
        else if(WEXITSTATUS(st)) res = "EXIT " + std::to_string(WEXITSTATUS(st)) + " " + res;
        std::string oneline;
        for(auto& l : lines) { oneline += l; oneline += " | "; }
        outcomes[res].push_back(oneline);
    } while(std::next_permutation(lines.begin(), lines.end()));

    printf("== %s: %zu distinct outcome(s)\n", title, outcomes.size());
    for(auto& o : outcomes)
        printf("   [%zu perms] %s\n      e.g. %s\n", o.second.size(), o.first.c_str(), o.second[0].c_str());
    return outcomes.size() == 1 ? 0 : 1;
}
