CONSTANTS MaxLen = 2
INIT Init
NEXT Next
INVARIANT Law
CONSTRAINT Emit
CHECK_DEADLOCK FALSE
