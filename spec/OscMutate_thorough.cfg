CONSTANTS Mode = "mutate"  Depth = 3  MaxLen = 0  Alphabet = {0}  Prefix = "none"
INIT Init
NEXT Next
INVARIANT Laws
CONSTRAINT Emit
VIEW View
CHECK_DEADLOCK FALSE
