----------------------------- MODULE RtSafetyGen -----------------------------
(* Input machine for the ThreadLink part of C03: scripts of API calls on one link of     *)
(* MaxMessages x MaxMsg bytes, with an abstract ring (sizes of the queued messages and    *)
(* how far the lookahead cursor went) that tells for every call which class of situation   *)
(* it meets: a write that fits / finds the ring full / is longer than a message may be,    *)
(* hasNext on an empty / non-empty queue, reads of what is there.  TLC enumerates every     *)
(* script up to MaxOps calls; the driver executes each on a real rtosc::ThreadLink inside   *)
(* the realtime section and reports the class it observed, which the trace judge compares.  *)
(* (The FIFO semantics proper is C06's subject; here the model only steers coverage.)       *)
EXTENDS RtAlphabet, Json, CSV, IOUtils, TLC
CONSTANTS MaxOps, MaxMsg, MaxMessages, Prefills
Small == 12     \* "/a" ,i 1
Large == MaxMsg \* "/a" ,s <MaxMsg-9 characters>
VARIABLES q, la, script, pre      \* pre: small messages written and read back during set-up, so that the ring offsets (and the wrap-around copies) vary
gvars == <<q, la, script, pre>>
RECURSIVE Sum(_)
Sum(s) == IF s = <<>> THEN 0 ELSE Head(s) + Sum(Tail(s))
Free == MaxMsg * MaxMessages - 1 - Sum(q)        \* ring_write_size: one forbidden cell
Step(o, op, cls) == script' = Append(script, [o |-> o, op |-> op, cls |-> cls])
Write(o, op, len) == IF len > MaxMsg THEN Step(o, op, "oversized") /\ UNCHANGED <<q, la>>
                     ELSE IF Free >= len THEN Step(o, op, "fits") /\ q' = Append(q, len) /\ UNCHANGED la
                     ELSE Step(o, op, "full") /\ UNCHANGED <<q, la>>
Read == q # <<>> /\ Step("r", "link.read", "nonempty") /\ q' = Tail(q) /\ la' = 0
ReadLa == la < Len(q) /\ Step("R", "link.readLookahead", "nonempty") /\ la' = la + 1 /\ UNCHANGED q
Peak == Step("p", "link.peak", "any") /\ UNCHANGED <<q, la>>
Has == Step("h", "link.hasNext", IF q = <<>> THEN "empty" ELSE "nonempty") /\ UNCHANGED <<q, la>>
HasLa == Step("H", "link.hasNextLookahead", IF la < Len(q) THEN "nonempty" ELSE "empty") /\ UNCHANGED <<q, la>>
Init == q = <<>> /\ la = 0 /\ script = <<>> /\ pre \in Prefills
Next == /\ Len(script) < MaxOps /\ UNCHANGED pre
        /\ \/ Write("ws", "link.write", Small) \/ Write("wl", "link.write", Large) \/ Write("wo", "link.write", MaxMsg + 28)
           \/ Write("as", "link.writeArray", Small) \/ Write("al", "link.writeArray", Large) \/ Write("ao", "link.writeArray", MaxMsg + 28)
           \/ Write("rs", "link.raw_write", Small) \/ Write("rl", "link.raw_write", Large)
           \/ Read \/ ReadLa \/ Peak \/ Has \/ HasLa
\* every class a script step claims is one of the alphabet's
Laws == /\ \A i \in 1..Len(script) : [op |-> script[i].op, cls |-> script[i].cls] \in Alphabet
        /\ la <= Len(q) /\ Sum(q) <= MaxMsg * MaxMessages - 1
Out == IF "OUT" \in DOMAIN IOEnv THEN IOEnv.OUT ELSE "none"
Emit == script = <<>> \/ Out = "none" \/ CSVWrite("%1$s", <<ToJson([k |-> "link", maxmsg |-> MaxMsg, maxmessages |-> MaxMessages, pre |-> pre, ops |-> script])>>, Out)
\* the alphabet and the required classes, for the coverage accounting of the check
AlphaOut == IF "ALPHA" \in DOMAIN IOEnv THEN IOEnv.ALPHA ELSE "none"
ASSUME AlphaOut = "none" \/ CSVWrite("%1$s", <<ToJson([required |-> Required, controls |-> Controls])>>, AlphaOut)
=============================================================================
