"""Check context shared by all property checks: output directory, TLC and driver
invocation, reject collection, known-findings classification, evidence, verdict.

exit codes: 0 property held on everything explored (KNOWN-FINDING lines allowed)
            1 VIOLATION (a reject not covered by known_findings.json)
            2 the check itself is broken (TLC/SANY/build/driver failure) -- never a pass
"""
import json, os, re, shutil, subprocess, sys, time, glob
from . import build, tlc

VERIF = os.path.dirname(os.path.dirname(os.path.abspath(__file__)))
ASAN_ENV = {"ASAN_OPTIONS": "halt_on_error=0:handle_segv=0:handle_abort=0:detect_leaks=0:allocator_may_return_null=1:detect_stack_use_after_return=0",
            "UBSAN_OPTIONS": "abort_on_error=1:print_stacktrace=0", "TZ": "UTC"}


class Broken(Exception):
    pass


def load_findings():
    fs, fixed = [], []
    paths = [os.path.join(VERIF, "known_findings.json")] + sorted(glob.glob(os.path.join(VERIF, "known_findings.d", "*.json")))
    for p in paths:
        if os.path.exists(p):
            j = json.load(open(p))
            fs += j.get("findings", [])
            fixed += j.get("fixed", [])
    return fs, fixed


def _match_one(spec, val):
    if isinstance(spec, dict):
        if "regex" in spec:
            return re.search(spec["regex"], val if isinstance(val, str) else json.dumps(val)) is not None
        if "in" in spec:
            return val in spec["in"]
        if "contains" in spec:
            return spec["contains"] in val
        if "subset_of" in spec:   # every element of val (a list) is listed
            return isinstance(val, list) and len(val) > 0 and all(x in spec["subset_of"] for x in val)
        return False
    return spec == val


def finding_matches(f, rej):
    sig = rej.get("sig", {})
    for k, spec in f.get("match", {}).items():
        if k not in sig or not _match_one(spec, sig[k]):
            return False
    return True


class Died(Exception):
    """the driver process died of a signal: reported as a violation (see Ctx.driver)"""
    def __init__(self, sig, case, what):
        Exception.__init__(self, what)
        self.sig, self.case, self.what = sig, case, what


class Ctx:
    def __init__(self, pid, tier, seed, level="model_checking"):
        self.pid, self.tier, self.seed, self.level = pid, tier, seed, level
        self.t0 = time.time()
        # VERIF_TAG: suffix for scratch runs (seeded changes, mutants) so that they neither clash with nor overwrite the real run's files
        self.tag = os.environ.get("VERIF_TAG", "")
        self.out = os.path.join(VERIF, "out", pid + self.tag)
        shutil.rmtree(self.out, ignore_errors=True)
        os.makedirs(self.out)
        os.makedirs(os.path.join(VERIF, "out", "replay"), exist_ok=True)
        os.makedirs(os.path.join(VERIF, "evidence"), exist_ok=True)
        self.rejects = []            # {sig:{...}, case:{...}, what:str}
        self.states = 0
        self.transitions = 0
        self.traces = 0              # behaviours replayed / executions or records validated against the implementation
        self.evaluations = 0
        self.nontrivial = set()
        self.samples = []
        self.rule = ""
        self.bounds = {}
        self.assumptions = []
        self.notes = {}
        self.exhaustive = False
        self.spec_runs = []

    # ---------------------------------------------------------------- tools
    def path(self, name):
        return os.path.join(self.out, name)

    def tlc(self, module, cfg, count=True, **kw):
        # time limits are written for the quick tier on an idle machine; the thorough tier explores 5-20 x as much, and checks may run side by side
        kw["timeout"] = int(kw.get("timeout", 900) * (6 if self.tier == "thorough" else 2))
        if self.tier == "thorough":
            kw.setdefault("xmx", "24g")
        try:
            r = tlc.run(module, cfg, self.out, **kw)
        except tlc.ModelError as e:
            raise Broken(str(e))
        if count:
            self.states += r.distinct
            self.transitions += r.generated
        self.spec_runs.append(dict(module=module, cfg=cfg, distinct=r.distinct, generated=r.generated,
                                   depth=r.depth, wall_s=round(r.wall, 1), violated=r.violated))
        return r

    def spec_law(self, module, cfg, **kw):
        """model-check a module whose invariants are the property's laws; a violation
        here is a defect of the *design/spec* and is reported as a broken check"""
        r = self.tlc(module, cfg, **kw)
        if r.violated:
            raise Broken("specification law violated in %s/%s: %s\n%s" % (module, cfg, r.violated, r.out[-2500:]))
        return r

    def spec_mutant(self, module, cfg, **kw):
        """vacuity guard: a mutated specification must violate an invariant"""
        r = self.tlc(module, cfg, count=False, **kw)
        if not r.violated:
            raise Broken("specification mutant %s/%s was NOT rejected: the invariants are too weak" % (module, cfg))
        return r

    def vectors(self, module, cfg, outname, workers=16, env=None, **kw):
        """run a *Gen module that writes one JSON line per state via CSVWrite; returns list of dicts"""
        raw = self.path(outname + ".raw")
        if os.path.exists(raw):
            os.remove(raw)
        e = {"OUT": raw}
        e.update(env or {})
        r = self.tlc(module, cfg, workers=workers, env=e, **kw)
        if r.violated:
            raise Broken("specification law violated in %s/%s: %s\n%s" % (module, cfg, r.violated, r.out[-2500:]))
        vec = []
        if os.path.exists(raw):
            for line in open(raw):
                line = line.strip()
                if not line:
                    continue
                try:
                    v = json.loads(line)
                    if isinstance(v, str):
                        v = json.loads(v)
                    vec.append(v)
                except Exception:
                    raise Broken("garbled vector line from TLC in %s" % raw)
        os.remove(raw) if os.path.exists(raw) else None
        return vec, r

    def write_ndjson(self, name, recs):
        p = self.path(name)
        with open(p, "w") as f:
            for r in recs:
                f.write(json.dumps(r, separators=(",", ":")) + "\n")
        return p

    def driver(self, name, variant, args, timeout=1800, env=None, ok_codes=(0,)):
        try:
            exe = build.driver(name, variant)
        except build.BuildError as e:
            raise Broken("build failed: %s" % e)
        e = dict(os.environ)
        e.update(ASAN_ENV)
        e.update(env or {})
        timeout = int(timeout * (6 if self.tier == "thorough" else 2))
        p = subprocess.run(["timeout", str(timeout), exe] + [str(a) for a in args], env=e,
                           stdout=subprocess.PIPE, stderr=subprocess.PIPE, text=True, errors="replace")
        with open(self.path("driver_%s.err" % name), "a") as f:
            f.write(p.stderr[-20000:])
        if p.returncode not in ok_codes:
            # The driver guards every library call (signals, ASan reports, watchdog).  If the PROCESS dies of a signal all the same - 70 is the
            # guard's own exit for a signal that arrives outside a guarded call, 128+n / -n a raw signal - the library corrupted memory the harness
            # lives in (a write far outside its buffer): that is an observation about the code under test, reported as a violation with the
            # sanitizer's first report, not as a broken check.  Time-outs (124) and ordinary failures stay broken checks.
            died = p.returncode == 70 or p.returncode < 0 or p.returncode in (128 + 6, 128 + 11, 128 + 7, 128 + 4, 128 + 8)
            # (the sanitizer run-time gives up by itself when a second memory error strikes while it reports the first: the heap it lives in is gone)
            died = died or "AddressSanitizer: nested bug in the same thread, aborting" in p.stderr or "AddressSanitizer: CHECK failed" in p.stderr
            if died:
                m = re.search(r"ERROR: AddressSanitizer: ([^\n]*)", p.stderr)
                first = m.group(1)[:200] if m else "no sanitizer report"
                keep = []
                for a in args:
                    a = str(a)
                    if a.startswith(os.path.join(VERIF, "out", "replay")) and os.path.isfile(a):      # already a kept copy (this is a replay)
                        keep.append(a)
                    elif a.startswith(self.out) and os.path.isfile(a) and os.path.getsize(a) < 64 * 1024 * 1024 and "log" not in os.path.basename(a):
                        dst = os.path.join(VERIF, "out", "replay", "%s%s_died_%s" % (self.pid, self.tag, os.path.basename(a)))
                        shutil.copy(a, dst)
                        keep.append(dst)
                raise Died(dict(clause="driver_process_died", driver=name), dict(driver=name, variant=variant, args=[str(a) for a in args], inputs=keep, exit=p.returncode),
                           "the process running the real code (%s %s) died with status %d outside every guarded call; first sanitizer report: %s" % (
                               name, args[0] if args else "", p.returncode, first))
            raise Broken("driver %s %s exited %d\n%s" % (name, " ".join(map(str, args)), p.returncode, p.stderr[-2000:]))
        return p

    def read_ndjson(self, path):
        out = []
        for line in open(path):
            line = line.strip()
            if line:
                out.append(json.loads(line))
        return out

    CHUNK_BYTES = int(os.environ.get("VERIF_CHUNK_MB", "48")) * 1024 * 1024      # a trace module reads its whole log into TLC values: logs are judged in pieces of about this size

    def _chunks(self, trace_path):
        """split a log into pieces (whole lines) of about CHUNK_BYTES; yields (path, first_line_number - 1, number_of_lines)"""
        if os.path.getsize(trace_path) <= self.CHUNK_BYTES:      # (a 94 MB log judged in one piece once filled an 8 GB heap to the brim)
            yield trace_path, 0, sum(1 for _ in open(trace_path))
            return
        k, off, cnt, size, out = 0, 0, 0, 0, None
        with open(trace_path) as f:
            for line in f:
                if out is None:
                    k += 1
                    cp = "%s.part%d" % (trace_path, k)
                    out = open(cp, "w")
                out.write(line)
                cnt += 1
                size += len(line)
                if size >= self.CHUNK_BYTES:
                    out.close(); out = None
                    yield cp, off, cnt
                    os.remove(cp)
                    off, cnt, size = off + cnt, 0, 0
        if out is not None:
            out.close()
            yield cp, off, cnt
            os.remove(cp)

    def validate(self, module, cfg, trace_path, **kw):
        """stateless trace validation of a log of any size (judged in pieces): {line -> [clauses]}"""
        rej, extra = {}, {}
        for cp, off, cnt in self._chunks(trace_path):
            r1 = self._validate_one(module, cfg, cp, **kw)
            for l, c in r1.items():
                rej[l + off] = c
            for l, x in self.reject_extra.items():
                extra[l + off] = x
        self.reject_extra = extra
        return rej

    def validate_execs(self, module, cfg, trace_path, **kw):
        """stateful trace validation of a log of any size (judged in pieces): {execution -> (clauses, step)} (or lists with multi=True)"""
        rej = {}
        for cp, off, cnt in self._chunks(trace_path):
            r1 = self._validate_execs_one(module, cfg, cp, **kw)
            for x, v in r1.items():
                rej[x + off] = v
        return rej

    def _validate_one(self, module, cfg, trace_path, env=None, workers=16, fanout=64, **kw):
        """stateless trace validation: returns {line -> [clauses]} for rejected lines.
        TLC prints <<"REJECT", line, {clauses}>>; the number of distinct states must
        equal the number of lines (otherwise the model is broken)."""
        n = sum(1 for _ in open(trace_path))
        if n == 0:
            return {}
        e = {"TRACE": trace_path}
        e.update(env or {})
        r = self.tlc(module, cfg, workers=workers, env=e, **kw)
        if r.violated:
            raise Broken("trace module %s reported %s (it should only print rejects)\n%s" % (module, r.violated, r.out[-2000:]))
        if r.distinct != n + fanout:
            raise Broken("trace module %s judged %d of %d lines" % (module, r.distinct - fanout, n))
        rej = {}
        # TLC pretty-prints long values over several lines
        self.reject_extra = {}
        for m in re.finditer(r'<<\s*"REJECT",\s*(\d+),\s*\{([^}]*)\}\s*(?:,\s*(\d+)\s*)?>>', r.out, re.S):
            rej[int(m.group(1))] = sorted(x.strip().strip('"') for x in m.group(2).split(",") if x.strip())
            if m.group(3) is not None:
                self.reject_extra[int(m.group(1))] = int(m.group(3))
        if len(re.findall(r'"REJECT"', r.out)) < len(rej) or (('"REJECT"' in r.out) and not rej):
            raise Broken("could not parse the rejects printed by %s" % module)
        nprinted = len(set(re.findall(r'"REJECT",\s*(\d+),', r.out)))
        if nprinted != len(rej):
            raise Broken("parsed %d of %d rejects printed by %s" % (len(rej), nprinted, module))
        self.traces += n
        return rej

    def _validate_execs_one(self, module, cfg, trace_path, env=None, workers=16, allow_unfinished=False, multi=False, **kw):
        """stateful trace validation: every line of trace_path is one execution (x = line number);
        the trace module prints <<"DONE", x>> for a fully explained execution and
        <<"REJECT", x, {clauses}, l>> for one that cannot be continued at event l.
        Returns {x: (clauses, l)}; every execution must be accounted for."""
        n = sum(1 for _ in open(trace_path))
        if n == 0:
            return {}
        e = {"TRACE": trace_path}
        e.update(env or {})
        r = self.tlc(module, cfg, workers=workers, env=e, **kw)
        if r.violated:
            raise Broken("trace module %s reported %s\n%s" % (module, r.violated, r.out[-2000:]))
        done = set(int(m.group(1)) for m in re.finditer(r'<<\s*"DONE",\s*(\d+)\s*>>', r.out))
        rej = {}
        for m in re.finditer(r'<<\s*"REJECT",\s*(\d+),\s*\{([^}]*)\}\s*,\s*(\d+)\s*>>', r.out, re.S):
            xx, cl, ll = int(m.group(1)), sorted(x.strip().strip('"') for x in m.group(2).split(",") if x.strip()), int(m.group(3))
            if multi:                                   # every judged step of the execution (the judge goes on after a reject)
                rej.setdefault(xx, [])
                if (cl, ll) not in rej[xx]:
                    rej[xx].append((cl, ll))
            elif xx not in rej or ll < rej[xx][1]:      # an execution may print several rejects: keep the earliest call
                rej[xx] = (cl, ll)
        missing = [x for x in range(1, n + 1) if x not in done and x not in rej and not allow_unfinished]
        if missing:
            raise Broken("trace module %s accounted for %d of %d executions (first missing: %d)" % (module, n - len(missing), n, missing[0]))
        self.traces += len(done)
        return rej

    # ---------------------------------------------------------------- results
    def reject(self, sig, case, what):
        self.rejects.append(dict(sig=sig, case=case, what=what))

    def sample(self, x):
        if len(self.samples) < 5:
            self.samples.append(x)

    def finish(self):
        findings, fixed = load_findings()
        known, new = {}, []
        for rj in self.rejects:
            hit = None
            for f in findings:
                if f.get("property") == self.pid and finding_matches(f, rj):
                    hit = f
                    break
            if hit:
                known.setdefault(hit["id"], [hit, 0])[1] += 1
            else:
                new.append(rj)
        for fid, (f, n) in sorted(known.items()):
            print("KNOWN-FINDING: property=%s %s [%s; %d case(s) in this run]" % (self.pid, f["what"], fid, n))
        replay = None
        if new:
            # group by signature so the report is short; first case of the first group is the replay file
            groups = {}
            for rj in new:
                groups.setdefault(str(rj["sig"].get("clause", json.dumps(rj["sig"], sort_keys=True))), []).append(rj)
            k = 0
            for g, items in list(groups.items())[:20]:
                k += 1
                p = os.path.join(VERIF, "out", "replay", "%s%s_%d.json" % (self.pid, self.tag, k))
                with open(p, "w") as f:
                    json.dump(dict(property=self.pid, sig=items[0]["sig"], what=items[0]["what"], case=items[0]["case"],
                                   similar_cases=len(items)), f, indent=1)
                print("VIOLATION property=%s replay=%s  (%s; %d case(s))" % (self.pid, p, items[0]["what"], len(items)))
                replay = replay or p
        wall = time.time() - self.t0
        cov = dict(states=self.states, transitions=self.transitions,
                   traces_validated_against_impl=self.traces,
                   evaluations=max(self.evaluations, 0), distinct_nontrivial=len(self.nontrivial) if isinstance(self.nontrivial, set) else int(self.nontrivial),
                   rule=self.rule, samples=self.samples, exhaustive=self.exhaustive, bounds=self.bounds,
                   tlc_runs=self.spec_runs, known_findings_reproduced=sorted(known.keys()),
                   repo_src=build.src_root())
        cov.update(self.notes)
        ev = dict(property_id=self.pid, tier=self.tier, seed=int(self.seed), level=self.level, coverage=cov,
                  assumptions=self.assumptions, wall_s=round(wall, 1), violations=len(new))
        # evidence/<id>.json describes runs of the registered commands on /repo's tree; replays and scratch-source runs report elsewhere
        scratch = bool(self.tag) or bool(getattr(self, "replay", None)) or os.path.realpath(build.src_root()) != os.path.realpath("/repo")
        evp = os.path.join(VERIF, "out", "scratch_evidence", "%s%s.json" % (self.pid, self.tag)) if scratch else os.path.join(VERIF, "evidence", "%s.json" % self.pid)
        os.makedirs(os.path.dirname(evp), exist_ok=True)
        with open(evp, "w") as f:
            json.dump(ev, f, indent=1)
        print("%s %s: states=%d transitions=%d impl_traces=%d evaluations=%d nontrivial=%d rejects=%d (known %d, new %d) %.0fs" % (
            self.pid, self.tier, self.states, self.transitions, self.traces, self.evaluations, cov["distinct_nontrivial"],
            len(self.rejects), len(self.rejects) - len(new), len(new), wall))
        return 1 if new else 0


def main(run_fn, pid):
    """entry used by bin/check: run_fn(ctx) performs the check"""
    tier = os.environ.get("VERIF_TIER", "quick")
    argv = sys.argv[1:]
    replay = None
    for i, a in enumerate(argv):
        if a in ("quick", "thorough"):
            tier = a
        if a == "--replay":
            replay = argv[i + 1]
    seed = int(os.environ.get("VERIF_SEED", "1"))
    ctx = Ctx(pid, tier, seed)
    ctx.replay = replay
    try:
        try:
            died_case = None
            if replay:
                rc = json.load(open(replay))
                if rc.get("sig", {}).get("clause") == "driver_process_died":
                    died_case = rc["case"]
            if died_case:      # generic replay of a process death: the same driver on the kept copies of its inputs
                ctx.rule, ctx.assumptions = "replay of a recorded death of the driver process", []
                ctx.samples.append(dict(driver=died_case["driver"], args=died_case["args"][:2]))
                by = {os.path.basename(k).split("_died_", 1)[1]: k for k in died_case["inputs"]}
                args = [by.get(os.path.basename(a), a) if a.startswith(os.path.join(VERIF, "out")) else a for a in died_case["args"]]
                args = [a if not (a.startswith(os.path.join(VERIF, "out")) and a not in by.values()) else ctx.path(os.path.basename(a)) for a in args]
                ctx.driver(died_case["driver"], died_case["variant"], args)
            else:
                run_fn(ctx)
        except Died as d:
            ctx.reject(d.sig, d.case, d.what)
        return ctx.finish()
    except Broken as e:
        print("BROKEN-CHECK property=%s: %s" % (pid, e))
        return 2
    except build.BuildError as e:
        print("BROKEN-CHECK property=%s: build failed: %s" % (pid, e))
        return 2
