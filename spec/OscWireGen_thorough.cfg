CONSTANTS Depth = 3  AddrLens = {1, 2, 3, 4, 5, 6, 7, 8}  BaseLen = 4  Rich = TRUE
INIT Init
NEXT Next
INVARIANT Laws
CONSTRAINT Emit
CHECK_DEADLOCK FALSE
