// build: g++ -std=c++11 -I/tmp/wt/C12_h/include finding11.cpp /tmp/wt/C12_h/_build/librtosc-cpp.a /tmp/wt/C12_h/_build/librtosc.a -o finding11
//
// save_to_file(..., file_str) is documented to append "the new savefile" to
// the passed savefile. The passed file ends without a newline (get_changed_values
// removes it), and nothing is put in between, so the first appended line is
// glued to the last line of the passed file: "/pi 3/pj 4". The result is not
// loadable.
#include <rtosc/rtosc.h>
#include <rtosc/ports.h>
#include <rtosc/savefile.h>
#include <rtosc/port-sugar.h>
#include <cstdio>
#include <string>
#include <set>
using namespace rtosc;

// two objects with their own port trees that go into one file
struct Engine { static const Ports& ports; int pi = 0; };
struct Gui    { static const Ports& ports; int pj = 0; };
#define rObject Engine
static const Ports engine_ports = { rParamI(pi, rDefault(0), "engine parameter") };
#undef rObject
#define rObject Gui
static const Ports gui_ports = { rParamI(pj, rDefault(0), "gui parameter") };
#undef rObject
const Ports& Engine::ports = engine_ports;
const Ports& Gui::ports = gui_ports;

struct Both { Engine e; Gui g; };
static const Ports both_ports = {
    {"pi::i", rProp(parameter) rDefault(0) rDoc("engine parameter"), NULL,
        [](const char* m, RtData& d){ Both* o = (Both*)d.obj; if(!*rtosc_argument_string(m)) d.reply(d.loc, "i", o->e.pi); else o->e.pi = rtosc_argument(m,0).i; }},
    {"pj::i", rProp(parameter) rDefault(0) rDoc("gui parameter"), NULL,
        [](const char* m, RtData& d){ Both* o = (Both*)d.obj; if(!*rtosc_argument_string(m)) d.reply(d.loc, "i", o->g.pj); else o->g.pj = rtosc_argument(m,0).i; }},
};

int main()
{
    Both a; a.e.pi = 3; a.g.pj = 4;
    std::set<std::string> written;
    std::string f = save_to_file(engine_ports, &a.e, "app", rtosc_version{1,0,0}, written, {});
    f = save_to_file(gui_ports, &a.g, "app", rtosc_version{1,0,0}, written, {}, f);
    printf("savefile:\n%s\n", f.c_str());
    Both b;
    int r = load_from_file(f.c_str(), both_ports, &b, "app", rtosc_version{1,0,0});
    printf("expected: two lines \"/pi 3\" and \"/pj 4\"; load returns 2, pi=3 pj=4\n");
    printf("happened: load returns %d, pi=%d pj=%d\n", r, b.e.pi, b.g.pj);
    return (r == 2 && b.e.pi == 3 && b.g.pj == 4) ? 0 : 1;
}
