CONSTANTS Addrs = {"/p", "/q", "/r", "/s"}  Ids = {1, 2, 3, 4, 5, 6}  V = 128  MaxOps = 100000  Fix = FALSE  Bug = "none"
INIT SimInit
NEXT SimNext
CONSTRAINT Export
CHECK_DEADLOCK FALSE
