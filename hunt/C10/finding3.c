// build: cc -O1 -g -I/tmp/wt/C10_h/include -o finding3 finding3.c /tmp/wt/C10_h/_build/librtosc-cpp.a /tmp/wt/C10_h/_build/librtosc.a -lm
/* ---------------------------------------------------------------------------------------------
 * FINDING 3 - "Nx[...]" loses its 'x' when the line is broken
 *
 * Failing input (compression on):
 *  A: message /p true true true [false] [false] [false] [false] [false], line length 25:
 *     printed "/p true true true 5\n    [false]"; scanned: T T T 5 [false] (an int 5 and ONE array).
 *     With line length 80 the text is "/p true true true 5x[false]" and everything is fine.
 *  B: six times [-1234567890 7], line length 10, bare list: printed "6\n    [-1234567890\n    7]".
 *
 * Clause contradicted: "the scanned values equal the originals ... compressed ranges being compared
 *  by their expansion". Independent of the recorded iterator defect for scanned "Nx[...]": the TEXT
 *  is wrong; this program compares by its own expansion.
 *
 * Responsible code: rtosc_print_range, src/cpp/pretty-format.c:267-271, writes "%dx" and calls
 *  rtosc_print_arg_val for the array; there :661-662 set last_sep = buffer - 1 - the 'x' - and claim
 *  (see finding 2) that an argument was already written, so linebreak_check_after_write :179
 *  overwrites the 'x' with '\n' when the first element crosses the line length.
 *
 * Repair: 4th hunk of repairs.diff (same line as finding 2). rtosc_print_range :284 has the same
 *  "(cols_used) ? 1 : 0"; it only matters for uncompressed printing of range cells (outside this
 *  property) but should read *cols_used, too.
 * --------------------------------------------------------------------------------------------- */
/* round-trip helper shared by the finding programs (same text in each of them) */
#include <stdio.h>
#include <stdlib.h>
#include <string.h>
#include <stdint.h>
#include <limits.h>
#include <unistd.h>
#include <sys/wait.h>
#include <rtosc/rtosc.h>
#include <rtosc/arg-ext.h>
#include <rtosc/arg-val-math.h>
#include <rtosc/pretty-format.h>
#include <rtosc/rtosc-time.h>

static __attribute__((unused)) int rt_cells(const rtosc_arg_val_t* a) { return a->type == 'a' ? rtosc_av_arr_len(a) + 1 : 1; }

/* expand ranges ("a ... b", "Nxa") into plain cells; <0 on nonsense */
static int rt_expand(const rtosc_arg_val_t* in, int n_in, rtosc_arg_val_t* out, int cap)
{
    int n = 0;
    for(int i = 0; i < n_in; ) {
        if(n >= cap - 1) return -1;
        if(in[i].type == '-') {
            int num = rtosc_av_rep_num(in+i), hd = rtosc_av_rep_has_delta(in+i);
            if(num <= 0 || num > 10000) return -2;
            if(hd) {
                for(int k = 0; k < num; ++k) { if(n >= cap-1) return -1; rtosc_arg_val_range_arg(in+i, k, out+n); n++; }
                i += 3;
            } else {
                int cs = rt_cells(in+i+1);
                rtosc_arg_val_t tmp[64];
                int en = rt_expand(in+i+1, cs, tmp, 64);
                if(en < 0) return en;
                for(int k = 0; k < num; ++k) { if(n + en >= cap-1) return -1; memcpy(out+n, tmp, en*sizeof(*tmp)); n += en; }
                i += 1 + cs;
            }
        } else if(in[i].type == 'a') {
            int len = rtosc_av_arr_len(in+i);
            rtosc_arg_val_t* hdr = out + n;
            *hdr = in[i];
            int en = rt_expand(in+i+1, len, out+n+1, cap-n-1);
            if(en < 0) return en;
            rtosc_av_arr_len_set(hdr, en);
            n += en + 1; i += len + 1;
        } else out[n++] = in[i++];
    }
    return n;
}
static int rt_eq(const rtosc_arg_val_t* a, int na, const rtosc_arg_val_t* b, int nb)
{
    if(na != nb) return 0;
    for(int i = 0; i < na; ++i) {
        if(a[i].type != b[i].type) return 0;
        switch(a[i].type) {
            case 'i': case 'c': case 'r': if(a[i].val.i != b[i].val.i) return 0; break;
            case 'h': if(a[i].val.h != b[i].val.h) return 0; break;
            case 't': if(a[i].val.t != b[i].val.t) return 0; break;
            case 'f': if(a[i].val.f != b[i].val.f) return 0; break;
            case 'd': if(a[i].val.d != b[i].val.d) return 0; break;
            case 's': case 'S': if(strcmp(a[i].val.s, b[i].val.s)) return 0; break;
            case 'a': if(rtosc_av_arr_len(a+i) != rtosc_av_arr_len(b+i)) return 0; break;
            default: break;
        }
    }
    return 1;
}
static __attribute__((unused)) void rt_show(const char* what, const rtosc_arg_val_t* a, int n)
{
    printf("  %s:", what);
    for(int i = 0; i < n; ++i) switch(a[i].type) {
        case 'i': printf(" %d", a[i].val.i); break;
        case 'c': printf(" '%c'", a[i].val.i); break;
        case 'h': printf(" %lldh", (long long)a[i].val.h); break;
        case 't': printf(" t:%016llx", (unsigned long long)a[i].val.t); break;
        case 's': case 'S': printf(" \"%s\"%s", a[i].val.s, a[i].type == 'S' ? "S" : ""); break;
        case 'a': printf(" [array of %d:", rtosc_av_arr_len(a+i)); break;
        case '-': printf(" <range num=%d delta=%d>", rtosc_av_rep_num(a+i), rtosc_av_rep_has_delta(a+i)); break;
        default: printf(" <%c>", a[i].type ? a[i].type : '0');
    }
    printf("\n");
}

/* One round trip, done in a child process so that a crash is reported instead of taking the program down.
   returns 0 = property holds, 1 = property violated */
static int rt_roundtrip(const char* title, const rtosc_arg_val_t* orig, int n, const rtosc_print_options* opt, int as_message)
{
    printf("%s\n", title);
    fflush(stdout);
    pid_t pid = fork();
    if(pid == 0) {
        static char pbuf_[65536 + 8]; static char sbuf[65536];
        static rtosc_arg_val_t scanned[1024], eo[4096], es[4096];
        char* pbuf = pbuf_ + 8; memset(pbuf_, ' ', 8);           /* buffer[-1] is whitespace, as the header demands */
        pbuf[0] = 0;
        int bad = 0;
        size_t wrt = as_message ? rtosc_print_message("/p", orig, n, pbuf, 65536, opt, 0)
                                : rtosc_print_arg_vals(orig, n, pbuf, 65536, opt, 0);
        printf("  printed text: <<%s>>\n", pbuf);
        if(strlen(pbuf) != wrt) { printf("  VIOLATION: printer returned %zu, text has %zu bytes\n", wrt, strlen(pbuf)); bad = 1; }
        int cnt = as_message ? rtosc_count_printed_arg_vals_of_msg(pbuf) : rtosc_count_printed_arg_vals(pbuf);
        printf("  syntax checker: %d\n", cnt);
        if(cnt < 0 || (cnt == 0 && n)) { printf("  VIOLATION: the syntax checker rejects what the printer wrote\n"); fflush(stdout); _exit(1); }
        if(cnt > 1000) _exit(1);
        for(int i = cnt; i < cnt + 8; ++i) scanned[i].type = '#';   /* canaries behind the cells the checker announced */
        fflush(stdout);
        char addr[16];
        size_t rd = as_message ? rtosc_scan_message(pbuf, addr, sizeof(addr), scanned, cnt, sbuf, sizeof(sbuf))
                               : rtosc_scan_arg_vals(pbuf, scanned, cnt, sbuf, sizeof(sbuf));
        if(rd != strlen(pbuf)) { printf("  VIOLATION: scanner consumed %zu of %zu bytes\n", rd, strlen(pbuf)); bad = 1; }
        for(int i = cnt; i < cnt + 8; ++i) if(scanned[i].type != '#') { printf("  VIOLATION: scanner wrote cell %d, checker announced only %d\n", i, cnt); bad = 1; break; }
        rt_show("scanned cells", scanned, cnt);
        int no = rt_expand(orig, n, eo, 4096), ns = rt_expand(scanned, cnt, es, 4096);
        if(ns < 0) { printf("  VIOLATION: scanned cells hold a nonsensical range\n"); bad = 1; }
        else if(!rt_eq(eo, no, es, ns)) { rt_show("expected values", eo, no); rt_show("scanned values ", es, ns); printf("  VIOLATION: scanned values differ from the originals\n"); bad = 1; }
        if(!bad) printf("  ok\n");
        fflush(stdout);
        _exit(bad);
    }
    int st = 0; waitpid(pid, &st, 0);
    if(WIFSIGNALED(st)) { printf("  VIOLATION: crashed with signal %d\n", WTERMSIG(st)); return 1; }
    return WEXITSTATUS(st) != 0;
}
static __attribute__((unused)) rtosc_arg_val_t rt_i(int32_t v) { rtosc_arg_val_t a; memset(&a, 0, sizeof(a)); a.type = 'i'; a.val.i = v; return a; }
static __attribute__((unused)) rtosc_arg_val_t rt_h(int64_t v) { rtosc_arg_val_t a; memset(&a, 0, sizeof(a)); a.type = 'h'; a.val.h = v; return a; }
static __attribute__((unused)) rtosc_arg_val_t rt_c(char v)    { rtosc_arg_val_t a; memset(&a, 0, sizeof(a)); a.type = 'c'; a.val.i = v; return a; }
static __attribute__((unused)) rtosc_arg_val_t rt_s(const char* v) { rtosc_arg_val_t a; memset(&a, 0, sizeof(a)); a.type = 's'; a.val.s = v; return a; }
static __attribute__((unused)) rtosc_arg_val_t rt_arr(char type, int len) { rtosc_arg_val_t a; memset(&a, 0, sizeof(a)); a.type = 'a'; rtosc_av_arr_type_set(&a, type); rtosc_av_arr_len_set(&a, len); return a; }
static rtosc_arg_val_t rt_T(int t) { rtosc_arg_val_t a; memset(&a, 0, sizeof(a)); a.type = t ? 'T' : 'F'; a.val.T = t; return a; }
int main(void)
{
    setenv("TZ", "UTC", 1);
    int bad = 0;
    rtosc_arg_val_t v[64]; int n = 0;
    for(int i = 0; i < 3; ++i) v[n++] = rt_T(1);
    for(int i = 0; i < 5; ++i) { v[n++] = rt_arr('F', 1); v[n++] = rt_T(0); }
    {
        rtosc_print_options opt = { true, 2, " ", 80, true };
        if(rt_roundtrip("control: true true true + 5 times [false], line length 80 (passes)", v, n, &opt, 1))
            printf("  (unexpected: the control fails as well)\n");
    }
    {
        rtosc_print_options opt = { true, 2, " ", 25, true };
        bad |= rt_roundtrip("A: the same message, line length 25 (expected: 3 trues and 5 arrays come back)", v, n, &opt, 1);
    }
    {
        rtosc_print_options opt = { true, 2, " ", 10, true };
        rtosc_arg_val_t w[24]; int m = 0;
        for(int i = 0; i < 6; ++i) { w[m++] = rt_arr('i', 2); w[m++] = rt_i(-1234567890); w[m++] = rt_i(7); }
        bad |= rt_roundtrip("B: 6 times [-1234567890 7], line length 10, bare argument list (expected: 6 arrays come back)", w, m, &opt, 0);
    }
    printf(bad ? "FAILED\n" : "all fine\n");
    return bad;
}
