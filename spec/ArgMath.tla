---------------------------- MODULE ArgMath ----------------------------
(* The arithmetic on argument values (src/cpp/arg-val-math.c) that range            *)
(* compression, range expansion and the scanner's "a b ... c" are built on:          *)
(* null, from_int, negate, round, add, sub, mult, div, to_int and                    *)
(*   range_arg(first, delta, i) = first + i * delta                                  *)
(* as a small typed algebra.  A value is [t, n]: n an integer for c / i / h, the     *)
(* value in SIXTEENTHS for f / d (every float in play is a multiple of 1/4, so       *)
(* products and the generated quotients stay exact), 1 / 0 for T / F.  Booleans form *)
(* the two-element algebra the code implements: add and sub are "differs", mult is   *)
(* "and" on mixed operands.  A result is [ok, v]; ok = FALSE is the documented       *)
(* "operation not defined for this type".                                            *)
(* ArgMathGen.tla enumerates the records and checks the algebra's laws on each;      *)
(* ArgMathTrace.tla applies Expected to what the real functions returned.            *)
EXTENDS Integers, Sequences, FiniteSets, TLC, Json, CSV, IOUtils
IntT == {"c", "i", "h"}   FltT == {"f", "d"}   Bool == {"T", "F"}
V(t, n) == [t |-> t, n |-> n]
BoolV(b) == IF b THEN V("T", 1) ELSE V("F", 0)
Fail == [ok |-> FALSE, v |-> V("?", 0)]
Ok(v) == [ok |-> TRUE, v |-> v]
Abs(n) == IF n < 0 THEN 0 - n ELSE n
Sgn(n) == IF n < 0 THEN 0 - 1 ELSE 1
TruncDiv(a, b) == Sgn(a) * Sgn(b) * (Abs(a) \div Abs(b))           \* C division: towards zero
Null(t) == CASE t \in {"h", "t", "d", "f", "c", "i", "r", "s", "S"} -> Ok(V(t, 0)) [] t \in Bool -> Ok(V("F", 0)) [] OTHER -> Fail
FromInt(t, k) == CASE t \in IntT -> Ok(V(t, k)) [] t \in FltT -> Ok(V(t, 16 * k)) [] t \in Bool -> Ok(BoolV(k # 0)) [] OTHER -> Fail
Negate(a) == CASE a.t \in IntT \cup FltT -> Ok(V(a.t, 0 - a.n)) [] a.t = "T" -> Ok(V("F", 0)) [] a.t = "F" -> Ok(V("T", 1)) [] OTHER -> Fail
\* "round" cuts the fraction off unless it is at least 0.999 (never, for sixteenths): towards zero
Round(a) == CASE a.t \in FltT -> Ok(V(a.t, 16 * TruncDiv(a.n, 16))) [] a.t \in IntT \cup Bool -> Ok(a) [] OTHER -> Fail
Mixed(a, b) == a.t \in Bool /\ b.t \in Bool /\ a.t # b.t
Add(a, b) == IF a.t # b.t THEN (IF Mixed(a, b) THEN Ok(V("T", 1)) ELSE Fail)
             ELSE CASE a.t \in IntT \cup FltT -> Ok(V(a.t, a.n + b.n)) [] a.t \in Bool -> Ok(V("F", 0)) [] OTHER -> Fail
Sub(a, b) == IF a.t # b.t THEN Add(a, b)
             ELSE CASE a.t \in IntT \cup FltT -> Ok(V(a.t, a.n - b.n)) [] a.t \in Bool -> Ok(V("F", 0)) [] OTHER -> Fail
Mult(a, b) == IF a.t # b.t THEN (IF Mixed(a, b) THEN Ok(V("F", 0)) ELSE Fail)
              ELSE CASE a.t \in IntT -> Ok(V(a.t, a.n * b.n)) [] a.t \in FltT -> Ok(V(a.t, (a.n * b.n) \div 16)) [] a.t \in Bool -> Ok(a) [] OTHER -> Fail
Div(a, b) == IF a.t # b.t THEN Fail
             ELSE CASE a.t \in IntT -> Ok(V(a.t, TruncDiv(a.n, b.n))) [] a.t \in FltT -> Ok(V(a.t, TruncDiv(a.n * 16, b.n))) [] a.t = "T" -> Ok(V("T", 1)) [] OTHER -> Fail
ToInt(a) == CASE a.t \in IntT -> Ok(V("i", a.n)) [] a.t \in FltT -> Ok(V("i", TruncDiv(a.n, 16))) [] a.t \in Bool -> Ok(V("i", a.n)) [] OTHER -> Fail
\* the i-th value of the range that starts at `first` with stride `delta`: from_int, mult, add - failing if any of them fails
RangeArg(first, delta, i) == LET k == FromInt(delta.t, i) IN
                             IF ~ k.ok THEN Fail ELSE LET m == Mult(k.v, delta) IN IF ~ m.ok THEN Fail ELSE Add(first, m.v)
\* ------------------------------------------------------------------ what a record asks for
Expected(r) == CASE r.op = "null" -> Null(r.a.t) [] r.op = "fromint" -> FromInt(r.a.t, r.i) [] r.op = "neg" -> Negate(r.a) [] r.op = "round" -> Round(r.a)
                 [] r.op = "add" -> Add(r.a, r.b) [] r.op = "sub" -> Sub(r.a, r.b) [] r.op = "mult" -> Mult(r.a, r.b) [] r.op = "div" -> Div(r.a, r.b)
                 [] r.op = "toint" -> ToInt(r.a) [] r.op = "range" -> RangeArg(r.a, r.b, r.i)
\* ------------------------------------------------------------------ generator
IntPool == {0 - 7, 0 - 1, 0, 1, 2, 12}
FltPool == {0 - 40, 0 - 16, 0, 4, 8, 16, 24, 48}                 \* -2.5 -1 0 0.25 0.5 1 1.5 3
Pool == { V(t, n) : t \in IntT, n \in IntPool } \cup { V(t, n) : t \in FltT, n \in FltPool } \cup { V("T", 1), V("F", 0), V("s", 0), V("t", 5), V("m", 0) }
Idx == {0 - 2, 0, 1, 3, 6}
\* divisions whose result is exact and defined (no division by zero, no F / F which the code asserts on)
DivOk(a, b) == a.t # b.t \/ (a.t \in IntT /\ b.n # 0) \/ (a.t \in FltT /\ b.n # 0 /\ (a.n * 16) % Abs(b.n) = 0) \/ a.t = "T" \/ a.t \notin (IntT \cup FltT \cup Bool)
\* scale = 32: both operands of a linear operation on 64-bit integers stand for n * 2^32 (so does the result)
Records == { [op |-> o, a |-> a, b |-> V("?", 0), i |-> 0, scale |-> 0] : o \in {"null", "neg", "round", "toint"}, a \in Pool }
      \cup { [op |-> "fromint", a |-> a, b |-> V("?", 0), i |-> i, scale |-> 0] : a \in Pool, i \in Idx }
      \cup { [op |-> o, a |-> a, b |-> b, i |-> 0, scale |-> 0] : o \in {"add", "sub", "mult"}, a \in Pool, b \in Pool }
      \cup { [op |-> "div", a |-> p[1], b |-> p[2], i |-> 0, scale |-> 0] : p \in { q \in Pool \X Pool : DivOk(q[1], q[2]) } }
      \cup { [op |-> "range", a |-> a, b |-> b, i |-> i, scale |-> 0] : a \in Pool, b \in Pool, i \in Idx }
      \cup { [op |-> o, a |-> V("h", x), b |-> V("h", y), i |-> 0, scale |-> 32] : o \in {"add", "sub"}, x \in IntPool, y \in IntPool }
      \cup { [op |-> "range", a |-> V("h", x), b |-> V("h", y), i |-> i, scale |-> 32] : x \in IntPool, y \in IntPool, i \in Idx }
=============================================================================
