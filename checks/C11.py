"""C11 - the scanner accepts the documented text syntax and canonicalises it.
PrettyGrammar.tla transcribes the grammar of doc/Guide.adoc as rendering functions (a token =
value + documented spelling: decimal/hex integers, i/h/f/d suffixes, '1.', exponent and hex
floats, the parenthesised exact value, escaped chars, concatenated strings, identifiers and
"..."S, keywords, MIDI, colours, the four date lengths, NxA, 'a b ... c', arrays with ranges and
open-ended '...'); PrettyGrammarGen enumerates all sentences up to MaxTokens tokens per pool with
every separator choice and writes text + denotation; the real checker and scanner run on each,
and PrettySentence.tla judges."""
import json, os
from vlib import core


def judge(ctx, log, label):
    rej = ctx.validate("PrettySentence", "PrettySentence.cfg", log, timeout=3000)
    n = 0
    with open(log) as f:
        for i, line in enumerate(f, 1):
            n += 1
            if i in rej or i % 9000 == 5:
                r = json.loads(line)
                text = bytes(r["in"]["text"]).decode("latin1")
                if i % 9000 == 5:
                    ctx.sample(dict(text=text, denotes=[x["t"] for x in r["in"]["exp"]], count=r.get("count")))
                for c in rej.get(i, []):
                    ctx.reject(dict(clause=c, source=label, text=text), dict(text=r["in"]["text"], exp=r["in"]["exp"], ntok=r["in"].get("ntok", 0)),
                               "clause %s fails for the sentence %r (count %s, consumed %s of %d) %s" % (c, text, r.get("count"), r.get("consumed"), len(text), r.get("asan_what", "")))
    return n


def run(ctx):
    ctx.rule = ("every sentence of PrettyGrammarGen with <= MaxTokens tokens over three token pools (44 numeric spellings, 48 text/keyword/MIDI/colour/date "
                "spellings, 22 compound forms: NxA, ranges with/without left-of-left-hand sign over ints and floats, arrays with ranges and open ends) x 5 "
                "separators at every boundary x 4 trailers; plus TLC-simulated longer sentences (up to 10 tokens); evaluations = sentences; non-trivial = sentence with >= 2 tokens")
    ctx.assumptions = ["numeric values are dyadic or exactly representable (no decimal->binary rounding is judged)", "TZ=UTC",
                       "octal spellings are not generated (the manual promises C99 behaviour, the scanner reads 077 as 77 - recorded in DESIGN.md, not judged)",
                       "blobs are written BLOB [n 0x..] as the printer writes them (the manual's '[6 0x72 ...]' is an array to both recognisers)",
                       "separators are inserted between and after values (the argument scanner does not skip leading blanks; messages do)"]
    if ctx.replay:
        case = json.load(open(ctx.replay))["case"]
        p = ctx.write_ndjson("in.ndjson", [case])
        ctx.driver("pretty_driver", "asan", ["sentence", p, ctx.path("log.ndjson")])
        ctx.evaluations = judge(ctx, ctx.path("log.ndjson"), "replay")
        return
    thorough = ctx.tier == "thorough"
    vec = []
    for pool in ("numbers", "texts", "compound"):
        v, r = ctx.vectors("PrettyGrammarGen", "PrettyGrammarGen_%s2.cfg" % pool, "gg_" + pool, timeout=1800)
        ctx.bounds[pool] = r.distinct
        if not thorough and pool != "compound":
            v = [x for j, x in enumerate(v) if x["ntok"] == 1 or j % 5 == ctx.seed % 5]
        vec += v
    ctx.exhaustive = thorough
    # longer sentences: TLC -simulate over the mixed pool
    raw = ctx.path("sim.raw")
    for pool in ("numbers", "texts"):      # compound forms stay in the exhaustive <= 2 token space (see DESIGN.md 4 C11)
        ctx.tlc("PrettyGrammarGen", "PrettyGrammarSim_%s.cfg" % pool, env={"OUT": raw}, workers=4, simulate=(2000 if thorough else 150), depth=10, seed=ctx.seed, count=False)
    seen = set()
    sim = []
    for line in open(raw):
        s = json.loads(line)
        if s not in seen:
            seen.add(s)
            sim.append(json.loads(s))
    os.remove(raw)
    ctx.notes["simulated_sentences"] = len(sim)
    # "any extra whitespace, line breaks or '%' comments between values" also in front of the first value: a sample of the sentences once more with a
    # leading blank, line break or comment (same denotation)
    lead = []
    for j, x in enumerate(vec + sim):
        if j % 40 == ctx.seed % 40 and x["text"]:
            for pre in ([32], [10, 32, 32], [37, 32, 116, 119, 111, 10]):
                lead.append(dict(text=pre + x["text"], exp=x["exp"], ntok=x["ntok"]))
    ctx.notes["sentences_with_leading_separator"] = len(lead)
    sim = sim + lead
    p = ctx.write_ndjson("in.ndjson", vec + sim)
    ctx.driver("pretty_driver", "asan", ["sentence", p, ctx.path("log.ndjson")], timeout=3000)
    n = judge(ctx, ctx.path("log.ndjson"), "generated")
    ctx.evaluations = n
    ctx.nontrivial = set(bytes(x["text"]) for x in vec + sim if x["ntok"] >= 2)
    ctx.notes["enumerated_sentences"] = len(vec)
    os.remove(ctx.path("log.ndjson")); os.remove(ctx.path("in.ndjson"))
