---------------------------- MODULE PathPatternTrace ----------------------------
(* Judgement for C05.  "sweep" lines: one pattern and the set of addresses (over   *)
(* the whole universe of strings up to MAXLEN over an 11-symbol alphabet) that the  *)
(* real rtosc_match_path / rtosc_match accepted; compared with the pattern's        *)
(* language.  "point" lines: one (pattern, address, type string) and the two        *)
(* results.  Type rule as an admissible set: MUST match when the tags equal an      *)
(* alternative, MUST NOT when they are neither equal to nor an extension of one.    *)
EXTENDS PathPattern, Json, IOUtils
Log == ndJsonDeserialize(IOEnv.TRACE)
MaxLen == atoi(IOEnv.MAXLEN)
Alphabet == {97, 98, 58, 48, 49, 50, 57, 47, 35, 123, 125}      \* a b : 0 1 2 9 / # { }  (the ':' that separates a pattern's path from its types is a legal address character)
RECURSIVE Strings(_)
Strings(n) == IF n = 0 THEN { <<>> } ELSE LET S == Strings(n - 1) IN S \cup { Append(s, c) : s \in { y \in S : Len(y) = n - 1 }, c \in Alphabet }
Universe == Strings(MaxLen)
VARIABLE l
NB == 64
Init == l \in {0 - b : b \in 1..NB}
Next == /\ l < 0
        /\ \E j \in 0..(Len(Log) \div NB) : LET i == j * NB + (0 - l) IN i <= Len(Log) /\ l' = i
Range(f) == { f[i] : i \in DOMAIN f }
SweepFails(r) ==
  IF r.sig # 0 THEN {"crash_or_hang"}
  ELSE LET lang == { a \in Universe : MatchPath(r.pat, a) }
           m == Range(r.matched)
           langne == lang \ { <<>> } IN
    {k \in {"oob_read", "render", "path_missed", "path_extra", "types_missed", "types_forbidden", "types_outside_language"} :
     ~ CASE k = "oob_read" -> r.asan = 0
         [] k = "render" -> Render(r.pat) = r.name
         [] k = "path_missed" -> lang \subseteq m
         [] k = "path_extra" -> m \subseteq lang
         [] k = "types_missed" -> \A t \in 1..Len(r.tags) : TypeVerdict(r.pat, r.tags[t]) = 2 => langne \subseteq Range(r.tmatched[t])
         [] k = "types_forbidden" -> \A t \in 1..Len(r.tags) : TypeVerdict(r.pat, r.tags[t]) = 0 => r.tmatched[t] = <<>>
         [] k = "types_outside_language" -> \A t \in 1..Len(r.tags) : Range(r.tmatched[t]) \subseteq lang }
\* digit runs longer than 9 are outside the property's domain (and TLC's integers): not judged
RECURSIVE LongRun(_, _)
LongRun(a, run) == IF a = <<>> THEN FALSE
                   ELSE IF IsDigit(Head(a)) THEN (run + 1 > 9 \/ LongRun(Tail(a), run + 1)) ELSE LongRun(Tail(a), 0)
PointFails(r) ==
  IF r.sig # 0 THEN {"crash_or_hang"}
  ELSE IF LongRun(r.addr, 0) THEN (IF r.asan = 0 THEN {} ELSE {"oob_read"})
  ELSE LET inl == MatchPath(r.pat, r.addr)  v == TypeVerdict(r.pat, r.tags) IN
    {k \in {"oob_read", "render", "path_missed", "path_extra", "types_missed", "types_forbidden", "types_outside_language"} :
     ~ CASE k = "oob_read" -> r.asan = 0
         [] k = "render" -> Render(r.pat) = r.name
         [] k = "path_missed" -> inl => r.path_res
         [] k = "path_extra" -> r.path_res => inl
         [] k = "types_missed" -> (inl /\ v = 2) => r.full_res
         [] k = "types_forbidden" -> v = 0 => ~ r.full_res
         [] k = "types_outside_language" -> r.full_res => inl }
Fails(r) == IF r.k = "sweep" THEN SweepFails(r) ELSE PointFails(r)
Judge == l < 0 \/ LET f == Fails(Log[l]) IN f = {} \/ PrintT(<<"REJECT", l, f>>)
=============================================================================
