---------------------------- MODULE Metadata ----------------------------
(* Port metadata blocks as the rMap/rProp/rDoc/rOptions macros build them:        *)
(*   Block(entries) = for each entry  ':' key NUL  and, if it has a value,         *)
(*                    '=' value NUL ;  then one final NUL.                         *)
(* An entry is [key |-> bytes, has |-> BOOLEAN, val |-> bytes]; keys are non-empty,  *)
(* contain no NUL and do not begin with ':' (an identifier cannot); values contain  *)
(* no NUL but may contain ':' and '='.                                              *)
EXTENDS Naturals, Sequences, FiniteSets
RECURSIVE Block(_)
Block(es) == IF es = <<>> THEN <<0>>
             ELSE LET e == Head(es) IN
                  <<58>> \o e.key \o <<0>> \o (IF e.has THEN <<61>> \o e.val \o <<0>> ELSE <<>>) \o Block(Tail(es))
Length(es) == Len(Block(es))                                  \* bytes including the terminator
Pairs(es) == [i \in 1..Len(es) |-> [key |-> es[i].key, has |-> es[i].has, val |-> IF es[i].has THEN es[i].val ELSE <<>>]]
HasKey(es, k) == \E i \in 1..Len(es) : es[i].key = k
First(es, k) == es[CHOOSE i \in 1..Len(es) : es[i].key = k /\ \A j \in 1..(i - 1) : es[j].key # k]
\* value of the first entry with that key; nothing if absent or valueless
Lookup(es, k) == IF HasKey(es, k) /\ First(es, k).has THEN [some |-> TRUE, val |-> First(es, k).val] ELSE [some |-> FALSE, val |-> <<>>]
\* the inverse: read a block back (used for the law Iterate(Block(es)) = es)
RECURSIVE FindNul(_, _)
FindNul(b, p) == IF p > Len(b) THEN 0 ELSE IF b[p] = 0 THEN p ELSE FindNul(b, p + 1)
RECURSIVE Iterate(_, _)
Iterate(b, p) ==      \* p: position of a ':' or of the final NUL
  IF p > Len(b) \/ b[p] # 58 THEN <<>>
  ELSE LET z == FindNul(b, p + 1)
           key == SubSeq(b, p + 1, z - 1) IN
       IF z + 1 <= Len(b) /\ b[z + 1] = 61
       THEN LET z2 == FindNul(b, z + 2) IN <<[key |-> key, has |-> TRUE, val |-> SubSeq(b, z + 2, z2 - 1)]>> \o Iterate(b, z2 + 1)
       ELSE <<[key |-> key, has |-> FALSE, val |-> <<>>]>> \o Iterate(b, z + 1)
=============================================================================
