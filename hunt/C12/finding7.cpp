// build: g++ -std=c++11 -I/tmp/wt/C12_h/include finding7.cpp /tmp/wt/C12_h/_build/librtosc-cpp.a /tmp/wt/C12_h/_build/librtosc.a -o finding7
// (memory error made visible: clang++ -g -DNDEBUG -fsanitize=address -I/tmp/wt/C12_h/include -I/tmp/wt/C12_h/_build finding7.cpp /tmp/wt/C12_h/src/cpp/{savefile,ports,ports-runtime,default-value}.cpp -x c /tmp/wt/C12_h/src/*.c /tmp/wt/C12_h/src/cpp/*.c /tmp/wt/C12_h/_build/cpp/version.c -o finding7_asan && ./finding7_asan 9000)
//
// A string parameter of about 8 KiB or more is saved without complaint, but
// dispatch_printed_messages() scans every line into fixed buffers of 8192
// bytes: with 8170..8191 characters the rebuilt message does not fit and the
// library rejects its own savefile; from 8192 characters on the scanner writes
// behind the heap buffer (pass the length as argument, e.g. 9000, to see it).
#include <rtosc/rtosc.h>
#include <rtosc/ports.h>
#include <rtosc/savefile.h>
#include <rtosc/port-sugar.h>
#include <cstdio>
#include <cstdlib>
#include <cstring>
#include <string>
#include <set>
using namespace rtosc;

#define LEN 20000
struct App { static const Ports& ports; char text[LEN] = ""; };
#define rObject App
static const Ports app_ports = { rString(text, LEN, rDefault(""), "a long text") };
#undef rObject
const Ports& App::ports = app_ports;

int main(int argc, char** argv)
{
    int n = argc > 1 ? atoi(argv[1]) : 8180;
    static App a, b;
    std::string value;
    for(int i = 0; i < n; ++i) value += (char)('a' + i % 26);
    {   // the state is reached through the parameter port
        static char buf[2*LEN]; char loc[64] = "";
        rtosc_message(buf, sizeof(buf), "/text", "s", value.c_str());
        RtData d; d.obj = &a; d.loc = loc; d.loc_size = sizeof(loc);
        app_ports.dispatch(buf, d, true);
    }
    std::set<std::string> written;
    std::string f = save_to_file(app_ports, &a, "app", rtosc_version{1,0,0}, written, {});
    printf("state: text of %zu characters; savefile of %zu bytes\n", strlen(a.text), f.size());
    int r = load_from_file(f.c_str(), app_ports, &b, "app", rtosc_version{1,0,0});
    printf("expected: load returns 1 and restores the text\n");
    printf("happened: load returns %d, restored text has %zu characters (%s)\n", r, strlen(b.text),
           strcmp(a.text, b.text) ? "differs" : "same");
    return (r == 1 && !strcmp(a.text, b.text)) ? 0 : 1;
}
