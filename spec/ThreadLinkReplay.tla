---------------------------- MODULE ThreadLinkReplay ----------------------------
(* Engine A judgement for C06.  Each log line holds a behaviour `exp` of            *)
(* ThreadLink.tla (from TLC) and what the real ThreadLink did when the conformance  *)
(* driver forced that schedule on it (`obs`).  "structure": the code did not stop   *)
(* at the hook point the specification's action sequence predicts (a refactoring    *)
(* moved or merged shared accesses - reported, not a violation; the history is      *)
(* still judged by ThreadLinkTrace).  "observable": same schedule, different        *)
(* hasNext value or different bytes returned by read - a violation.                 *)
EXTENDS Naturals, Sequences, TLC, Json, IOUtils, ThreadLinkWords
Log == ndJsonDeserialize(IOEnv.TRACE)
VARIABLE l
NB == 64
Init == l \in {0 - b : b \in 1..NB}
Next == /\ l < 0
        /\ \E j \in 0..(Len(Log) \div NB) : LET i == j * NB + (0 - l) IN i <= Len(Log) /\ l' = i
\* the 4-byte word (as a number) that cell <<id, off, len>> stands for in the driver's messages
WordOf(c) == WordAt(c[1], c[2], c[3])                       \* ThreadLinkWords.tla
Words(m) == [i \in 1..Len(m) |-> WordOf(m[i])]
Fails(rec) ==
  LET e == rec.exp  o == rec.obs IN
  IF Len(e) # Len(o) \/ \E i \in 1..Len(e) : e[i].th # o[i].th \/ e[i].at # o[i].at \/ (e[i].act = "start") # o[i].started
  THEN {"structure"}
  ELSE IF \E i \in 1..Len(e) : e[i].end /\ e[i].th = "r" /\ (o[i].has # e[i].has \/ o[i].msg # Words(e[i].msg))
       THEN {"observable"} ELSE {}
Judge == l < 0 \/ LET f == Fails(Log[l]) IN f = {} \/ PrintT(<<"REJECT", l, f>>)
=============================================================================
