"""C09 - walking a port tree enumerates exactly its dispatchable addresses.
PortTree!WalkT defines the walk (every leaf under every expansion of #N, pruned by null
pointers and 'enabled by' toggles when a runtime object is supplied); PortTreeGen checks on
every generated table that the walk has no duplicates and that each walked address
dispatches to its port; the real walk_ports runs on the generated tables and on seeded random
ones (multi-component sub-tree names, runtime states) with three name-buffer prefixes, every
reported address is dispatched and looked up, and PortTreeTrace judges the lot."""
import json, os, random, itertools
from vlib import core
from checks import treegen
from checks.C04 import tname


def sugar_table(p1, p2, inp=(True, True, True, True), vs_on=True):
    """abstract description of the application wsugar::W of harness/tree_driver.cpp (built with the REAL rParamI / rToggle / rRecur / rRecurp /
    rRecurs / rEnabledBy macros); ids as the driver assigns them; the pointer sub-trees are null or not according to the state"""
    L = treegen.lit
    def leaf(i, name, alts, meta=()):
        pat = dict(segs=[L(name)], types=dict(has=True, alts=[[ord(c) for c in a] for a in alts]))
        return dict(id=i, name=[ord(c) for c in treegen.render(pat)], pat=pat, leaf=True, meta=list(meta), ptr="member", enabledby=0, sub=dict(dflt=False, ports=[]))
    def sub(i, segs, base, ptr="member", enabledby=0):
        pat = dict(segs=segs, types=dict(has=False, alts=[]))
        return dict(id=i, name=[ord(c) for c in treegen.render(pat)], pat=pat, leaf=False, meta=treegen.meta_bytes([("enabled by", "en")]) if enabledby else [], ptr=ptr, enabledby=enabledby,
                    sub=dict(dflt=False, ports=[leaf(base + 1, "u", ["", "i"]), leaf(base + 2, "v", ["", "i"])]))
    def arr_elem(i, present):
        # "arr#2/" written out as its two elements (same port, same id), because what lies below differs per element: the pointers inp#2/ of each
        def inp(j):
            pat = dict(segs=[L("inp%d/" % j)], types=dict(has=False, alts=[]))
            return dict(id=73, name=[ord(c) for c in treegen.render(pat)], pat=pat, leaf=False, meta=[], ptr="member" if present[j] else "null", enabledby=0,
                        sub=dict(dflt=False, ports=[leaf(81, "w", ["", "i"])]))
        pat = dict(segs=[L("arr%d/" % i)], types=dict(has=False, alts=[]))
        return dict(id=8, name=[ord(c) for c in treegen.render(pat)], pat=pat, leaf=False, meta=[], ptr="member", enabledby=0,
                    sub=dict(dflt=False, ports=[leaf(71, "u", ["", "i"]), leaf(72, "v", ["", "i"]), inp(0), inp(1)]))
    return dict(dflt=False, ports=[
        leaf(1, "x", ["", "i"]), leaf(2, "en_x", ["", "T", "F"], treegen.meta_bytes([("toggle", None)])),        # a look-alike of the enabling toggle, declared before it, always saying the opposite
        leaf(3, "en", ["", "T", "F"], treegen.meta_bytes([("toggle", None)])),
        sub(4, [L("m/")], 30, enabledby=3), leaf(5, "m", [""]),
        sub(6, [L("p1/")], 50, ptr="member" if p1 else "null"), sub(7, [L("p2/")], 60, ptr="member" if p2 else "null"),
        arr_elem(0, inp[0:2]), arr_elem(1, inp[2:4]),
        sub(9, [L("first/")], 90), leaf(10, "first", [""]),      # a member sub-tree at offset 0 of the application object
        # a sub-tree whose own table carries rSelf(..., rEnabledBy(on)): switched off, the walk reports its enabling port only
        dict(id=11, name=[ord(c) for c in "vs/"], pat=dict(segs=[L("vs/")], types=dict(has=False, alts=[])), leaf=False, meta=[], ptr="member", enabledby=0,
             sub=dict(dflt=False, selfen=103, ports=[leaf(101, "self", [""]), leaf(102, "on_count", ["", "i"]), leaf(103, "on", ["", "T", "F"], treegen.meta_bytes([("toggle", None)])), leaf(104, "q", ["", "i"])])),
        leaf(12, "vs", [""])])


def run_walk(ctx, inputs, tag, mode="walk"):
    inp = ctx.path("win_%s.ndjson" % tag)
    with open(inp, "w") as f:
        for x in inputs:
            d = dict(table=x["table"], rt=x.get("rt", False), multi=x.get("multi", False), state={str(k): v for k, v in x.get("state", {}).items()})
            for k in ("p1", "p2", "en", "inp", "vs_on"):
                if k in x:
                    d[k] = x[k]
            f.write(json.dumps(d, separators=(",", ":")) + "\n")
    out = ctx.path("walk_%s.ndjson" % tag)
    ctx.driver("tree_driver", "asan", [mode, inp, out])
    rej = ctx.validate("PortTreeTrace", "PortTreeTrace.cfg", out, timeout=3000)
    recs = ctx.read_ndjson(out)
    for i, r in enumerate(recs, 1):
        n = sum(len(run["walked"]) for run in r["runs"])
        ctx.evaluations += 3 + n
        if n >= 6:
            ctx.nontrivial.add(tname(r["table"]) + str(r["state"]))
        for c in rej.get(i, []):
            ctx.reject(dict(clause=c, table=tname(r["table"]), rt=r["rt"]), dict(table=r["table"], rt=r["rt"], state=dict((str(a), b) for a, b in r["state"])),
                       "clause %s fails for walking table %s (runtime %s, toggles %s) %s" % (c, tname(r["table"]), r["rt"], r["state"], r.get("asan_what", "")))
    if recs:
        r = recs[len(recs) // 2]
        ctx.sample(dict(table=tname(r["table"]), runtime=r["rt"], toggles=r["state"],
                        walked=[bytes(w["addr"]).decode("latin1") for w in r["runs"][0]["walked"][:10]]))
    os.remove(out)
    return len(recs)


def run(ctx):
    ctx.rule = ("every table of PortTreeGen (flat4, struct2/3) and seeded random tables (depth 1..4, #N at any level, multi-component sub-tree names like "
                "a#2/x#2/z/, ':types'; with a runtime object: null pointers and sibling 'enabled by' toggles in every on/off state) x name-buffer prefixes "
                "'', '/', '/x/'; plus one application built with the real rRecur/rRecurp/rRecurs/rEnabledBy/rToggle macros in all 128 states of its two pointers, its toggle and the four pointers of an enumerated pointer sub-tree nested in an enumerated sub-tree, with and without runtime object; evaluations = walks + reported addresses dispatched; non-trivial = distinct (table, state) reporting >= 6 addresses")
    ctx.assumptions = ["generated tables: sub-tree callbacks of the harness follow the rRecur*/rRecurp contract (set the child object, null pointer => skip)",
                       "dispatch of reported addresses is only required for single-component sub-tree names (the SNIP contract of the sugar callbacks)",
                       "enabling toggles are siblings of the sub-tree they enable"]
    if ctx.replay:
        case = json.load(open(ctx.replay))["case"]
        case["state"] = {int(k): v for k, v in case.get("state", {}).items()}
        run_walk(ctx, [case], "replay")
        return
    thorough = ctx.tier == "thorough"
    n = 0
    for cfg, tag in (("PortTreeGen_flat4.cfg", "flat"), ("PortTreeGen_struct3.cfg" if thorough else "PortTreeGen_struct2.cfg", "struct")):
        vec, r = ctx.vectors("PortTreeGen", cfg, "tables_" + tag)
        ctx.bounds[cfg] = r.distinct
        if tag == "flat" and not thorough:
            vec = vec[::4]
        n += run_walk(ctx, [dict(table=v["table"]) for v in vec], tag)
    ctx.exhaustive = True
    g = treegen.Gen(ctx.seed + 100)
    rng = random.Random(ctx.seed + 9)
    inputs = []
    for i in range(2500 if thorough else 300):
        multi = rng.random() < 0.3
        runtime = rng.random() < 0.5
        tb, toggles = treegen.walk_table(g, rng.randint(1, 4), rng.choice([2, 4, 8]), multi=multi, runtime=runtime)
        if runtime:
            toggles = toggles[:4]
            for bits in itertools.product([False, True], repeat=len(toggles)):
                st = dict(zip(toggles, bits))
                for t in treegen_all_toggles(tb):
                    st.setdefault(t, True)
                inputs.append(dict(table=tb, rt=True, multi=multi, state=st))
        inputs.append(dict(table=tb, rt=False, multi=multi, state={t: True for t in treegen_all_toggles(tb)}))
    n += run_walk(ctx, inputs, "random")
    # the same walk over an application built with the library's own sub-tree macros, in every state of its two pointers and its enabling toggle
    sug = [dict(table=sugar_table(p1, p2, inp, vs_on), rt=rt, p1=p1, p2=p2, en=en, vs_on=vs_on, inp=list(inp), state={3: en, 103: vs_on}) for p1 in (False, True) for p2 in (False, True) for en in (False, True)
           for rt in (False, True) for inp in itertools.product([False, True], repeat=4) for vs_on in ((False, True) if inp[0] == inp[3] else (p1 != en,))]
    n += run_walk(ctx, sug, "sugar", mode="walksugar")
    ctx.notes["sugar_application_states_walked"] = len(sug)
    ctx.notes["tables_walked"] = n


def treegen_all_toggles(tb):
    out = []
    for p in tb["ports"]:
        if p["enabledby"]:
            out.append(p["enabledby"])
        if not p["leaf"]:
            out += treegen_all_toggles(p["sub"])
    return out
