CONSTANTS MaxLen = 3  Pool = "texts"
INIT Init
NEXT Next
INVARIANT FormsLaw
CONSTRAINT Emit
CHECK_DEADLOCK FALSE
