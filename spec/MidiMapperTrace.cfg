CONSTANTS Addrs = {"/p"}  Ids = {1}  V = 128  MaxOps = 100000000  Fix = FALSE  Bug = "none"
INIT TInit
NEXT TNext
INVARIANT Judge
CHECK_DEADLOCK FALSE
