INIT Init
NEXT Next
INVARIANT Laws
CONSTRAINT Emit
CHECK_DEADLOCK FALSE
