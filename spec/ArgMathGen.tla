---------------------------- MODULE ArgMathGen ----------------------------
(* Input machine for the arithmetic on argument values: every record of ArgMath.tla *)
(* is an initial state; the laws of the algebra are checked on each.                *)
EXTENDS ArgMath
VARIABLE rec
Init == rec \in Records
Next == UNCHANGED rec
\* ------------------------------------------------------------------ laws of the algebra (checked in every generated state)
Both(r) == r.a.t = r.b.t /\ r.a.t \in IntT \cup FltT
Laws == /\ (rec.op = "add" => Add(rec.a, rec.b) = Add(rec.b, rec.a))
        /\ (rec.op = "mult" => Mult(rec.a, rec.b).ok = Mult(rec.b, rec.a).ok /\ (rec.a.t = rec.b.t => Mult(rec.a, rec.b) = Mult(rec.b, rec.a)))
        /\ (rec.op = "sub" /\ Both(rec) => Add(Sub(rec.a, rec.b).v, rec.b) = Ok(rec.a))
        /\ (rec.op = "neg" /\ Negate(rec.a).ok => Negate(Negate(rec.a).v) = Ok(rec.a))
        /\ (rec.op = "range" /\ RangeArg(rec.a, rec.b, rec.i).ok /\ Both(rec) =>
              /\ RangeArg(rec.a, rec.b, 0) = Ok(rec.a)
              /\ RangeArg(rec.a, rec.b, rec.i + 1) = Add(RangeArg(rec.a, rec.b, rec.i).v, rec.b))
        /\ (rec.op = "range" /\ rec.a.t \in Bool /\ rec.b.t \in Bool => RangeArg(rec.a, rec.b, rec.i).ok)
Out == IF "OUT" \in DOMAIN IOEnv THEN IOEnv.OUT ELSE "none"
Emit == Out = "none" \/ CSVWrite("%1$s", <<ToJson(rec)>>, Out)
=============================================================================
