CONSTANTS N = 6  Lens = {0, 2, 3}  K = 4  P = 4  Bug = "no_slot"
SPECIFICATION Spec
INVARIANT Fifo LaFifo HasNextExact
VIEW View
CHECK_DEADLOCK FALSE
