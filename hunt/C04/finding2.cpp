// build: g++ -std=c++11 -I/tmp/wt/C04_h/include /tmp/wt/C04_h/findings/finding2.cpp /tmp/wt/C04_h/_build/librtosc-cpp.a /tmp/wt/C04_h/_build/librtosc.a -o /tmp/wt/C04_h/findings/finding2
//
// C04 finding 2: matching a message against a ':types' specification that is
// longer than what is left of the message reads past the end of the message.
// The message is placed so that it ends exactly at the end of a mapped page,
// the next page is inaccessible: the unchanged library dies with SIGSEGV
// (with -fsanitize=address: heap-buffer-overflow in rtosc_match_args,
// src/dispatch.c:142 / Port_Matcher::rtosc_match_args, src/cpp/ports.cpp:282).
#include <rtosc/ports.h>
#include <rtosc/rtosc.h>
#include <sys/mman.h>
#include <unistd.h>
#include <signal.h>
#include <cstdio>
#include <cstring>
using namespace rtosc;

static const char *stage = "?";
static void on_segv(int)
{
    char buf[200];
    int n = snprintf(buf, sizeof(buf),
            "FAIL: SIGSEGV while %s - the argument matcher read past the end "
            "of the 8 byte message\n", stage);
    if(write(1, buf, n)) {}
    _exit(1);
}

int main(int argc, char **argv)
{
    bool only_hashed = argc > 1 && !strcmp(argv[1], "hashed"); // skip stage 1
    signal(SIGSEGV, on_segv);
    signal(SIGBUS,  on_segv);
    long ps = sysconf(_SC_PAGESIZE);
    char *area = (char*)mmap(NULL, 2*ps, PROT_READ|PROT_WRITE,
                             MAP_PRIVATE|MAP_ANONYMOUS, -1, 0);
    if(area == (char*)MAP_FAILED) { perror("mmap"); return 2; }
    mprotect(area+ps, ps, PROT_NONE);

    char tmp[16];
    size_t len = rtosc_message(tmp, sizeof(tmp), "/a", "");   // "/a\0\0,\0\0\0"
    char *msg = area + ps - len;                              // ends at the page end
    memcpy(msg, tmp, len);
    printf("message '/a' without arguments, %zu bytes, ends at the end of a page\n", len);
    printf("expected: no callback, no memory error\n");
    fflush(stdout);

    static int hits;
    Ports lin  = { {"a:iiiiiiii", "", NULL, [](msg_t, RtData&){ hits++; }},
                   {"a:f",        "", NULL, [](msg_t, RtData&){ hits++; }} };
    Ports hash = { {"a:iiiiiiii", "", NULL, [](msg_t, RtData&){ hits++; }},
                   {"b",          "", NULL, [](msg_t, RtData&){ hits++; }} };
    char loc[64];

    stage = "Ports::dispatch without location buffer (rtosc_match)";
    if(!only_hashed) { RtData d; lin.dispatch(msg, d, true); }
    stage = "Ports::dispatch with location buffer, hashed table (Port_Matcher::hard_match)";
    { RtData d; d.loc = loc; d.loc_size = sizeof(loc); hash.dispatch(msg, d, true); }

    printf("got: %d callbacks, no memory error\nok\n", hits);
    return hits ? 1 : 0;
}
