CONSTANTS Depth = 3  AddrLens = {1, 2, 3, 4, 5}  BaseLen = 2  Rich = FALSE
INIT Init
NEXT Next
INVARIANT Laws
CONSTRAINT Emit
CHECK_DEADLOCK FALSE
