// build: g++ -std=c++11 -I/tmp/wt/C12_h/include finding8.cpp /tmp/wt/C12_h/_build/librtosc-cpp.a /tmp/wt/C12_h/_build/librtosc.a -o finding8
//
// A float parameter that holds +infinity (or NaN) makes the whole savefile
// unloadable: the value is printed as "inf (inf)" / "nan (nan)", and the
// scanner reads "inf" as the OSC infinitum 'I' (resp. "nan" as a symbol) and
// then fails at "(inf)". -infinity, printed as "-inf (-inf)", loads fine.
#include <rtosc/rtosc.h>
#include <rtosc/ports.h>
#include <rtosc/savefile.h>
#include <rtosc/port-sugar.h>
#include <cstdio>
#include <cstdarg>
#include <cmath>
#include <string>
#include <set>
using namespace rtosc;

struct App { static const Ports& ports; float gain = 0.0f; int other = 0; };
#define rObject App
static const Ports app_ports = {
    rParamF(gain, rDefault(0.0), "a float parameter without bounds"),
    rParamI(other, rDefault(0), "another parameter"),
};
#undef rObject
const Ports& App::ports = app_ports;

static void send(App& a, const char* path, const char* args, ...)
{
    char buf[256], loc[256] = "";
    va_list va; va_start(va, args);
    rtosc_vmessage(buf, sizeof(buf), path, args, va);
    va_end(va);
    RtData d; d.obj = &a; d.loc = loc; d.loc_size = sizeof(loc);
    app_ports.dispatch(buf, d, true);
}

static int check(float value)
{
    App a;
    send(a, "/gain", "f", value);
    send(a, "/other", "i", 5);
    std::set<std::string> written;
    std::string f = save_to_file(app_ports, &a, "app", rtosc_version{1,0,0}, written, {});
    printf("state: gain=%f other=%d\nsavefile:\n%s\n", a.gain, a.other, f.c_str());
    App b;
    int r = load_from_file(f.c_str(), app_ports, &b, "app", rtosc_version{1,0,0});
    bool same = (std::isnan(value) ? std::isnan(b.gain) : b.gain == value) && b.other == 5;
    printf("expected: load returns 2, gain=%f other=5\n", value);
    printf("happened: load returns %d, gain=%f other=%d\n\n", r, b.gain, b.other);
    return (r == 2 && same) ? 0 : 1;
}

int main()
{
    int bad = 0;
    bad += check(-INFINITY); // works
    bad += check(INFINITY);
    bad += check(NAN);
    return bad ? 1 : 0;
}
