CONSTANTS N = 6  Lens = {0, 2, 3}  K = 4  P = 4  Bug = "none"
SPECIFICATION Spec
INVARIANT Fifo LaFifo HasNextExact NoOverlap Bounds
VIEW View
CHECK_DEADLOCK FALSE
