// build: gcc -I/tmp/wt/C11_h/include /tmp/wt/C11_h/findings/finding6.c /tmp/wt/C11_h/_build/librtosc-cpp.a /tmp/wt/C11_h/_build/librtosc.a -lm -o /tmp/wt/C11_h/findings/finding6
// Float ranges: the manual accepts "a b ... c" if an n exists with
// |a+nd-c| <= 0.001 (its example: 0.000 0.333 ... 1.000, thirds rounded DOWN).
// When the rounded step overshoots (sixths: 0.1667, sevenths: 0.1429, ...) the
// quotient (c-b)/d is a little below the integer, rtosc_arg_val_round() only
// rounds up from .999 on, and the checker rejects the range.
#include <stdio.h>
#include <rtosc/rtosc.h>
#include <rtosc/pretty-format.h>

int main(void)
{
    int bad = 0;
    struct { const char* text; int expect; } t[] = {
        { "0.0000 0.3333 ... 1.0000", 4 },  // control: 3*0.3333 = 0.9999
        { "0.0000 0.1667 ... 1.0000", 4 },  // 6*0.1667 = 1.0002, off by 0.0002
        { "0.0000 0.1429 ... 1.0000", 4 },  // 7*0.1429 = 1.0003
        { "1.0000 0.8333 ... 0.0000", 4 },  // 1-6*0.1667 = -0.0002
        { "0.0000d 0.1667d ... 1.0000d", 4 },
        { "0.0 0.5 ... 1.9992", 4 },        // 4*0.5 = 2.0, off by 0.0008
        { "0.0 0.5 ... 2.0008", 4 },        // control: the same distance above is accepted
        { 0, 0 } };
    for(int i = 0; t[i].text; ++i) {
        int n = rtosc_count_printed_arg_vals(t[i].text);
        printf("<%s> expected count %d, got %d%s\n", t[i].text, t[i].expect, n,
               n == t[i].expect ? "" : "   <-- WRONG (rejected)");
        if(n != t[i].expect) bad = 1;
    }
    printf(bad ? "FAIL\n" : "ok\n");
    return bad;
}
