// build: gcc -I/tmp/wt/C11_h/include /tmp/wt/C11_h/findings/finding8.c /tmp/wt/C11_h/_build/librtosc-cpp.a /tmp/wt/C11_h/_build/librtosc.a -lm -o /tmp/wt/C11_h/findings/finding8
// Nested arrays: when the line has to be broken at the first element of an
// inner array that is itself the first element of its outer array, the
// newline is written over the outer array's '[' - the printed text has lost a
// bracket and is rejected by the checker.
#include <stdio.h>
#include <string.h>
#include <rtosc/rtosc.h>
#include <rtosc/pretty-format.h>
#include <rtosc/arg-val-cmp.h>

int main(void)
{
    // 72 columns of identifier, then a nested array whose first number ends
    // behind column 80
    const char* text =
        "aaaaaaaaaaaaaaaaaaaaaaaaaaaaaaaaaaaaaaaaaaaaaaaaaaaaaaaaaaaaaaaaaaaaaaaa"
        " [[123456789 2] [3 4]]";
    rtosc_arg_val_t av[16], av2[16]; char sb[128], sb2[128];
    char out_[512]; char* out = out_ + 1; out_[0] = ' ';
    memset(av, 0, sizeof av);
    int n = rtosc_count_printed_arg_vals(text);
    printf("text    <%s>\n  checker count %d\n", text, n);
    if(n <= 0 || n > 16) return 2;
    rtosc_scan_arg_vals(text, av, n, sb, sizeof sb);
    rtosc_print_arg_vals(av, n, out, sizeof out_ - 1, NULL, 0);
    printf("printed <%s>\n", out);
    int n2 = rtosc_count_printed_arg_vals(out);
    printf("  expected: the printed text is accepted with count %d and scans to equal values\n"
           "  got: count %d\n", n, n2);
    int bad = n2 != n;
    if(!bad) {
        memset(av2, 0, sizeof av2);
        rtosc_scan_arg_vals(out, av2, n2, sb2, sizeof sb2);
        bad = !rtosc_arg_vals_eq(av, av2, n, n2, NULL);
    }
    printf(bad ? "FAIL\n" : "ok\n");
    return bad;
}
