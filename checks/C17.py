"""C17 - port metadata is read back exactly as written.
Metadata.tla defines Block/Iterate/Lookup/Length; MetadataGen enumerates entry lists (keys
and values over {a : = space 1}, empty values, valueless entries, repeated keys) and checks
that the block grammar is unambiguous; the real Port::meta() iteration, operator[], find and
length() run on each block (exact-size heap copy under ASan) and on seeded random blocks of
1..8 entries; PortTreeTrace judges."""
import json, os, random
from vlib import core

ALPHA = "a:= 1bZ"


def key_str(e):
    return bytes(e["key"]).decode("latin1")


def block_of(es):
    out = []
    for e in es:
        out += [58] + e["key"] + [0]
        if e["has"]:
            out += [61] + e["val"] + [0]
    return out + [0]


def judge(ctx, log):
    rej = ctx.validate("PortTreeTrace", "PortTreeTrace.cfg", log)
    n = 0
    with open(log) as f:
        for i, line in enumerate(f, 1):
            n += 1
            if i in rej or i % 20000 == 7:
                r = json.loads(line)
                desc = " ".join(":%s%s" % (key_str(e), ("=" + bytes(e["val"]).decode("latin1")) if e["has"] else "") for e in r["es"])
                if i % 20000 == 7:
                    ctx.sample(dict(entries=desc, block_len=r.get("length")))
                for c in rej.get(i, []):
                    ctx.reject(dict(clause=c, entries=desc), dict(es=r["es"], block=r["block"]), "clause %s fails for metadata '%s' %s" % (c, desc, r.get("asan_what", "")))
    return n


def run(ctx):
    ctx.rule = ("every entry list of MetadataGen (<= MaxEntries entries; 24 keys, 10 values + valueless) and seeded random lists of 1..8 entries with "
                "longer keys/values; evaluations = blocks; non-trivial = block with >= 2 entries")
    ctx.assumptions = ["keys are non-empty, contain no NUL and do not begin with ':' (Port::meta() and MetaContainer::begin() each strip one ':')"]
    if ctx.replay:
        case = json.load(open(ctx.replay))["case"]
        p = ctx.write_ndjson("in.ndjson", [case])
        ctx.driver("tree_driver", "asan", ["meta", p, ctx.path("log.ndjson")])
        judge(ctx, ctx.path("log.ndjson"))
        return
    thorough = ctx.tier == "thorough"
    vec, r = ctx.vectors("MetadataGen", "MetadataGen_2.cfg", "md")
    ctx.exhaustive = True
    ctx.bounds = dict(max_entries=2, generated=len(vec))
    rng = random.Random(ctx.seed)
    rnd = []
    for _ in range(200000 if thorough else 20000):
        es = []
        for _ in range(rng.randint(1, 8)):
            k = rng.choice("a= 1bZ") + "".join(rng.choice(ALPHA) for _ in range(rng.randint(0, 5)))
            if es and rng.random() < 0.25:
                k = bytes(rng.choice(es)["key"]).decode()
            has = rng.random() < 0.7
            v = "".join(rng.choice(ALPHA) for _ in range(rng.randint(0, 6))) if has else ""
            es.append(dict(key=[ord(c) for c in k], has=has, val=[ord(c) for c in v]))
        rnd.append(dict(es=es, block=block_of(es)))
    allin = vec + rnd
    p = ctx.write_ndjson("in.ndjson", allin)
    ctx.driver("tree_driver", "asan", ["meta", p, ctx.path("log.ndjson")])
    n = judge(ctx, ctx.path("log.ndjson"))
    ctx.evaluations = n
    ctx.nontrivial = set(json.dumps(x["es"]) for x in allin if len(x["es"]) >= 2)
    ctx.notes["generated_blocks"] = len(vec)
    ctx.notes["random_blocks"] = len(rnd)
    os.remove(ctx.path("log.ndjson"))
