CONSTANTS NSlots = 4  PerSlot = 2  Params = {"/i", "/n", "/f", "/l", "/t", "/c", "/m"}  PosValues = {0, 1, 2, 4, 6, 8, 9}  NegValues = {1}  PosGains = {100, 50, 200}  NegGains = {100}  PosOffsets = {0, 25}  NegOffsets = {25}  CCs = {1, 2, 3, 127, 130}  MaxOps = 1000000  Bug = "none"
INIT SimInit
NEXT SimNext
CONSTRAINT Export
CHECK_DEADLOCK FALSE
