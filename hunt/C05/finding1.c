/* build+run (from findings/): cc -I../include finding1.c ../_build/librtosc.a -o finding1 && ./finding1 */
/* An address that spells the pattern's ':types' suffix as literal text matches,
 * and the type restriction is skipped altogether. */
#include <rtosc/rtosc.h>
#include <stdio.h>

static int check(const char *pattern, const char *addr, const char *types,
                 int expected)
{
    char buf[128];
    rtosc_arg_t args[4] = {{0}};
    args[0].s = "x"; /* valid for 's'; irrelevant for the others */
    if(types[0] != 's') args[0].i = 0;
    rtosc_amessage(buf, sizeof(buf), addr, types, args);
    int got = rtosc_match(pattern, buf, NULL);
    printf("pattern '%s'  address '%s'  types '%s' : expected %s, got %s%s\n",
           pattern, addr, types, expected ? "match" : "no match",
           got ? "match" : "no match", got == expected ? "" : "   <-- WRONG");
    return got != expected;
}

int main(void)
{
    int bad = 0;
    /* sanity: the intended behaviour */
    bad += check("a:i",      "a",       "i", 1);
    bad += check("a:i",      "a",       "f", 0);
    /* the address has the extra characters ":i" and the type is not 'i' */
    bad += check("a:i",      "a:i",     "f", 0);
    bad += check("a:i",      "a:i",     "",  0);
    /* same behind an enumeration, behind alternatives, with several types */
    bad += check("vol#4:f",  "vol2:f",  "s", 0);
    bad += check("{x,y}:i:f","y:i:f",   "s", 0);
    /* partial: address 'a:' then the remaining alternative is applied */
    bad += check("a::i",     "a:",      "i", 0);
    printf("%d wrong result(s)\n", bad);
    return bad != 0;
}
