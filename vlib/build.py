"""Builds the code under test straight from the *current working tree* of the
repository (RTOSC_SRC, default /repo) into /verif/build/<variant>-<hash>/ and
links harness drivers against it.  Everything is keyed by content hashes, so a
check rebuilds exactly when sources changed.  No cmake, no network."""
import hashlib, os, re, shutil, subprocess, sys, time
from concurrent.futures import ThreadPoolExecutor

VERIF = os.path.dirname(os.path.dirname(os.path.abspath(__file__)))
BUILD = os.environ.get("VERIF_BUILD") or os.path.join(VERIF, "build")     # scratch runs (bin/selftest.py) bring their own build directory
GUARD = "RTOSC_VERIF"


def src_root():
    return os.environ.get("RTOSC_SRC", "/repo")


C_SRCS = ["src/rtosc.c", "src/dispatch.c", "src/rtosc-time.c",
          "src/cpp/pretty-format.c", "src/cpp/arg-ext.c", "src/cpp/arg-val.c",
          "src/cpp/arg-val-math.c", "src/cpp/arg-val-cmp.c", "src/cpp/arg-val-itr.c",
          "src/cpp/util.c"]
CXX_SRCS = ["src/cpp/ports.cpp", "src/cpp/ports-runtime.cpp", "src/cpp/default-value.cpp",
            "src/cpp/savefile.cpp", "src/cpp/port-checker.cpp", "src/cpp/miditable.cpp",
            "src/cpp/automations.cpp", "src/cpp/midimapper.cpp", "src/cpp/thread-link.cpp",
            "src/cpp/undo-history.cpp", "src/cpp/subtree-serialize.cpp"]

VARIANTS = {
    # like the shipped RelWithDebInfo build: asserts off, so checks judge behaviour
    "plain": dict(cc="gcc", cxx="g++", flags=["-O2", "-g", "-DNDEBUG"]),
    # C03: no sanitizer (the driver brings its own malloc/free/pthread_mutex_lock); clang because the harness fills a va_list by hand
    "count": dict(cc="clang", cxx="clang++", flags=["-O2", "-g", "-DNDEBUG"]),
    "hooks": dict(cc="gcc", cxx="g++", flags=["-O2", "-g", "-DNDEBUG", "-D" + GUARD]),
    "asan": dict(cc="clang", cxx="clang++",
                 flags=["-O1", "-g", "-DNDEBUG", "-fno-omit-frame-pointer",
                        "-fsanitize=address,undefined", "-fsanitize-recover=address",
                        "-fno-sanitize=alignment,shift,signed-integer-overflow,float-cast-overflow,vla-bound,function,vptr,pointer-overflow,nonnull-attribute",
                        "-fno-sanitize-recover=undefined"]),
    "asanhooks": dict(cc="clang", cxx="clang++",
                      flags=["-O1", "-g", "-DNDEBUG", "-fno-omit-frame-pointer", "-D" + GUARD,
                             "-fsanitize=address", "-fsanitize-recover=address"]),
    "tsan": dict(cc="clang", cxx="clang++", flags=["-O1", "-g", "-DNDEBUG", "-fsanitize=thread"]),
    # C06: the two-thread histories once more under the race detector (an auxiliary net: a report is a violation, silence proves nothing)
    "tsanhooks": dict(cc="clang", cxx="clang++", flags=["-O1", "-g", "-DNDEBUG", "-D" + GUARD, "-fsanitize=thread"]),
}


def _hash_files(paths, extra=""):
    h = hashlib.sha256(extra.encode())
    for p in sorted(paths):
        h.update(p.encode())
        with open(p, "rb") as f:
            h.update(f.read())
    return h.hexdigest()[:16]


def _tree_files(root):
    out = []
    for sub in ("src", "include"):
        for d, _, fs in os.walk(os.path.join(root, sub)):
            for f in fs:
                out.append(os.path.join(d, f))
    out.append(os.path.join(root, "CMakeLists.txt"))
    return out


def _version_c(root, dst):
    cm = open(os.path.join(root, "CMakeLists.txt")).read()
    txt = open(os.path.join(root, "src/cpp/version.c.in")).read()
    for k in ("MAJOR", "MINOR", "PATCH"):
        m = re.search(r"set\(VERSION_%s\s+(\d+)\)" % k, cm)
        for pat in ("@VERSION_%s@" % k, "${VERSION_%s}" % k):
            txt = txt.replace(pat, m.group(1) if m else "0")
    with open(dst, "w") as f:
        f.write(txt)


def _run(cmd, what):
    p = subprocess.run(cmd, stdout=subprocess.PIPE, stderr=subprocess.STDOUT, text=True)
    if p.returncode != 0:
        sys.stderr.write("BUILD FAILED (%s): %s\n%s\n" % (what, " ".join(cmd), p.stdout[-4000:]))
        raise BuildError(what)
    return p.stdout


class BuildError(Exception):
    pass


def _prune(prefix, keep=3):
    if not os.path.isdir(BUILD):
        return
    ds = [os.path.join(BUILD, d) for d in os.listdir(BUILD) if d.startswith(prefix + "-")]
    ds.sort(key=lambda d: os.path.getmtime(d), reverse=True)
    for d in ds[keep:]:
        shutil.rmtree(d, ignore_errors=True)


def lib(variant):
    """returns (dir, archive, key); builds when needed"""
    root = src_root()
    v = VARIANTS[variant]
    key = _hash_files(_tree_files(root), variant + repr(v))
    d = os.path.join(BUILD, "lib%s-%s" % (variant, key))
    ar = os.path.join(d, "librtosc_all.a")
    if os.path.exists(ar):
        os.utime(d)
        return d, ar, key
    tmp = d + ".tmp%d" % os.getpid()
    shutil.rmtree(tmp, ignore_errors=True)
    os.makedirs(tmp)
    _version_c(root, os.path.join(tmp, "version.c"))
    inc = ["-I" + os.path.join(root, "include"), "-I" + os.path.join(root, "src/cpp"), "-I" + os.path.join(root, "src")]
    jobs = []
    for s in C_SRCS:
        std = ["-std=c99"] if s.startswith("src/") and not s.startswith("src/cpp") else []
        jobs.append(([v["cc"]] + std + v["flags"] + inc + ["-w", "-c", os.path.join(root, s), "-o",
                     os.path.join(tmp, s.replace("/", "_") + ".o")], s))
    jobs.append(([v["cc"]] + v["flags"] + inc + ["-w", "-c", os.path.join(tmp, "version.c"), "-o",
                 os.path.join(tmp, "version.o")], "version.c"))
    for s in CXX_SRCS:
        jobs.append(([v["cxx"], "-std=c++17"] + v["flags"] + inc + ["-w", "-c", os.path.join(root, s), "-o",
                     os.path.join(tmp, s.replace("/", "_") + ".o")], s))
    with ThreadPoolExecutor(16) as ex:
        list(ex.map(lambda j: _run(*j), jobs))
    objs = sorted(os.path.join(tmp, f) for f in os.listdir(tmp) if f.endswith(".o"))
    _run(["ar", "rcs", os.path.join(tmp, "librtosc_all.a")] + objs, "ar")
    try:
        os.rename(tmp, d)
    except OSError:
        shutil.rmtree(tmp, ignore_errors=True)   # somebody else finished first
    _prune("lib" + variant)
    return d, ar, key


def driver(name, variant="asan", extra_flags=(), libs=()):
    """compile harness/<name>.cpp against the library variant; returns exe path"""
    root = src_root()
    v = VARIANTS[variant]
    _, ar, key = lib(variant)
    src = os.path.join(VERIF, "harness", name + ".cpp")
    common = [os.path.join(VERIF, "harness", "common", f)
              for f in os.listdir(os.path.join(VERIF, "harness", "common"))]
    dkey = _hash_files([src] + common, key + repr(extra_flags) + repr(libs))
    d = os.path.join(BUILD, "drv_%s_%s-%s" % (name, variant, dkey))
    exe = os.path.join(d, name)
    if os.path.exists(exe):
        os.utime(d)
        return exe
    tmp = d + ".tmp%d" % os.getpid()
    shutil.rmtree(tmp, ignore_errors=True)
    os.makedirs(tmp)
    inc = ["-I" + os.path.join(root, "include"), "-I" + os.path.join(root, "src/cpp"),
           "-I" + os.path.join(root, "src"), "-I" + os.path.join(VERIF, "harness", "common")]
    _run([v["cxx"], "-std=c++17"] + v["flags"] + list(extra_flags) + inc + ["-w", src, ar, "-o",
         os.path.join(tmp, name), "-lm", "-lpthread", "-ldl"] + list(libs), "driver " + name)
    try:
        os.rename(tmp, d)
    except OSError:
        shutil.rmtree(tmp, ignore_errors=True)
    _prune("drv_%s_%s" % (name, variant), keep=2)
    return exe


if __name__ == "__main__":
    t = time.time()
    vs = sys.argv[1:] or ["plain", "asan", "hooks"]
    for x in vs:
        print(x, lib(x)[1])
    print("%.1fs" % (time.time() - t))
