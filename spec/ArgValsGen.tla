---------------------------- MODULE ArgValsGen ----------------------------
(* Input machine for C16: a state is a plain argument list grown one value at a    *)
(* time from small value sets (so that ties, prefixes and runs are frequent); each  *)
(* state is written out with EVERY compressed form of the list.  Laws of the        *)
(* prescribed scalar order (a strict weak order on every same-typed value set) are  *)
(* checked here; the driver computes the comparison / equality matrices over blocks *)
(* of forms and ArgValsTrace judges the laws on them.                               *)
EXTENDS ArgVals, Json, CSV, IOUtils, TLC
CONSTANTS MaxLen, Pool
VARIABLES list
V(t, v) == [t |-> t, v |-> v]
Inf == 2000000
Arr(et, vs) == [t |-> "a", et |-> et, v |-> vs]
Scalars ==
  IF Pool = "numbers" THEN { V("i", 0), V("i", 1), V("i", 2), V("i", 0 - 1), V("h", 0), V("h", 5), V("f", 0), V("f", 1), V("f", 2), V("d", 0), V("d", 5), V("c", 97), V("c", 98),
                                    V("f", Inf), V("f", 0 - Inf), V("d", Inf) }       \* infinities (the driver maps +-Inf to the IEEE values): inf - inf is not a number
  ELSE IF Pool = "runs" THEN { V("i", 0), V("i", 1), V("i", 2), V("i", 3), V("i", 4), V("i", 5), V("i", 6), V("f", 0), V("f", 1), V("f", 2), V("f", 3), V("f", 4), V("f", 5), V("c", 97), V("c", 98), V("c", 99), V("c", 100), V("c", 101) }
  ELSE IF Pool = "texts" THEN { V("s", <<>>), V("s", <<97>>), V("s", <<97, 98>>), V("S", <<97>>), V("b", <<>>), V("b", <<1, 2>>), V("b", <<1, 2, 0>>),
                                V("b", <<1, 3>>), V("m", <<1, 2, 3, 4>>), V("m", <<1, 2, 3, 5>>), V("t", 1), V("t", 0), V("t", 5), V("r", 7),
                                V("t", 805306368), V("t", 1073741824) }       \* time tags 0x6000... and 0x8000... (the driver shifts by 33 bits): more than 2^63 apart from the small ones
  ELSE { V("T", 0), V("F", 0), V("N", 0), V("I", 0), V("i", 1), V("s", <<97>>),
         Arr("i", <<>>), Arr("i", <<V("i", 1)>>), Arr("i", <<V("i", 1), V("i", 2)>>), Arr("s", <<>>), Arr("s", <<V("s", <<97>>)>>),
         Arr("T", <<>>), Arr("T", <<V("T", 0)>>), Arr("T", <<V("T", 0), V("F", 0)>>), Arr("F", <<V("F", 0)>>), Arr("S", <<>>) }
Init == list = <<>>
\* pool "runs": longer lists (constant stretches and steps of +1 from a few starting values), so that a list and its proper prefixes meet,
\* the longer one stored in FEWER cells than the shorter one once its runs are compressed
Continues(x) == IF Pool # "runs" THEN TRUE ELSE IF list = <<>> THEN x.v \in {0, 1, 97} ELSE x.t = list[1].t /\ (x.v = list[Len(list)].v \/ x.v = list[Len(list)].v + 1)
Next == Len(list) < MaxLen /\ \E x \in Scalars : Continues(x) /\ list' = Append(list, x)
\* the prescribed order is a strict weak order on every same-typed scalar set (reflexive, antisymmetric, transitive)
Same(t) == { x \in Scalars : x.t = t }
OrderLaws == \A t \in { x.t : x \in Scalars } \ {"a"} :
               \A a, b, c \in Same(t) :
                 LET ab == CmpScalar(a, b) bc == CmpScalar(b, c) ac == CmpScalar(a, c) ba == CmpScalar(b, a) IN
                 ab = 2 \/ ( /\ CmpScalar(a, a) = 0 /\ ab = 0 - ba /\ ((ab <= 0 /\ bc <= 0) => ac <= 0) /\ ((ab = 0) <=> (a = b)) )
ASSUME OrderLaws
FormsLaw == \A f \in Forms(list) : Expand(f) = list
Out == IF "OUT" \in DOMAIN IOEnv THEN IOEnv.OUT ELSE "none"
RECURSIVE SetToSeq(_)
SetToSeq(S) == IF S = {} THEN <<>> ELSE LET x == CHOOSE y \in S : TRUE IN <<x>> \o SetToSeq(S \ {x})
Emit == Out = "none" \/ CSVWrite("%1$s", <<ToJson([list |-> list, forms |-> SetToSeq(Forms(list))])>>, Out)
=============================================================================
