// build (in findings/): g++ -std=c++11 -I../include finding8.cpp ../_build/librtosc-cpp.a ../_build/librtosc.a -o finding8
// Integer parameter with the full non-negative int range (0..2147483647):
// max becomes 2147483648.0f, and (int)roundf(2147483648.0f) overflows
// (undefined behaviour; INT_MIN on x86) - far outside [min,max].
#include <rtosc/ports.h>
#include <rtosc/automations.h>
#include <rtosc/port-sugar.h>
#include <cstdio>
struct D { int seed; };
#define rObject D
static rtosc::Ports ports = { rParamI(seed, rLinear(0,2147483647), "seed") };
static int got;
int main()
{
    rtosc::AutomationMgr m(2, 1, 16);
    m.set_ports(ports);
    m.backend = [](const char *msg){ got = rtosc_argument(msg, 0).i; };
    m.createBinding(0, "/seed", false);
    m.setSlot(0, 1.0f);
    printf("slot 1.0: expected 2147483647 (max), got %d\n", got);
    int bad = got != 2147483647;
    m.setSlot(0, 0.75f);
    printf("slot 0.75: expected a value in [0,2147483647], got %d\n", got);
    bad += got < 0;
    printf(bad ? "FAIL\n" : "ok\n");
    return bad != 0;
}
