// build: c++ -std=c++17 -I../include finding1.cpp ../_build/librtosc-cpp.a ../_build/librtosc.a -o finding1
//
// C09 / walk_ports with a runtime object:
// a sub-tree whose "enabled by" port lies INSIDE the sub-tree (rEnabledBy(sub/on))
// is judged by calling the sub-tree's toggle callback on the PARENT's object.
#include <rtosc/ports.h>
#include <rtosc/port-sugar.h>
#include <cstdio>
#include <cstring>
#include <string>
using namespace rtosc;

struct Child {
    bool on = true;     // the sub-tree's own enabling toggle
    int  x  = 0;
    static const Ports ports;
};
#define rObject Child
const Ports Child::ports = {
    rToggle(on, "enables this sub-tree"),
    rParamI(x, "some parameter"),
};
#undef rObject

struct Parent {
    bool  first_byte = false; // lies where Child::on lies in a Child
    int   pad = 0;
    Child sub;
    static const Ports ports;
};
#define rObject Parent
const Ports Parent::ports = {
    // enabling port is at "sub/on", i.e. inside the sub-tree
    rRecur(sub, rEnabledBy(sub/on), "a sub-tree"),
};
#undef rObject

static std::string walk(Parent& p)
{
    char buf[1024]; memset(buf, 0, sizeof buf);
    std::string res;
    walk_ports(&Parent::ports, buf, sizeof buf, &res,
               [](const Port*, const char* name, const char*, const Ports&,
                  void* data, void*) {
                   *(std::string*)data += name; *(std::string*)data += ";";
               }, true, &p);
    return res;
}

int main()
{
    int bad = 0;
    Parent p;
    // all four states of (toggle of the sub-tree, unrelated first byte of the parent)
    for(int on = 0; on < 2; ++on)
    for(int fb = 0; fb < 2; ++fb)
    {
        p.sub.on = on; p.first_byte = fb;
        // the pointer port "/sub" (second half of rRecur) is a leaf of the parent
        std::string expected = on ? "/sub/on;/sub/x;/sub;"  // enabled: everything
                                  : "/sub/on;/sub;";         // disabled: only the toggle itself
        std::string got = walk(p);
        bool ok = got == expected;
        printf("sub.on=%d parent.first_byte=%d  expected %-22s got %-22s %s\n",
               on, fb, expected.c_str(), got.c_str(), ok ? "ok" : "WRONG");
        bad += !ok;
    }
    if(bad)
        printf("FAIL: the answer follows parent.first_byte, not sub.on: "
               "the toggle's callback ran on the parent object\n");
    return bad ? 1 : 0;
}
