// build: g++ -std=c++11 -I/tmp/wt/C04_h/include /tmp/wt/C04_h/findings/finding4.cpp /tmp/wt/C04_h/_build/librtosc-cpp.a /tmp/wt/C04_h/_build/librtosc.a -o /tmp/wt/C04_h/findings/finding4
//
// C04 finding 4: the array/recursion callbacks of port-sugar.h (rBOILS_BEGIN:
// rRecursCb, rRecurspCb, rArray*Cb, ...) take the element index from the FIRST
// digit found in the message instead of from the position of '#N'.  If the
// literal part of the port name contains a digit (member "osc2" -> port
// "osc2#4/"), the address /osc21/... (element 1, accepted by rtosc_match as
// index 1 < 4) is handed down as element 21: the wrong runtime object, outside
// the array.
#include <rtosc/ports.h>
#include <rtosc/port-sugar.h>
#include <rtosc/rtosc.h>
#include <cstdio>
#include <cstring>
using namespace rtosc;

struct Leaf { int v; static const Ports ports; };
struct Top  {
    Leaf  osc2[4];   Leaf  pad1[32];      // pad*: what lies behind the arrays
    float gain2[4];  float pad2[32];
    static const Ports ports;
};
#define rObject Leaf
const Ports Leaf::ports = { rParamI(v, "value") };
#undef  rObject
#define rObject Top
const Ports Top::ports = { rRecurs(osc2, 4, "array of sub objects"),   // "osc2#4/"
                           rArrayF(gain2, 4, "array of floats") };      // "gain2#4"
#undef  rObject

struct Quiet : RtData {
    void reply(const char*, const char*, ...) override {}
    void reply(const char*) override {}
    void broadcast(const char*, const char*, ...) override {}
    void broadcast(const char*) override {}
};

int main()
{
    static Top t;
    char msg[128], loc[128];
    int bad = 0;

    for(int with_loc = 0; with_loc < 2; ++with_loc) {
        memset(&t, 0, sizeof(t));
        Quiet d; d.obj = &t;
        if(with_loc) { d.loc = loc; d.loc_size = sizeof(loc); }
        rtosc_message(msg, sizeof(msg), "/osc21/v", "i", 7);
        Top::ports.dispatch(msg, d, true);
        printf("/osc21/v ,i 7 (%s): expected osc2[1].v == 7, got osc2[1].v == %d",
               with_loc ? "with loc" : "no loc", t.osc2[1].v);
        for(int i = 0; i < 32; ++i)
            if(t.pad1[i].v) printf(", and the object at osc2[%d] (outside the array) got %d", 4+i, t.pad1[i].v);
        printf("\n");
        if(t.osc2[1].v != 7) bad++;

        Quiet e; e.obj = &t;
        if(with_loc) { e.loc = loc; e.loc_size = sizeof(loc); }
        rtosc_message(msg, sizeof(msg), "/gain21", "f", 2.5f);
        Top::ports.dispatch(msg, e, true);
        printf("/gain21 ,f 2.5 (%s): expected gain2[1] == 2.5, got gain2[1] == %g",
               with_loc ? "with loc" : "no loc", t.gain2[1]);
        for(int i = 0; i < 32; ++i)
            if(t.pad2[i] != 0) printf(", and gain2[%d] (outside the array) was written with %g", 4+i, t.pad2[i]);
        printf("\n");
        if(t.gain2[1] != 2.5f) bad++;
    }
    if(bad) { printf("FAIL: the callback worked on the wrong element\n"); return 1; }
    printf("ok\n");
    return 0;
}
