// build: c++ -std=c++17 -I../include finding3.cpp ../_build/librtosc-cpp.a ../_build/librtosc.a -o finding3
//
// C09 / "every reported address, sent as a message, is dispatched to the very
// port it was reported with": ports with a multi-component name and no '#'
// ("c/d", "a/b/") sit in a Ports object that uses the hashed lookup; dispatch()
// hashes only the first component of the message ("c/"), the table was built
// from the whole names ("c/d"), so the port is never found (when RtData has a
// location buffer, which every dispatch that wants replies has).
#include <rtosc/ports.h>
#include <rtosc/rtosc.h>
#include <cstdio>
#include <cstring>
#include <string>
#include <vector>
using namespace rtosc;

static const Port* hit; static int nhits;
static void leaf(const char*, RtData& d) { hit = d.port; ++nhits; }

static const Ports sub = {
    {"e", 0, 0, leaf},
};
static const Ports ports = {
    {"a/b/", 0, &sub, [](const char* m, RtData& d){ sub.dispatch(m + 4, d); }},
    {"c/d",  0, 0, leaf},
    {"x/y/z::i", 0, 0, leaf},
    {"z",    0, 0, leaf},
};

struct Rep { const Port* port; std::string addr; };

int main()
{
    char buf[1024]; memset(buf, 0, sizeof buf);
    std::vector<Rep> rep;
    walk_ports(&ports, buf, sizeof buf, &rep,
               [](const Port* p, const char* name, const char*, const Ports&,
                  void* data, void*) { ((std::vector<Rep>*)data)->push_back({p, name}); });
    int bad = 0;
    for(auto& r : rep) {
        char msg[128], loc[128] = "";
        rtosc_message(msg, sizeof msg, r.addr.c_str(), "");
        RtData d; d.loc = loc; d.loc_size = sizeof loc;
        hit = 0; nhits = 0;
        ports.dispatch(msg, d, true);
        bool ok = nhits == 1 && hit == r.port;
        printf("walk reported %-8s (port \"%s\"): expected 1 dispatch to that port, got %d%s\n",
               r.addr.c_str(), r.port->name, nhits, ok ? "" : "   <-- WRONG");
        bad += !ok;
    }
    puts(bad ? "FAIL" : "ok");
    return bad != 0;
}
