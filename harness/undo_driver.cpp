// Conformance driver for C15 (rtosc::UndoHistory).  time() is defined here and therefore
// taken by the statically linked library: the clock is the model's clock.
//   undo_driver replay <ops.ndjson> <out.ndjson>   ops: one JSON array of calls per line (from TLC)
//   undo_driver random <seed> <count> <out.ndjson>  seeded random executions (arbitrary events)
//   undo_driver app <ops.ndjson> <out.ndjson>       END TO END: the same scripts, but a "rec" becomes a message to a parameter port built with
//                                                   the real macros (a: rParamI, b: rParamF, c: rParam); the port's /undo_change event is what gets
//                                                   recorded, and a seek dispatches the history's messages back into the ports.  Logged per call as
//                                                   op "set": whether an event was emitted, its old/new values, and the parameters afterwards.
// Output: {"ev":[{op,...args, pos, entries:[{a,ty,old,new}], out:[{a,ty,v}]}]} per execution.
#include <rtosc/undo-history.h>
#include <rtosc/rtosc.h>
#include <rtosc/ports.h>
#include <rtosc/port-sugar.h>
#include <ctime>
#include <random>
#include "vjson.hpp"
#include "vguard.hpp"

static time_t fake_now = 1000;
extern "C" time_t time(time_t *t) { if (t) *t = fake_now; return fake_now; }

static long val_of(const char *msg, unsigned idx) {
    char t = rtosc_type(msg, idx); rtosc_arg_t a = rtosc_argument(msg, idx);
    if (t == 'f') return (long)a.f; return a.i;
}
struct Exec {
    rtosc::UndoHistory uh; JW ev; std::vector<std::string> outmsgs;
    Exec() { fake_now = 1000; ev.arr(); uh.setCallback([this](const char *m) { outmsgs.push_back(std::string(m, rtosc_message_length(m, 256))); }); }
    void observe(JW &w) {
        w.knum("pos", uh.getPos()).key("entries").arr();
        for (size_t i = 0; i < uh.size(); ++i) { const char *m = uh.getHistory((int)i);
            w.obj().kstr("a", rtosc_argument(m, 0).s).kstr("ty", std::string(1, rtosc_type(m, 1))).knum("old", val_of(m, 1)).knum("new", val_of(m, 2)).end_obj(); }
        w.end_arr().key("out").arr();
        for (auto &s : outmsgs) { const char *m = s.data(); unsigned na = rtosc_narguments(m);
            w.obj().kstr("a", m).kstr("ty", na ? std::string(1, rtosc_type(m, 0)) : "").knum("v", na ? val_of(m, 0) : 0).end_obj(); }
        w.end_arr();
    }
    void rec(const std::string &a, char ty, long o, long n) {
        char buf[256]; std::string tags = std::string("s") + ty + ty; rtosc_arg_t args[3]; args[0].s = a.c_str();
        if (ty == 'f') { args[1].f = (float)o; args[2].f = (float)n; } else { args[1].i = (int)o; args[2].i = (int)n; }
        rtosc_amessage(buf, sizeof buf, "/undo_change", tags.c_str(), args);
        outmsgs.clear(); uh.recordEvent(buf);
        ev.obj().kstr("op", "rec").kstr("a", a).kstr("ty", std::string(1, ty)).knum("old", o).knum("new", n); observe(ev); ev.end_obj();
    }
    void seek(int k) { outmsgs.clear(); uh.seekHistory(k); ev.obj().kstr("op", "seek").knum("k", k); observe(ev); ev.end_obj(); }
    void tick(int d) { outmsgs.clear(); fake_now += d; ev.obj().kstr("op", "tick").knum("d", d); observe(ev); ev.end_obj(); }
    void finish(FILE *out, int sig) { ev.end_arr(); JW w; w.obj().key("ev").raw(ev.s).knum("sig", sig).knum("asan", vg_asan_hits).end_obj(); fprintf(out, "%s\n", w.s.c_str()); }
};

// ---- end to end: parameter ports -> /undo_change -> UndoHistory -> callback -> parameter ports
struct UApp { int a = 0; float b = 0; char c = 0; int d = 0; int e = 0; static const rtosc::Ports ports; };
#define rObject UApp
const rtosc::Ports UApp::ports = {
    rParamI(a, rLinear(-1000, 1000), "int parameter"),
    rParamF(b, rLinear(-1000, 1000), "float parameter"),
    rParam(c, "char parameter"),
    rParamI(d, "int parameter without bounds"),
    rParamI(e, rLinear(0, 100), "int parameter"),
};
#undef rObject
struct AppExec : Exec {
    UApp app; bool recording = true; bool got = false; long ev_old = 0, ev_new = 0;
    struct Rt : rtosc::RtData { AppExec *x; char locbuf[256];
        Rt(AppExec *x_) : x(x_) { memset(locbuf, 0, sizeof locbuf); loc = locbuf; loc_size = sizeof locbuf; obj = &x->app; }
        using rtosc::RtData::reply; using rtosc::RtData::broadcast;
        void reply(const char *msg) override { if (strcmp(msg, "/undo_change") || !x->recording) return;      // the library's default forwarding formatted the event
            x->got = true; x->ev_old = val_of(msg, 1); x->ev_new = val_of(msg, 2); x->uh.recordEvent(msg); }
        void broadcast(const char *) override {} };
    AppExec() { uh.setCallback([this](const char *m) { outmsgs.push_back(std::string(m, rtosc_message_length(m, 256))); Rt d(this); UApp::ports.dispatch(m, d, true); }); }
    void params(JW &w) { w.key("params").obj().knum("/a", app.a).knum("/b", (long)app.b).knum("/c", app.c).knum("/d", app.d).knum("/e", app.e).end_obj(); }
    void set(const std::string &a, char ty, long v) {
        char buf[128]; rtosc_arg_t arg[1]; if (ty == 'f') arg[0].f = (float)v; else arg[0].i = (int)v; char tags[2] = {ty, 0};
        rtosc_amessage(buf, sizeof buf, a.c_str(), tags, arg);
        outmsgs.clear(); got = false; ev_old = ev_new = 0; Rt d(this); UApp::ports.dispatch(buf, d, true);
        ev.obj().kstr("op", "set").kstr("a", a).kstr("ty", std::string(1, ty)).knum("v", v).kbool("got_event", got).knum("ev_old", ev_old).knum("ev_new", ev_new).knum("matches", d.matches);
        observe(ev); params(ev); ev.end_obj(); }
    void seek2(int k) { outmsgs.clear(); recording = false; uh.seekHistory(k); recording = true; ev.obj().kstr("op", "seek").knum("k", k); observe(ev); params(ev); ev.end_obj(); }
};

int main(int argc, char **argv) {
    vg_init();
    if (argc < 4) return 2;
    std::string mode = argv[1];
    if (mode == "replay") {
        FILE *f = fopen(argv[2], "r"); FILE *out = fopen(argv[3], "w"); if (!f || !out) return 2; std::string line;
        while (read_line(f, line)) { if (line.empty()) continue; J ops = jparse(line); Exec e;
            int sig = vg_run(20, [&] { for (auto &o : ops.a) { const std::string &op = o["op"].s;
                if (op == "rec") e.rec("/" + o["a"].s, o["ty"].s[0], (long)o["old"].num(), (long)o["new"].num());
                else if (op == "seek") e.seek((int)o["k"].num()); else if (op == "tick") e.tick((int)o["d"].num()); } });
            e.finish(out, sig); }
        fclose(out); return 0;
    }
    if (mode == "app") {
        FILE *f = fopen(argv[2], "r"); FILE *out = fopen(argv[3], "w"); if (!f || !out) return 2; std::string line;
        while (read_line(f, line)) { if (line.empty()) continue; J ops = jparse(line); AppExec e;
            int sig = vg_run(20, [&] { for (auto &o : ops.a) { const std::string &op = o["op"].s;
                if (op == "rec" || op == "set") e.set("/" + o["a"].s, o["ty"].s[0], (long)o[op == "rec" ? "new" : "v"].num());
                else if (op == "seek") e.seek2((int)o["k"].num()); else if (op == "tick") e.tick((int)o["d"].num()); } });
            e.finish(out, sig); }
        fclose(out); return 0;
    }
    if (mode == "random") {
        FILE *out = fopen(argv[4], "w"); if (!out) return 2; std::mt19937_64 rng(strtoull(argv[2], 0, 10) * 31 + 7); long count = atol(argv[3]);
        static const char *addrs[] = {"/a", "/b", "/c", "/x/y0/z", "/p#q"};
        for (long i = 0; i < count; ++i) { Exec e; int n = (int)(rng() % 61); int naddr = 1 + (int)(rng() % 5); bool jumpy = rng() % 3 == 0;   // jumpy: events rarely merge, the cap is crossed
            int sig = vg_run(20, [&] { for (int j = 0; j < n; ++j) { int r = (int)(rng() % 10);
                if (r < 6) { int ai = (int)(rng() % naddr); e.rec(addrs[ai], "ifcif"[ai], (long)(rng() % 200) - 100, (long)(rng() % 200) - 100); if (jumpy && rng() % 5) e.tick(3); }
                else if (r < 8) e.seek((int)(rng() % 9) - 4 + ((rng() % 10 == 0) ? 25 : 0) - ((rng() % 10 == 0) ? 25 : 0));
                else e.tick((int)(rng() % 4)); } });
            e.finish(out, sig); }
        fclose(out); return 0;
    }
    return 2;
}
