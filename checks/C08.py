"""C08 - bundles compose and decompose losslessly, including nesting.
OscWire.tla defines EncBundle / BundleElems (layout rules only); OscBundleGen
enumerates element sequences with nesting and checks the laws; the real
rtosc_bundle and the decomposition API run on every enumerated bundle and on
seeded random ones (0..8 elements, nesting 0..4, random 64-bit time tags)."""
import json, os
from vlib import core
from checks import appcommon


def shape(e):
    return "m" if e["k"] == "m" else "b(" + ",".join(shape(k) for k in e["elems"]) + ")"


def depth(e):
    return 0 if e["k"] == "m" else 1 + max([depth(k) for k in e["elems"]] + [0])


def judge(ctx, log_path, as_cap=False):
    rej = ctx.validate("OscWireTrace", "OscWireTrace.cfg", log_path, env={"BUNDLE_AS": "cap"} if as_cap else None)
    recs = ctx.read_ndjson(log_path)
    for r in recs:
        ctx.evaluations += 1
        top = dict(k="b", tt=r["tt"], elems=r["elems"])
        if r["elems"]:
            ctx.nontrivial.add(json.dumps(top, sort_keys=True))
    for line, clauses in sorted(rej.items()):
        r = recs[line - 1]
        top = dict(k="b", tt=r["tt"], elems=r["elems"])
        for c in clauses:
            ctx.reject(dict(clause=c, shape=shape(top), nesting=depth(top) - 1),
                       dict(tt=r["tt"], elems=r["elems"]),
                       "clause %s fails for bundle of shape %s" % (c, shape(top)))
    return recs


def run(ctx, as_cap=False):
    ctx.rule = ("engine A: every state of OscBundleGen (0..MaxElems top-level elements drawn from 5 messages and nested bundles up to MaxNest, "
                "3 time tags); engine B: seeded random bundles (0..8 elements, nesting 0..4, random messages, random 64-bit time tags); "
                "non-trivial = distinct bundle with at least one element")
    ctx.assumptions = ["a bundle passed as an element is followed by one zero word (the element API takes no length)",
                       "rtosc_bundle is variadic: driven with 0..8 elements through explicit call sites"]
    if ctx.replay:
        case = json.load(open(ctx.replay))["case"]
        if "script" in case:
            appcommon.run_serialize(ctx)
            return
        p = ctx.write_ndjson("replay_in.ndjson", [case])
        ctx.driver("wire_driver", "asan", ["bundle", "in", p, ctx.path("replay_log.ndjson")])
        judge(ctx, ctx.path("replay_log.ndjson"), as_cap)
        return
    thorough = ctx.tier == "thorough"
    cfg = "OscBundleGen_thorough.cfg" if thorough else "OscBundleGen_quick.cfg"
    vec, r = ctx.vectors("OscBundleGen", cfg, "bvec")
    if len(vec) != r.distinct:
        raise core.Broken("generator wrote %d vectors for %d states" % (len(vec), r.distinct))
    ctx.bounds["bundle_gen_cfg"] = cfg
    ctx.exhaustive = True
    inp = ctx.write_ndjson("bvec.ndjson", vec)
    ctx.driver("wire_driver", "asan", ["bundle", "in", inp, ctx.path("blogA.ndjson")])
    nrand = 40000 if thorough else 3000
    ctx.driver("wire_driver", "asan", ["bundle", "random", ctx.seed, nrand, ctx.path("blogB.ndjson")])
    with open(ctx.path("blog.ndjson"), "w") as f:
        for n in ("blogA.ndjson", "blogB.ndjson"):
            f.write(open(ctx.path(n)).read())
    recs = judge(ctx, ctx.path("blog.ndjson"), as_cap)
    ctx.notes["bundle_engineA_vectors"] = len(vec)
    ctx.notes["bundle_engineB_random_records"] = nrand
    for r in (recs[len(vec) // 2], recs[-1]):
        ctx.sample(dict(timetag=r["tt"], shape=shape(dict(k="b", elems=r["elems"])), encoded_len=r.get("ret_big")))
    os.remove(ctx.path("blog.ndjson"))
    if not as_cap:
        appcommon.run_serialize(ctx)
        ctx.rule += ("; second half: subtree_serialize / subtree_deserialize of the application app1 in states reached by simulated and directed message sequences, "
                     "image compared with EncBundle of the model's elements, every capacity around 0..20 and around the needed size")
