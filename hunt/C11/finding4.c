// build: gcc -O0 -I/tmp/wt/C11_h/include /tmp/wt/C11_h/findings/finding4.c /tmp/wt/C11_h/_build/librtosc-cpp.a /tmp/wt/C11_h/_build/librtosc.a -lm -o /tmp/wt/C11_h/findings/finding4
// (the uninitialised read is reported directly by:  clang -g -fsanitize=memory -I include -I src/cpp
//  findings/finding4.c src/*.c src/cpp/arg-*.c src/cpp/pretty-format.c src/cpp/util.c -lm)
// An open-ended range of strings / symbols whose predecessor differs, e.g.
// ["a" "b" ...]: the checker counts a delta-less range (4 cells), the scanner
// asks delta_from_arg_vals() for "b"-"a", which does not exist, and decides on
// an uninitialised pointer whether the range has a delta. If it "has", one cell
// more than counted is written and the range holds a garbage delta.
#include <stdio.h>
#include <string.h>
#include <rtosc/rtosc.h>
#include <rtosc/arg-ext.h>
#include <rtosc/pretty-format.h>

// leave non-zero bytes where the scanner's locals will live
static void __attribute__((noinline)) dirty_stack(void)
{
    volatile char junk[4096];
    for(size_t i = 0; i < sizeof junk; ++i) junk[i] = 0x5a;
}

static int check(const char* text)
{
    int n = rtosc_count_printed_arg_vals(text);
    rtosc_arg_val_t av[8]; char sb[32];
    memset(av, 0, sizeof av);
    av[n].type = 'Z'; // canary behind the n cells the checker announced
    dirty_stack();
    rtosc_scan_arg_vals(text, av, n, sb, sizeof sb);
    // expected cells: 'a'(len 3)  s:"a"  '-'(endless, no delta)  s:"b"
    int has_delta = rtosc_av_rep_has_delta(av + 2);
    int ok = av[0].type == 'a' && rtosc_av_arr_len(av) == n - 1 &&
             av[2].type == '-' && !has_delta && av[n].type == 'Z';
    printf("<%s>\n  checker count %d; expected: array of %d cells, endless range without delta, nothing written behind cell %d\n"
           "  got: array of %d cells, has_delta=%d, cell %d %s%s\n",
           text, n, n - 1, n - 1, rtosc_av_arr_len(av), has_delta, n,
           av[n].type == 'Z' ? "untouched" : "OVERWRITTEN", ok ? "" : "   <-- WRONG");
    return !ok;
}

int main(void)
{
    int bad = 0;
    bad |= check("[\"a\" \"a\" ...]");   // control: equal predecessor
    bad |= check("[\"a\" \"b\" ...]");
    bad |= check("[abc def ...]");
    printf(bad ? "FAIL\n" : "ok (the outcome depends on stack contents; see the MemorySanitizer build)\n");
    return bad;
}
