// Conformance driver for the port-tree family (C04 dispatch, C09 walk, C18 lookup).
// Tables come as JSON (spec/PortTree.tla form) and are built at run time
// (DynPorts : rtosc::Ports, pushing Ports and calling the protected refreshMagic(), as
// ClonePorts does).  Leaf callbacks record (own id, d.obj chain, d.loc, d.port); sub-tree
// callbacks hand a child object down and recurse with the SNIP contract of rRecur*Cb.
//
//   tree_driver dispatch <in.ndjson> <out.ndjson>     in: {"table":T,"addrs":[bytes...]}
//   tree_driver walk     <in.ndjson> <out.ndjson>     in: {"table":T, optional "state":{...}}
#include "vjson.hpp"
#include "vguard.hpp"
#include <rtosc/ports.h>
#include <rtosc/rtosc.h>
#include <map>
#include <memory>
#include <unistd.h>
#include <fcntl.h>
#include <algorithm>
#include <utility>
using namespace rtosc;

struct Node;
struct DynPorts : Ports { DynPorts() : Ports({}) {} void finish() { refreshMagic(); } };
struct PortInfo { int id; bool leaf; int pos; Node *owner; Node *child; std::string name; std::string meta; bool nullptr_child; int enabledby;
    std::unique_ptr<FlushBuf> name_buf, meta_buf; };   // exact-size copies: an over-read of a name or metadata block hits ASan's red zone
struct Node { DynPorts ports; std::vector<std::unique_ptr<PortInfo>> infos; std::vector<std::unique_ptr<Node>> kids; bool hashed = false; };

// runtime objects: a chain of (port position, index) pairs, interned
struct Obj { Obj *parent; int pos; int idx; };
static std::map<std::tuple<Obj *, int, int>, std::unique_ptr<Obj>> objs;
static Obj root_obj{nullptr, 0, 0};
static Obj *child_obj(Obj *p, int pos, int idx) { auto k = std::make_tuple(p, pos, idx); auto &r = objs[k]; if (!r) r.reset(new Obj{p, pos, idx}); return r.get(); }

struct Call { int id; std::vector<std::pair<int, int>> chain; bool has_loc; std::string loc; int dport; bool obj_ok; };
static std::vector<Call> calls; static int dflt_calls;
static std::map<const Port *, int> port_ids;
static bool honour_null = true;   // walk without a runtime object: the static tree, every object present
static std::map<int, bool> toggle_state;   // runtime state of "enabled by" toggles (walk mode)

static void leaf_cb(PortInfo *pi, const char *, RtData &d) {
    Call c; c.id = pi->id; c.has_loc = d.loc != nullptr; if (d.loc) c.loc = d.loc;
    c.dport = port_ids.count(d.port) ? port_ids[d.port] : -1;
    Obj *o = (Obj *)d.obj; c.obj_ok = o != nullptr;
    std::vector<std::pair<int, int>> ch; for (; o && o != &root_obj; o = o->parent) ch.push_back({o->pos, o->idx});
    std::reverse(ch.begin(), ch.end()); c.chain = ch; calls.push_back(c);
}
static void sub_cb(PortInfo *pi, const char *msg, RtData &d) {
    const char *mm = msg; while (*mm && !isdigit((unsigned char)*mm) && *mm != '/') ++mm; int idx = isdigit((unsigned char)*mm) ? atoi(mm) : 0;
    if (pi->nullptr_child && honour_null) { d.obj = nullptr; }                      // rRecurp with a null pointer
    else d.obj = child_obj((Obj *)d.obj, pi->pos, idx);
    if (!d.obj) return;
    while (*msg && *msg != '/') ++msg; msg = *msg ? msg + 1 : msg;    // SNIP
    pi->child->ports.dispatch(msg, d, false);
}
static void toggle_cb(PortInfo *pi, const char *msg, RtData &d) {   // answers its state like rToggle
    if (!*rtosc_argument_string(msg)) d.reply(d.loc, toggle_state[pi->id] ? "T" : "F");
    leaf_cb(pi, msg, d);
}

static std::string capture_stderr_begin_path;
static int saved_err = -1;
static void stderr_capture_begin() { fflush(stderr); saved_err = dup(2); char tmpl[] = "/tmp/vtreeXXXXXX"; int fd = mkstemp(tmpl); capture_stderr_begin_path = tmpl; dup2(fd, 2); close(fd); }
static std::string stderr_capture_end() { fflush(stderr); dup2(saved_err, 2); close(saved_err); std::string s; FILE *f = fopen(capture_stderr_begin_path.c_str(), "r"); if (f) { char b[512]; size_t n; while ((n = fread(b, 1, sizeof b, f)) > 0) s.append(b, n); fclose(f); } unlink(capture_stderr_begin_path.c_str()); return s; }

static std::unique_ptr<Node> build(const J &tb, const std::vector<int> &perm) {
    std::unique_ptr<Node> n(new Node);
    size_t np = tb["ports"].size(); bool any_hash = false;
    for (size_t k = 0; k < np; ++k) {
        size_t src = k < perm.size() ? (size_t)perm[k] : k;
        const J &jp = tb["ports"][src];
        std::unique_ptr<PortInfo> pi(new PortInfo);
        pi->id = (int)jp["id"].num(); pi->leaf = jp["leaf"].b; pi->pos = (int)src + 1; pi->owner = n.get(); pi->child = nullptr;
        pi->name = jp["name"].text(); pi->meta = jp["meta"].text(); pi->nullptr_child = jp["ptr"].s == "null"; pi->enabledby = (int)jp["enabledby"].num();
        if (pi->name.find('#') != std::string::npos) any_hash = true;
        if (!pi->leaf) { std::vector<int> none; n->kids.push_back(build(jp["sub"], none)); pi->child = n->kids.back().get(); }
        n->infos.push_back(std::move(pi));
    }
    for (auto &pi : n->infos) {
        PortInfo *p = pi.get(); Port port;
        p->name_buf.reset(new FlushBuf(p->name.size() + 1)); memcpy(p->name_buf->p, p->name.c_str(), p->name.size() + 1);
        port.name = (const char *)p->name_buf->p;
        if (!p->meta.empty()) { p->meta_buf.reset(new FlushBuf(p->meta.size())); memcpy(p->meta_buf->p, p->meta.data(), p->meta.size()); }
        port.metadata = p->meta.empty() ? nullptr : (const char *)p->meta_buf->p; port.ports = p->leaf ? nullptr : &p->child->ports;
        bool is_toggle = p->meta.find("toggle") != std::string::npos;
        if (p->leaf) { if (is_toggle) port.cb = [p](const char *m, RtData &d) { toggle_cb(p, m, d); }; else port.cb = [p](const char *m, RtData &d) { leaf_cb(p, m, d); }; }
        else port.cb = [p](const char *m, RtData &d) { sub_cb(p, m, d); };
        n->ports.ports.push_back(port);
    }
    if (tb["dflt"].b) n->ports.default_handler = [](const char *, RtData &) { dflt_calls++; };
    stderr_capture_begin(); n->ports.finish(); std::string err = stderr_capture_end();
    n->hashed = !any_hash && np > 0 && err.find("Failed to generate minimal hash") == std::string::npos;
    for (size_t k = 0; k < n->ports.ports.size(); ++k) port_ids[&n->ports.ports[k]] = n->infos[k]->id;
    return n;
}
static bool any_hashed(Node *n) { if (n->hashed) return true; for (auto &k : n->kids) if (any_hashed(k.get())) return true; return false; }

static void calls_json(JW &w, const std::vector<Call> &cs) {
    w.arr();
    for (auto &c : cs) { w.obj().knum("id", c.id).key("chain").arr(); for (auto &p : c.chain) { w.arr().num(p.first).num(p.second).end_arr(); } w.end_arr();
        w.kbool("has_loc", c.has_loc).kbytes("loc", (const uint8_t *)c.loc.data(), c.loc.size()).knum("dport", c.dport).kbool("obj_ok", c.obj_ok).end_obj(); }
    w.end_arr();
}
struct Cap : RtData { void reply(const char *, const char *, ...) override {} void reply(const char *) override {} void broadcast(const char *, const char *, ...) override {} void broadcast(const char *) override {} };

// ---- derived tables: the same table built through MergePorts (two overlapping halves) or ClonePorts (all names, same callbacks)
template <size_t... I> static ClonePorts *mk_clone(const Ports &p, const std::vector<ClonePort> &v, std::index_sequence<I...>) { return new ClonePorts(p, {v[I]...}); }
template <size_t N> static ClonePorts *mk_clone_n(const Ports &p, const std::vector<ClonePort> &v) {
    if (v.size() == N) return mk_clone(p, v, std::make_index_sequence<N>());
    if constexpr (N > 0) return mk_clone_n<N - 1>(p, v); else return nullptr; }
struct Route { std::string name; std::unique_ptr<Ports> owned; std::unique_ptr<DynPorts> h1, h2; Ports *top = nullptr; bool hashed = false; bool shape_ok = true; };
static bool names_distinct(Node *n) { for (size_t i = 0; i < n->infos.size(); ++i) for (size_t j = i + 1; j < n->infos.size(); ++j) if (n->infos[i]->name == n->infos[j]->name) return false; return true; }
static void make_route(Route &r, Node *root, bool dflt) {
    size_t np = root->ports.ports.size(); bool any_hash = false; for (auto &pi : root->infos) if (pi->name.find('#') != std::string::npos) any_hash = true;
    stderr_capture_begin();
    if (r.name == "merge") { size_t k = (np + 1) / 2; r.h1.reset(new DynPorts); r.h2.reset(new DynPorts);
        for (size_t i = 0; i < k; ++i) r.h1->ports.push_back(root->ports.ports[i]); for (size_t i = k - 1; i < np; ++i) r.h2->ports.push_back(root->ports.ports[i]);
        r.h1->finish(); r.h2->finish(); r.owned.reset(new MergePorts({r.h1.get(), r.h2.get()})); }
    else { std::vector<ClonePort> v; for (size_t i = 0; i < np; ++i) v.push_back({root->ports.ports[i].name, root->ports.ports[i].cb});
        if (dflt) v.push_back({"*", root->ports.default_handler}); r.owned.reset(mk_clone_n<40>(root->ports, v)); }
    std::string err = stderr_capture_end();
    r.top = r.owned.get(); r.shape_ok = r.top && r.top->ports.size() == np;
    if (r.shape_ok) for (size_t i = 0; i < np; ++i) { if (strcmp(r.top->ports[i].name, root->ports.ports[i].name)) r.shape_ok = false; port_ids[&r.top->ports[i]] = root->infos[i]->id; }
    r.hashed = !any_hash && np > 0 && err.find("Failed to generate minimal hash") == std::string::npos; for (auto &k : root->kids) if (any_hashed(k.get())) r.hashed = true;
}
static void do_dispatch(const std::string &line, const J &in, FILE *out) {
    const J &tb = in["table"]; size_t np = tb["ports"].size();
    std::vector<std::vector<int>> perms; { std::vector<int> id(np); for (size_t i = 0; i < np; ++i) id[i] = (int)i; perms.push_back(id); if (np > 1) { auto r = id; std::reverse(r.begin(), r.end()); perms.push_back(r); } if (np > 2) { auto r = id; std::rotate(r.begin(), r.begin() + 1, r.end()); perms.push_back(r); } }
    static const char *TAGS[3] = {"", "i", "f"};
    for (auto &perm : perms) {
        port_ids.clear(); objs.clear();
        std::unique_ptr<Node> root = build(tb, perm);
      std::vector<std::string> routes = {"direct"};
      if (np >= 1 && np <= 38 && names_distinct(root.get()) && in["routes"].b) { if (!tb["dflt"].b) routes.push_back("merge"); routes.push_back("clone"); }
      for (auto &rname : routes) {
        Route route; route.name = rname; Ports *top = &root->ports; bool hashed = any_hashed(root.get());
        if (rname != "direct") { make_route(route, root.get(), tb["dflt"].b); if (!route.shape_ok) { JW e; e.obj().kstr("k", "dispatch").kstr("route", rname).key("table").raw("@T@").key("perm").arr(); for (int p : perm) e.num(p + 1); e.end_arr().kbool("route_shape", false).knum("sig", 0).end_obj();
                std::string t0 = line.substr(line.find("\"table\":") + 8); size_t c0 = t0.rfind(",\"addrs\""); if (c0 != std::string::npos) t0 = t0.substr(0, c0); std::string s0 = e.s; s0.replace(s0.find("@T@"), 3, t0); fprintf(out, "%s\n", s0.c_str()); continue; }
            top = route.top; hashed = route.hashed; }
        JW w; w.obj().kstr("k", "dispatch").kstr("route", rname).kbool("route_shape", true).key("table").raw("@T@").key("perm").arr(); for (int p : perm) w.num(p + 1); w.end_arr().kbool("hashed", hashed);
        w.key("results").arr();
        int sig = vg_run(60, [&] {
            for (auto &ja : in["addrs"].a) for (int t = 0; t < 3; ++t) {
                std::string addr = "/" + ja.text(); rtosc_arg_t a[2]; memset(a, 0, sizeof a);
                char buf[128]; size_t n = rtosc_amessage(buf, sizeof buf, addr.c_str(), TAGS[t], a); if (!n) continue;
                FlushBuf mb(n); memcpy(mb.p, buf, n);
                int h0 = vg_asan_hits;
                // (1) without location buffer
                calls.clear(); dflt_calls = 0; Cap d1; d1.obj = &root_obj; d1.loc = nullptr; d1.loc_size = 0;
                top->dispatch((const char *)mb.p, d1, true); auto c1 = calls; int df1 = dflt_calls; bool objrest1 = d1.obj == &root_obj;
                // (2) with location buffer
                calls.clear(); dflt_calls = 0; Cap d2; char loc[256]; memset(loc, 0x7e, sizeof loc); loc[0] = 0; d2.obj = &root_obj; d2.loc = loc; d2.loc_size = sizeof loc;
                top->dispatch((const char *)mb.p, d2, true); auto c2 = calls; int df2 = dflt_calls;
                // (3) with a location buffer that holds the address exactly, and (4) one that is three bytes too short: loc_size is "the length of the buffer" (ports.h) -
                // nothing may be written behind it; what a dispatch does when the address does not fit is not specified, only that it stays inside
                std::vector<Call> c3; int m3 = -1, asan_tight = 0, asan_short = 0;
                { size_t need = addr.size() + 1; FlushBuf lb(need); memset(lb.p, 0x7e, need); lb.p[0] = 0; calls.clear(); dflt_calls = 0; Cap d3; d3.obj = &root_obj; d3.loc = (char *)lb.p; d3.loc_size = need; int h3 = vg_asan_hits;
                  top->dispatch((const char *)mb.p, d3, true); c3 = calls; m3 = d3.matches; asan_tight = vg_asan_hits - h3; }
                if (addr.size() > 4) { size_t sz = addr.size() - 2; FlushBuf lb(sz); memset(lb.p, 0x7e, sz); lb.p[0] = 0; calls.clear(); dflt_calls = 0; Cap d4; d4.obj = &root_obj; d4.loc = (char *)lb.p; d4.loc_size = sz; int h4 = vg_asan_hits;
                  top->dispatch((const char *)mb.p, d4, true); asan_short = vg_asan_hits - h4; }
                w.obj().kbytes("addr", (const uint8_t *)ja.text().data(), ja.text().size()).kbytes("tags", (const uint8_t *)TAGS[t], strlen(TAGS[t]));
                w.key("tight"); calls_json(w, c3); w.knum("matches_tight", m3).knum("asan_tight", asan_tight).knum("asan_short", asan_short);
                w.key("noloc"); calls_json(w, c1); w.key("loc"); calls_json(w, c2);
                w.knum("matches_noloc", d1.matches).knum("matches", d2.matches).knum("dflt_noloc", df1).knum("dflt", df2).kbool("obj_restored", objrest1 && d2.obj == &root_obj)
                 .kbytes("loc_after", (const uint8_t *)loc, strnlen(loc, sizeof loc)).knum("asan", vg_asan_hits - h0).end_obj();
            } });
        w.end_arr().knum("sig", sig).kstr("asan_what", vg_asan_first).end_obj();
        // splice the table text back in (kept verbatim from the input line)
        std::string t = line.substr(line.find("\"table\":") + 8); // up to ,"addrs"
        size_t cut = t.rfind(",\"addrs\""); if (cut != std::string::npos) t = t.substr(0, cut);
        std::string s = w.s; size_t pos = s.find("@T@"); s.replace(pos, 3, t);
        fprintf(out, "%s\n", s.c_str());
      }
    }
}

// ---------------------------------------------------------------- walk (C09) + lookup (C18)
struct WalkRec { int id; std::string addr; long part_off; };
static std::vector<WalkRec> walked;
static void walker(const Port *p, const char *name, const char *old_end, const Ports &, void *, void *) { size_t n = strlen(name);
    walked.push_back({port_ids.count(p) ? port_ids[p] : -1, name, (old_end >= name && old_end <= name + n) ? (long)(old_end - name) : -1L}); }

static void do_walk(const std::string &line, const J &in, FILE *out) {
    const J &tb = in["table"]; std::vector<int> none;
    port_ids.clear(); objs.clear(); toggle_state.clear();
    if (in.has("state")) for (auto &kv : in["state"].o) toggle_state[atoi(kv.first.c_str())] = kv.second.b;
    std::unique_ptr<Node> root = build(tb, none);
    bool use_rt = in.has("rt") && in["rt"].b;
    honour_null = use_rt;
    JW w; w.obj().kstr("k", "walk").key("table").raw("@T@").kbool("rt", use_rt).key("state").arr();
    for (auto &kv : toggle_state) { w.arr().num(kv.first).boolean(kv.second).end_arr(); } w.end_arr();
    w.key("runs").arr();
    int sig = vg_run(60, [&] {
        static const char *PREF[3] = {"", "/", "/x/"};
        for (int pf = 0; pf < 3; ++pf) {
            char buf[1024]; memset(buf, 0, sizeof buf); strcpy(buf, PREF[pf]);
            walked.clear(); int h0 = vg_asan_hits;
            walk_ports(&root->ports, buf, sizeof buf, nullptr, walker, true, use_rt ? (void *)&root_obj : nullptr, false);
            w.obj().kbytes("prefix", (const uint8_t *)PREF[pf], strlen(PREF[pf])).kbytes("after", (const uint8_t *)buf, strnlen(buf, sizeof buf));
            w.key("walked").arr(); for (auto &r : walked) { w.obj().knum("id", r.id).kbytes("addr", (const uint8_t *)r.addr.data(), r.addr.size()).knum("part_off", r.part_off).end_obj(); } w.end_arr();
            // every reported address, sent as a message, must reach the port it was reported with; and lookup must return it
            w.key("reach").arr();
            if (pf < 2 && !(in.has("multi") && in["multi"].b)) for (auto &r : walked) {
                // tags: first alternative of the reported port's type spec
                std::string tags; for (auto &kv : port_ids) if (kv.second == r.id) { const char *c = strchr(kv.first->name, ':'); if (c) { ++c; while (*c && *c != ':') tags += *c++; } }
                rtosc_arg_t a[4]; memset(a, 0, sizeof a); static const char *e = ""; for (size_t k = 0; k < tags.size() && k < 4; ++k) if (tags[k] == 's') a[k].s = e;
                char m[1200]; size_t n = rtosc_amessage(m, sizeof m, r.addr.c_str(), tags.c_str(), a);
                calls.clear(); Cap d; char loc[1024]; loc[0] = 0; d.obj = &root_obj; d.loc = loc; d.loc_size = sizeof loc;
                if (n) root->ports.dispatch(m, d, true);
                const Port *ap = root->ports.apropos(r.addr.c_str());
                w.obj().knum("id", r.id).key("ids").arr(); for (auto &c : calls) w.num(c.id); w.end_arr().knum("lookup", ap && port_ids.count(ap) ? port_ids[ap] : -1).end_obj();
            }
            w.end_arr().knum("asan", vg_asan_hits - h0).end_obj();
        } });
    w.end_arr().knum("sig", sig).kstr("asan_what", vg_asan_first).end_obj();
    std::string t = line.substr(line.find("\"table\":") + 8); size_t cut = t.rfind(",\"rt\""); if (cut == std::string::npos) cut = t.size() - 1; t = t.substr(0, cut);
    std::string s = w.s; size_t pos = s.find("@T@"); s.replace(pos, 3, t);
    fprintf(out, "%s\n", s.c_str());
}


// ---------------------------------------------------------------- C09 on the REAL sub-tree macros (rRecur, rRecurp, rRecurs, rEnabledBy, rToggle)
// A fixed application; its abstract description (same JSON form as the generated tables, ids below) comes with the input, together with the
// runtime state: which pointers are null, what the enabling toggle says.  Output has the form of do_walk, so the same judge applies.
#include <rtosc/port-sugar.h>
namespace wsugar {
template <int K> struct S { int u = 0; int v = 0; static const rtosc::Ports ports; };
#define rObject S<K>
template <int K> const rtosc::Ports S<K>::ports = { rParamI(u, "u"), rParamI(v, "v") };
#undef rObject
struct In { int w = 0; static const rtosc::Ports ports; };
#define rObject In
const rtosc::Ports In::ports = { rParamI(w, "w") };
#undef rObject
struct A { int u = 0; int v = 0; In *inp[2] = {nullptr, nullptr}; static const rtosc::Ports ports; };      // element of the enumerated sub-tree: holds an array of pointer sub-trees
#define rObject A
const rtosc::Ports A::ports = { rParamI(u, "u"), rParamI(v, "v"), rRecursp(inp, 2, "enumerated POINTER sub-trees below an enumerated sub-tree") };
#undef rObject
struct V { int on_count = 0; bool on = true; int q = 0; static const rtosc::Ports ports; };      // a sub-tree that switches ITSELF off: its "self:" port is enabled by a toggle of its own table
#define rObject V
const rtosc::Ports V::ports = { rSelf(V, rEnabledBy(on)), rParamI(on_count, "a port whose name EXTENDS the name of the enabling toggle, declared before it"), rToggle(on, "on"), rParamI(q, "q") };
#undef rObject
struct W { S<6> first;      // a member sub-tree at offset 0: its object has the SAME address as the object that contains it
           int x = 0; bool en_x = false; bool en = true; S<3> m; S<4> *p1 = nullptr; S<5> *p2 = nullptr; A arr[2]; V vs; static const rtosc::Ports ports; };
#define rObject W
const rtosc::Ports W::ports = {
    rParamI(x, "x"), rToggle(en_x, "a toggle whose name extends the name of the enabling toggle, declared before it"), rToggle(en, "en"), rRecur(m, rEnabledBy(en), "member sub-tree"), rRecurp(p1, "pointer sub-tree"), rRecurp(p2, "pointer sub-tree"), rRecurs(arr, 2, "enumerated sub-trees"), rRecur(first, "member sub-tree at offset 0"), rRecur(vs, "self-enabled sub-tree"),
};
#undef rObject
}
static void do_walksugar(const std::string &line, const J &in, FILE *out) {
    using namespace wsugar;
    W app; S<4> s4; S<5> s5; if (in["p1"].b) app.p1 = &s4; if (in["p2"].b) app.p2 = &s5; app.en = in["en"].b; app.en_x = !app.en; app.vs.on = in["vs_on"].b; app.vs.on_count = app.vs.on ? 0 : 1; /* the look-alikes always say the opposite */ bool use_rt = in["rt"].b;
    In ins[4]; for (int i = 0; i < 2; ++i) for (int j = 0; j < 2; ++j) if (in["inp"][i * 2 + j].b) app.arr[i].inp[j] = &ins[i * 2 + j];
    port_ids.clear();
    // ids: top level 1..12 in table order (x, en_x, en, m/, m:, p1/, p2/, arr#2/, first/, first:, vs/, vs:), sub-tree ports 10*k+1, 10*k+2
    for (size_t k = 0; k < W::ports.ports.size(); ++k) port_ids[&W::ports.ports[k]] = (int)k + 1;
    auto sub = [&](const rtosc::Ports &ps, int base) { for (size_t k = 0; k < ps.ports.size(); ++k) port_ids[&ps.ports[k]] = base + (int)k + 1; };
    sub(S<3>::ports, 30); sub(S<4>::ports, 50); sub(S<5>::ports, 60); sub(A::ports, 70); sub(In::ports, 80); sub(S<6>::ports, 90); sub(V::ports, 100);
    JW w; w.obj().kstr("k", "walk").key("table").raw("@T@").kbool("rt", use_rt).key("state").arr().arr().num(3).boolean(app.en).end_arr().arr().num(103).boolean(app.vs.on).end_arr().end_arr();
    w.key("runs").arr();
    int sig = vg_run(60, [&] {
        static const char *PREF[2] = {"", "/"};
        for (int pf = 0; pf < 2; ++pf) {
            char buf[1024]; memset(buf, 0, sizeof buf); strcpy(buf, PREF[pf]);
            walked.clear(); int h0 = vg_asan_hits;
            walk_ports(&W::ports, buf, sizeof buf, nullptr, walker, true, use_rt ? (void *)&app : nullptr, false);
            w.obj().kbytes("prefix", (const uint8_t *)PREF[pf], strlen(PREF[pf])).kbytes("after", (const uint8_t *)buf, strnlen(buf, sizeof buf));
            w.key("walked").arr(); for (auto &r : walked) { w.obj().knum("id", r.id).kbytes("addr", (const uint8_t *)r.addr.data(), r.addr.size()).knum("part_off", r.part_off).end_obj(); } w.end_arr();
            w.key("reach").arr().end_arr().knum("asan", vg_asan_hits - h0).end_obj();
        } });
    w.end_arr().knum("sig", sig).kstr("asan_what", vg_asan_first).end_obj();
    std::string t = line.substr(line.find("\"table\":") + 8); size_t cut = t.rfind(",\"rt\""); t = t.substr(0, cut);
    std::string s = w.s; size_t pos = s.find("@T@"); s.replace(pos, 3, t);
    fprintf(out, "%s\n", s.c_str());
}


// ---------------------------------------------------------------- C17: metadata blocks built by the REAL macros
// The ports below are written with rParamI / rParamF / rOption / rToggle / rString / rArrayI / rAction / rSelf and the property macros
// (rLinear, rLog, rDefault, rPresets, rDefaultDepends, rDepends, rOptions, rShort, rProp, rMap, rEnabledBy, rDoc); the driver writes the raw
// bytes of each port's metadata (up to and including the double NUL) as inputs for the "meta" mode; what the macros are documented to
// produce is stated in checks/C17.py (MACRO_PORTS) and compared by the "block" clause of the judge.
namespace mmacro {
struct M { int a = 0; float f = 0; int o = 0; bool t = false; char s[8] = ""; char arr[3] = {0, 0, 0}; void act() {} static const rtosc::Ports ports; };
#define rObject M
const rtosc::Ports M::ports = {
    rSelf(M, rEnabledBy(t)),
    rParamI(a, rLinear(0, 127), rDefault(5), rShort("vol"), "volume"),
    rParamF(f, rLog(0.01, 100), rDefaultDepends(a), rPresets(1.0, 2.5, 4), "freq: in Hz = cycles"),
    rOption(o, rOptions(sine, saw, white noise), rDefault(saw), rProp(no learn), "shape"),
    rToggle(t, rDefault(true), rProp(internal), rMap(unit, Hz), "a=b:c"),
    rString(s, 8, rDefault("abc"), "str"),
    rArrayI(arr, 3, rLinear(0, 10), rDefault([1 2 3]), rDepends(a, t), "array"),
    rAction(act, rProp(alias), ""),
    rParamI(a, rLogWithLogmin(0, 100, 0.5), rNoDefaults, "x"),
};
#undef rObject
}
static void do_metamacro(FILE *out) {
    for (const rtosc::Port &p : mmacro::M::ports) { const char *m = p.metadata; size_t n = 0;
        if (m && *m) { while (m[n] || m[n + 1]) ++n; n += 2; if (n < 2) n = 2; }      // up to and including the double NUL (a valueless last entry ends with it as well)
        JW w; w.obj().kbytes("name", (const uint8_t *)p.name, strlen(p.name)).kbytes("block", (const uint8_t *)m, n).end_obj(); fprintf(out, "%s\n", w.s.c_str()); }
}
// ---------------------------------------------------------------- C17 metadata
static void do_meta(const J &in, FILE *out) {
    std::vector<uint8_t> block = in["block"].bytes();
    FlushBuf mb(block.size()); memcpy(mb.p, block.data(), block.size());
    Port port; port.name = "p"; port.metadata = (const char *)mb.p; port.ports = nullptr;
    JW w; w.obj().kstr("k", "meta").key("es").raw("@E@").kbytes("block", block);
    int sig = vg_run(10, [&] {
        auto meta = port.meta();
        w.key("iter").arr(); int guard = 0;
        for (auto e : meta) { if (++guard > 64) break; w.obj().kbytes("key", (const uint8_t *)e.title, e.title ? strlen(e.title) : 0).kbool("has", e.value != nullptr)
            .kbytes("val", (const uint8_t *)e.value, e.value ? strlen(e.value) : 0).end_obj(); }
        w.end_arr().knum("length", (long long)meta.length());
        std::vector<std::string> qs; for (auto &e : in["es"].a) { std::string k = e["key"].text(); if (std::find(qs.begin(), qs.end(), k) == qs.end()) qs.push_back(k); }
        qs.push_back("zz"); if (std::find(qs.begin(), qs.end(), "a") == qs.end()) qs.push_back("a");
        w.key("queries").arr();
        for (auto &q : qs) { FlushBuf qb(q.size() + 1); memcpy(qb.p, q.c_str(), q.size() + 1);
            const char *v = meta[(const char *)qb.p]; auto it = meta.find((const char *)qb.p);
            w.obj().kbytes("key", (const uint8_t *)q.data(), q.size()).kbool("some", v != nullptr).kbytes("val", (const uint8_t *)v, v ? strlen(v) : 0).kbool("found", (bool)it).end_obj(); }
        w.end_arr();
    });
    w.knum("sig", sig).knum("asan", vg_asan_hits).kstr("asan_what", vg_asan_first).end_obj();
    // the entry list travels verbatim
    JW e; e.arr(); for (auto &x : in["es"].a) { e.obj().kbytes("key", x["key"].bytes()).kbool("has", x["has"].b).kbytes("val", x["val"].bytes()).end_obj(); } e.end_arr();
    std::string s = w.s; s.replace(s.find("@E@"), 3, e.s);
    fprintf(out, "%s\n", s.c_str());
}

// ---------------------------------------------------------------- C18 collapsePath
static void do_collapse(const J &in, FILE *out) {
    std::string path = in["path"].text();
    JW w; w.obj().kstr("k", "collapse").key("comps").arr(); for (auto &c : in["comps"].a) w.bytes(c.bytes()); w.end_arr().kbytes("path", (const uint8_t *)path.data(), path.size());
    int sig = vg_run(5, [&] {
        FlushBuf b(path.size() + 1); memcpy(b.p, path.c_str(), path.size() + 1);
        char *r = Ports::collapsePath((char *)b.p);
        bool inside = r >= (char *)b.p && r <= (char *)b.p + path.size();
        w.kbool("inside", inside);
        if (inside) w.kbytes("result", (const uint8_t *)r, strnlen(r, path.size() + 1 - (r - (char *)b.p)));
        else w.kbytes("result", (const uint8_t *)"", 0);
    });
    w.knum("sig", sig).knum("asan", vg_asan_hits).kstr("asan_what", vg_asan_first).end_obj();
    fprintf(out, "%s\n", w.s.c_str());
}
// ---------------------------------------------------------------- C18 child search
static void do_search(const std::string &line, const J &in, FILE *out) {
    const J &tb = in["table"]; std::vector<int> none;
    port_ids.clear(); objs.clear();
    std::unique_ptr<Node> root = build(tb, none);
    JW w; w.obj().kstr("k", "search").key("table").raw("@T@").key("queries").arr();
    int sig = vg_run(60, [&] {
        for (auto &q : in["queries"].a) {
            std::string loc = q["loc"].text(), needle = q["needle"].text(); int opt = (int)q["opt"].num(); bool wq = q["with_query"].b;
            char m[512]; size_t mn = rtosc_message(m, sizeof m, "/path-search", "ss", loc.c_str(), needle.c_str());
            FlushBuf mb(mn); memcpy(mb.p, m, mn);
            size_t cap = 8192; FlushBuf rb(cap); memset(rb.p, 0xA5, cap); int h0 = vg_asan_hits;
            size_t maxp = q.has("max") ? (size_t)q["max"].num() : 64;      // "the maximum number of child ports" (ports.h): exactly as many as there are, or plenty
            size_t n = path_search(root->ports, (const char *)mb.p, maxp, (char *)rb.p, cap, (path_search_opts)opt, wq);
            w.obj().kbytes("loc", (const uint8_t *)loc.data(), loc.size()).kbytes("needle", (const uint8_t *)needle.data(), needle.size()).knum("opt", opt).kbool("with_query", wq)
             .knum("ret", (long long)n).kbytes("reply", rb.p, n <= cap ? n : 0).kbool("valid", n && n <= cap && rtosc_valid_message_p((const char *)rb.p, n)).knum("asan", vg_asan_hits - h0).end_obj();
        } });
    w.end_arr().knum("sig", sig).kstr("asan_what", vg_asan_first).end_obj();
    std::string t = line.substr(line.find("\"table\":") + 8); size_t cut = t.rfind(",\"queries\""); t = t.substr(0, cut);
    std::string s = w.s; s.replace(s.find("@T@"), 3, t);
    fprintf(out, "%s\n", s.c_str());
}

int main(int argc, char **argv) {
    vg_init();
    if (argc < 4) return 2;
    std::string mode = argv[1]; FILE *f = fopen(argv[2], "r"); FILE *out = fopen(argv[3], "w"); if (!f || !out) return 2;
    std::string line;
    if (mode == "metamacro") { do_metamacro(out); fclose(out); return 0; }
    while (read_line(f, line)) { if (line.empty()) continue; J j = jparse(line); if (mode == "dispatch") do_dispatch(line, j, out); else if (mode == "walk") do_walk(line, j, out); else if (mode == "walksugar") do_walksugar(line, j, out); else if (mode == "meta") do_meta(j, out); else if (mode == "collapse") do_collapse(j, out); else if (mode == "search") do_search(line, j, out); }
    fclose(out); return 0;
}
