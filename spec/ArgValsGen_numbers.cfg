CONSTANTS MaxLen = 3  Pool = "numbers"
INIT Init
NEXT Next
INVARIANT FormsLaw
CONSTRAINT Emit
CHECK_DEADLOCK FALSE
