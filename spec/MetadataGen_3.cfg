CONSTANTS MaxEntries = 3
INIT Init
NEXT Next
INVARIANT Laws
CONSTRAINT Emit
CHECK_DEADLOCK FALSE
