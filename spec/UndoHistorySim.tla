---------------------------- MODULE UndoHistorySim ----------------------------
(* Engine A front-end for C15: TLC -simulate draws behaviours of UndoHistory.tla    *)
(* (Max = 20, clock steps around the 2-second window) and writes the sequence of     *)
(* calls of each behaviour; the driver performs them on the real rtosc::UndoHistory  *)
(* (time() interposed) and logs what it observes; UndoHistoryTrace judges the log.   *)
EXTENDS UndoHistory, Json, CSV, IOUtils
VARIABLE ops
SimInit == Init /\ ops = <<>>
SimNext == Next /\ ops' = Append(ops, step')
Out == IOEnv.OUT
MaxDepth == atoi(IOEnv.DEPTH)
\* In simulation TLC evaluates the constraint on every candidate successor, so exactly one candidate
\* per behaviour is written out: the one that ends with a clock tick of 1.
Export == (TLCGet("level") < MaxDepth) \/ step.op # "tick" \/ step.d # 1 \/ CSVWrite("%1$s", <<ToJson(ops)>>, Out)
=============================================================================
