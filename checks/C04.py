"""C04 - dispatch delivers a message to exactly the port it addresses.
PortTree.tla defines Dispatch denotationally (no hashing, no scanning); PortTreeGen grows
tables one port at a time (flat literal tables that obtain a perfect hash; structured tables
with #N, ':types', multi-component leaves and sub-trees) and checks the walk/dispatch laws;
the real Ports::dispatch runs on every table under several permutations, for every derived
address x type string, without and with a location buffer; PortTreeTrace judges callbacks,
object chain, d.loc, d.port, d.matches and equality of the two lookup strategies."""
import json, os, random
from vlib import core
from checks import treegen


def tname(tb):
    return "{" + ",".join(bytes(p["name"]).decode("latin1") + ("(" + tname(p["sub"]) + ")" if not p["leaf"] else "") for p in tb["ports"]) + "}"


def run_tables(ctx, inputs, tag):
    inp = ctx.path("in_%s.ndjson" % tag)
    with open(inp, "w") as f:
        for x in inputs:
            f.write(json.dumps(dict(table=x["table"], addrs=x["addrs"], routes=bool(x.get("routes"))), separators=(",", ":")) + "\n")
    out = ctx.path("dispatch_%s.ndjson" % tag)
    ctx.driver("tree_driver", "asan", ["dispatch", inp, out])
    rej = ctx.validate("PortTreeTrace", "PortTreeTrace.cfg", out, timeout=3000)
    nhashed = n = 0
    with open(out) as f:
        for i, line in enumerate(f, 1):
            hashed = '"hashed":true' in line[-400:] or '"hashed":true' in line[:20000]
            n += 1
            r = None
            if i in rej or i % 400 == 1:
                r = json.loads(line)
            if i in rej:
                bad = ctx.reject_extra.get(i, 0)
                e = r["results"][bad - 1] if bad and "results" in r else {}
                for c in rej[i]:
                    ctx.reject(dict(clause=c, table=tname(r["table"]), hashed=r.get("hashed", False)),
                               dict(table=r["table"], routes=r.get("route", "direct") != "direct", addrs=[e.get("addr", [])] if e else [x["addr"] for x in r.get("results", [])[:50]]),
                               "clause %s fails for table %s%s (perm %s) address '/%s' tags '%s'" % (c, tname(r["table"]), "" if r.get("route", "direct") == "direct" else " built through %sPorts" % r["route"].capitalize(), r["perm"],
                                    bytes(e.get("addr", [])).decode("latin1"), bytes(e.get("tags", [])).decode("latin1")))
            if r is not None and i % 400 == 1 and r.get("results"):
                e = r["results"][len(r["results"]) // 2]
                ctx.sample(dict(table=tname(r["table"]), perm=r["perm"], hashed=r["hashed"], address="/" + bytes(e["addr"]).decode("latin1"),
                                tags=bytes(e["tags"]).decode("latin1"), callbacks=[c["id"] for c in e["loc"]]))
    os.remove(out)
    return n


def count_results(ctx, inputs):
    for x in inputs:
        np = len(x["table"]["ports"])
        perms = 1 + (1 if np > 1 else 0) + (1 if np > 2 else 0)
        ctx.evaluations += len(x["addrs"]) * 3 * 2 * perms
        if np >= 2:
            ctx.nontrivial.add(tname(x["table"]))


def run(ctx):
    ctx.rule = ("tables: every state of PortTreeGen (flat: <=4 literal names over {a,b} of length<=3; struct: <=2/3 ports from 10 leaf shapes with #N, ':types', "
                "a#2/b and 20 sub-tree shapes) + seeded random tables (1..24 names over {a,b,c}, types, #N, nesting <=3, default handler); each under up to 3 "
                "permutations (and, for a third of them, rebuilt through MergePorts and ClonePorts) x derived addresses (members, one-character mutations, boundary indices) x 3 type strings x {no location buffer, location buffer}; "
                "evaluations = dispatch calls; non-trivial = distinct table with >= 2 ports")
    ctx.assumptions = ["sub-tree ports are single path components and hand the child object down like rRecur*/rRecurs (SNIP contract)",
                       "the default handler's own invocations are not judged (the statement covers ports); d.matches may or may not count them",
                       "whether a table was hashed is inferred from the library's diagnostic and the absence of '#' (coverage statistics only)"]
    if ctx.replay:
        case = json.load(open(ctx.replay))["case"]
        run_tables(ctx, [case], "replay")
        return
    thorough = ctx.tier == "thorough"
    tot = 0
    for cfg, tag in (("PortTreeGen_flat4.cfg", "flat"), ("PortTreeGen_struct3.cfg" if thorough else "PortTreeGen_struct2.cfg", "struct")):
        vec, r = ctx.vectors("PortTreeGen", cfg, "tables_" + tag)
        ctx.bounds[cfg] = r.distinct
        if tag == "flat" and not thorough:   # quick: every table, fewer addresses each
            for v in vec:
                v["addrs"] = v["addrs"][::2]
        for k, v in enumerate(vec):          # derived tables (MergePorts of overlapping halves, ClonePorts of all names): every structured table, every third flat one
            v["routes"] = tag == "struct" or thorough or k % 3 == 0
        count_results(ctx, vec)
        tot += run_tables(ctx, vec, tag)
    ctx.exhaustive = True
    g = treegen.Gen(ctx.seed)
    rng = random.Random(ctx.seed + 7)
    rnd = []
    for i in range(3000 if thorough else 250):
        tb = g.table(rng.randint(1, 3), rng.choice([3, 6, 12, 24]))
        if i % 4 == 0:          # long port names (15, 19, 40 characters before the varying part)
            treegen.lengthen(tb, treegen.LONG_PREFIXES[(i // 4) % 3])
        rnd.append(dict(table=tb, addrs=treegen.addresses(rng, tb), routes=(i % 3 == 1)))
    count_results(ctx, rnd)
    tot += run_tables(ctx, rnd, "random")
    ctx.notes["table_permutation_runs"] = tot
