---------------------------- MODULE ArgValsTrace ----------------------------
(* Judgement for C16.  A log line is a block of K argument lists in compressed or   *)
(* plain form (owner[i] = the plain list form i stands for) with the K x K matrices  *)
(* of the real three-way comparison (signs) and equality test, what the arg-val      *)
(* iterator yields for each form, and the message built from it.                     *)
EXTENDS ArgVals, Json, IOUtils, TLC
Log == ndJsonDeserialize(IOEnv.TRACE)
VARIABLE l
NB == 64
Init == l \in {0 - b : b \in 1..NB}
Next == /\ l < 0
        /\ \E j \in 0..(Len(Log) \div NB) : LET i == j * NB + (0 - l) IN i <= Len(Log) /\ l' = i
IsScalarForm(f) == Len(f) = 1 /\ f[1].k = "one" /\ f[1].x.t # "a"
\* what iteration must yield: the expanded list, arrays as one value
IterExp(f) == LET e == Expand(f) IN [i \in 1..Len(e) |-> IF e[i].t = "a" THEN [t |-> "a", v |-> 0] ELSE [t |-> e[i].t, v |-> e[i].v]]
IterObs(s) == [i \in 1..Len(s) |-> IF s[i].t = "a" THEN [t |-> "a", v |-> 0] ELSE [t |-> s[i].t, v |-> s[i].v]]
Fails(r) ==
  IF r.sig # 0 THEN {"crash_or_hang"}
  ELSE LET K == Len(r.forms)  c == r.cmp  e == r.eq IN
  {k \in {"oob", "reflexive", "antisymmetric", "transitive", "zero_iff_equal", "equal_is_equivalence", "scalar_order",
          "compression_changes_order", "compression_changes_equality", "iteration", "message"} :
   ~ CASE k = "oob" -> r.asan = 0
       [] k = "reflexive" -> \A i \in 1..K : c[i][i] = 0 /\ e[i][i] = 1
       [] k = "antisymmetric" -> \A i, j \in 1..K : c[i][j] = 0 - c[j][i]
       [] k = "transitive" -> \A i, j, m \in 1..K : (c[i][j] <= 0 /\ c[j][m] <= 0) => (c[i][m] <= 0 /\ ((c[i][j] < 0 \/ c[j][m] < 0) => c[i][m] < 0))
       [] k = "zero_iff_equal" -> \A i, j \in 1..K : (c[i][j] = 0) <=> (e[i][j] = 1)
       [] k = "equal_is_equivalence" -> \A i, j \in 1..K : e[i][j] = e[j][i]
       [] k = "scalar_order" -> \A i, j \in 1..K : (IsScalarForm(r.forms[i]) /\ IsScalarForm(r.forms[j]) /\ r.forms[i][1].x.t = r.forms[j][1].x.t) =>
                                   LET s == CmpScalar(r.forms[i][1].x, r.forms[j][1].x) IN s = 2 \/ c[i][j] = s
       [] k = "compression_changes_order" -> \A i, j \in 1..K : r.owner[i] = r.owner[j] => (c[i][j] = 0 /\ \A m \in 1..K : c[i][m] = c[j][m])
       [] k = "compression_changes_equality" -> \A i, j \in 1..K : r.owner[i] = r.owner[j] => (e[i][j] = 1 /\ \A m \in 1..K : e[i][m] = e[j][m])
       [] k = "iteration" -> \A i \in 1..K : IterObs(r.iter[i]) = IterExp(r.forms[i])
       [] k = "message" -> \A i, j \in 1..K : r.owner[i] = r.owner[j] => r.msg[i] = r.msg[j] }
Judge == l < 0 \/ LET f == Fails(Log[l]) IN f = {} \/ PrintT(<<"REJECT", l, f>>)
=============================================================================
