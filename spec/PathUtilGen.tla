---------------------------- MODULE PathUtilGen ----------------------------
(* Input machine for the collapse part of C18: a state is an absolute path as a     *)
(* component list, grown one component at a time over {a, bb, .., c., ..x, x..}.         *)
EXTENDS PathUtil, Json, CSV, IOUtils, TLC
CONSTANTS MaxComps
VARIABLES comps
CompChoices == { <<97>>, <<98, 98>>, DotDot, <<99, 46>>, <<46, 46, 120>>, <<120, 46, 46>>,
                 <<99, 111, 110, 102, 105, 103, 117, 114, 97, 116, 105, 111, 110>>, <<86, 111, 105, 99, 101, 80, 97, 114, 49>> }   \* "configuration", "VoicePar1": longer than what gets removed to their right
Init == comps = <<>>
Next == Len(comps) < MaxComps /\ \E c \in CompChoices : comps' = Append(comps, c)
Laws == /\ \A i \in 1..Len(Collapse(comps)) : Collapse(comps)[i] # DotDot        \* no '..' survives
        /\ Len(Collapse(comps)) <= Len(comps)
        /\ Collapse(Collapse(comps)) = Collapse(comps)                            \* idempotent
Out == IF "OUT" \in DOMAIN IOEnv THEN IOEnv.OUT ELSE "none"
Emit == comps = <<>> \/ Out = "none" \/ CSVWrite("%1$s", <<ToJson([comps |-> comps, path |-> RenderPath(comps)])>>, Out)
=============================================================================
