---------------------------- MODULE PrettyGrammar ----------------------------
(* The text syntax of rtosc's pretty format as doc/Guide.adoc ("Pretty-printing     *)
(* Messages") documents it, written as RENDERING functions: a token is a value      *)
(* together with one of its documented spellings, so the characters and the         *)
(* denotation come from the same choice and no parsing is needed in the             *)
(* specification.  A sentence is a sequence of tokens with separators (blanks, line  *)
(* breaks, '%' comments) between and after them.                                    *)
(*                                                                                  *)
(* Values (the form the conformance driver logs):                                   *)
(*   i c r : [t, v |-> <<hi, lo>>] 16-bit limbs     h t : 4 limbs                    *)
(*   f d   : [t, dy |-> <<M, E, 0>>] value = M * 2^E, M odd (0, 0 for zero)          *)
(*   s S b m : [t, v |-> bytes]     T F N I : [t, v |-> <<>>]                        *)
(*   a     : [t |-> "a", el |-> Seq(value)]   "..." : [t |-> "...", v |-> first three values of an open-ended range] *)
EXTENDS Integers, Sequences, FiniteSets, TLC
RECURSIVE Concat(_)
Concat(ss) == IF ss = <<>> THEN <<>> ELSE Head(ss) \o Concat(Tail(ss))
\* ------------------------------------------------------------------ characters and numbers
D0 == 48
RECURSIVE DecNat(_)
DecNat(n) == IF n < 10 THEN <<D0 + n>> ELSE DecNat(n \div 10) \o <<D0 + (n % 10)>>
Dec(v) == IF v < 0 THEN <<45>> \o DecNat(0 - v) ELSE DecNat(v)
HexDigit(d) == IF d < 10 THEN D0 + d ELSE 87 + d
RECURSIVE HexNat(_)
HexNat(n) == IF n < 16 THEN <<HexDigit(n)>> ELSE HexNat(n \div 16) \o <<HexDigit(n % 16)>>
RECURSIVE Pow(_, _)
Pow(b, e) == IF e = 0 THEN 1 ELSE b * Pow(b, e - 1)
RECURSIVE PadLeft(_, _)
PadLeft(ds, w) == IF Len(ds) >= w THEN ds ELSE PadLeft(<<D0>> \o ds, w)
I32(n) == IF n >= 0 THEN <<n \div 65536, n % 65536>> ELSE <<65535 - ((0 - n - 1) \div 65536), (65536 - ((0 - n) % 65536)) % 65536>>
I64(n) == IF n >= 0 THEN <<0, 0, n \div 65536, n % 65536>> ELSE <<65535, 65535>> \o I32(n)
\* dyadic m * 2^(-k) in the driver's normal form
RECURSIVE NormDy(_, _)
NormDy(m, e) == IF m = 0 THEN <<0, 0, 0>> ELSE IF m % 2 = 0 THEN NormDy(m \div 2, e + 1) ELSE <<m, e, 0>>
Dy(m, k) == NormDy(m, 0 - k)
Str(s) == s
Kw(c) == c
\* ------------------------------------------------------------------ spellings
\* decimal text of m * 2^(-k), k in 0..6: exactly k fractional digits
DecDyadic(m, k) == LET neg == m < 0  a == IF neg THEN 0 - m ELSE m
                       ip == a \div Pow(2, k)  fp == (a % Pow(2, k)) * Pow(5, k) IN
                   (IF neg THEN <<45>> ELSE <<>>) \o DecNat(ip) \o <<46>> \o (IF k = 0 THEN <<>> ELSE PadLeft(DecNat(fp), k))
HexFloat(m, k) == (IF m < 0 THEN <<45>> ELSE <<>>) \o <<48, 120>> \o HexNat(IF m < 0 THEN 0 - m ELSE m) \o <<112>>
                  \o (IF k = 0 THEN <<43, 48>> ELSE <<45>> \o DecNat(k))                      \* 0x<m>p-k
Tok(txt, vals) == [txt |-> txt, val |-> vals, rng |-> FALSE]
RngTok(txt, vals) == [txt |-> txt, val |-> vals, rng |-> TRUE]      \* a token that contains '...' outside an array
IV(v) == [t |-> "i", v |-> I32(v)]
HV(v) == [t |-> "h", v |-> I64(v)]
FV(m, k) == [t |-> "f", dy |-> Dy(m, k)]
DV(m, k) == [t |-> "d", dy |-> Dy(m, k)]
IntToks(v) == { Tok(Dec(v), <<IV(v)>>), Tok(Dec(v) \o <<105>>, <<IV(v)>>) }
              \cup (IF v >= 0 THEN { Tok(<<48, 120>> \o HexNat(v), <<IV(v)>>) } ELSE {})
LongToks(v) == { Tok(Dec(v) \o <<104>>, <<HV(v)>>) } \cup (IF v >= 0 THEN { Tok(<<48, 120>> \o HexNat(v) \o <<104>>, <<HV(v)>>) } ELSE {})
FloatToks(m, k) == { Tok(DecDyadic(m, k), <<FV(m, k)>>), Tok(DecDyadic(m, k) \o <<102>>, <<FV(m, k)>>), Tok(HexFloat(m, k), <<FV(m, k)>>),
                     Tok(<<48, 46, 49, 32, 40>> \o HexFloat(m, k) \o <<41>>, <<FV(m, k)>>) }          \* "0.1 (0x..p-k)": the exact value is in the parentheses
                   \cup (IF k = 0 THEN { Tok(Dec(m) \o <<102>>, <<FV(m, 0)>>), Tok(Dec(m) \o <<101, 48>>, <<FV(m, 0)>>), Tok(Dec(m) \o <<46>>, <<FV(m, 0)>>) } ELSE {})
DoubleToks(m, k) == { Tok(DecDyadic(m, k) \o <<100>>, <<DV(m, k)>>), Tok(<<48, 46, 49, 100, 32, 40>> \o HexFloat(m, k) \o <<41>>, <<DV(m, k)>>) }
                    \cup (IF k = 0 THEN { Tok(Dec(m) \o <<100>>, <<DV(m, 0)>>) } ELSE {})
Esc(c, inChar) == CASE c = 10 -> <<92, 110>> [] c = 9 -> <<92, 116>> [] c = 92 -> <<92, 92>> [] c = 7 -> <<92, 97>>
                    [] c = 39 /\ inChar -> <<92, 39>> [] c = 34 /\ ~ inChar -> <<92, 34>> [] OTHER -> <<c>>
CharToks(c) == { Tok(<<39>> \o Esc(c, TRUE) \o <<39>>, <<[t |-> "c", v |-> I32(c)]>>) }
RECURSIVE EscAll(_)
EscAll(s) == IF s = <<>> THEN <<>> ELSE Esc(Head(s), FALSE) \o EscAll(Tail(s))
StringToks(s) == { Tok(<<34>> \o EscAll(s) \o <<34>>, <<[t |-> "s", v |-> s]>>) }
   \cup { Tok(<<34>> \o EscAll(SubSeq(s, 1, i)) \o <<34, 92, 10, 32, 32, 34>> \o EscAll(SubSeq(s, i + 1, Len(s))) \o <<34>>, <<[t |-> "s", v |-> s]>>) : i \in {0, Len(s) \div 2} }
Reserved == { <<116, 114, 117, 101>>, <<102, 97, 108, 115, 101>>, <<110, 105, 108>>, <<105, 110, 102>>, <<110, 111, 119>>,
              <<105, 109, 109, 101, 100, 105, 97, 116, 101, 108, 121>>, <<77, 73, 68, 73>>, <<66, 76, 79, 66>> }     \* words with a meaning of their own
IsIdent(s) == s # <<>> /\ s \notin Reserved /\ (s[1] \in (65..90) \cup (97..122) \cup {95}) /\ \A i \in 1..Len(s) : s[i] \in (48..57) \cup (65..90) \cup (97..122) \cup {95}
SymbolToks(s) == { Tok(<<34>> \o EscAll(s) \o <<34, 83>>, <<[t |-> "S", v |-> s]>>) }
                 \cup (IF IsIdent(s) THEN { Tok(s, <<[t |-> "S", v |-> s]>>) } ELSE {})
KwToks == { Tok(<<116, 114, 117, 101>>, <<[t |-> "T", v |-> <<>>]>>), Tok(<<102, 97, 108, 115, 101>>, <<[t |-> "F", v |-> <<>>]>>),
            Tok(<<110, 105, 108>>, <<[t |-> "N", v |-> <<>>]>>), Tok(<<105, 110, 102>>, <<[t |-> "I", v |-> <<>>]>>),
            Tok(<<110, 111, 119>>, <<[t |-> "t", v |-> <<0, 0, 0, 1>>]>>), Tok(<<105, 109, 109, 101, 100, 105, 97, 116, 101, 108, 121>>, <<[t |-> "t", v |-> <<0, 0, 0, 1>>]>>) }
Hex2(b) == <<48, 120, HexDigit(b \div 16), HexDigit(b % 16)>>
MidiTok(b) == Tok(<<77, 73, 68, 73, 32, 91>> \o Hex2(b[1]) \o <<32>> \o Hex2(b[2]) \o <<32>> \o Hex2(b[3]) \o <<32>> \o Hex2(b[4]) \o <<93>>, <<[t |-> "m", v |-> b]>>)
ColourTok(b) == Tok(<<35>> \o Concat([i \in 1..4 |-> <<HexDigit(b[i] \div 16), HexDigit(b[i] % 16)>>]), <<[t |-> "r", v |-> <<b[1] * 256 + b[2], b[3] * 256 + b[4]>>]>>)
\* dates: days since 1970-01-01 (the conversions equal mktime(3p) under TZ=UTC) by the civil-calendar formula;
\* seconds = days * 86400 + second of day, kept in two 16-bit limbs
Leap(y) == (y % 4 = 0 /\ y % 100 # 0) \/ y % 400 = 0
DaysBeforeYear(y) == (y - 1970) * 365 + ((y - 1) \div 4 - 1969 \div 4) - ((y - 1) \div 100 - 1969 \div 100) + ((y - 1) \div 400 - 1969 \div 400)
MonthStart(y, mo) == LET cum == <<0, 31, 59, 90, 120, 151, 181, 212, 243, 273, 304, 334>> IN cum[mo] + (IF mo > 2 /\ Leap(y) THEN 1 ELSE 0)
SecsLimbs(days, sod) ==       \* days * 86400 + sod = days * 65536 + (days * 20864 + sod)
  LET low == days * 20864 + sod IN << (days + low \div 65536) % 65536, low % 65536 >>
DateVal(y, mo, d, hh, mi, ss, fracHi) == [t |-> "t", v |-> SecsLimbs(DaysBeforeYear(y) + MonthStart(y, mo) + d - 1, hh * 3600 + mi * 60 + ss) \o <<fracHi, 0>>]
P2(n) == PadLeft(DecNat(n), 2)
DateToks(y, mo, d) == LET ymd == PadLeft(DecNat(y), 4) \o <<45>> \o P2(mo) \o <<45>> \o P2(d) IN
  { Tok(ymd, <<DateVal(y, mo, d, 0, 0, 0, 0)>>),
    Tok(ymd \o <<32>> \o P2(0) \o <<58>> \o P2(0), <<DateVal(y, mo, d, 0, 0, 0, 0)>>),
    Tok(ymd \o <<32>> \o P2(19) \o <<58>> \o P2(44), <<DateVal(y, mo, d, 19, 44, 0, 0)>>),
    Tok(ymd \o <<32>> \o P2(19) \o <<58>> \o P2(44) \o <<58>> \o P2(6), <<DateVal(y, mo, d, 19, 44, 6, 0)>>),
    Tok(ymd \o <<32>> \o P2(20) \o <<58>> \o P2(29) \o <<58>> \o P2(59) \o <<46, 49, 50, 53>>, <<DateVal(y, mo, d, 20, 29, 59, 8192)>>) }   \* .125 = 0x2000 0000 / 2^32
\* ------------------------------------------------------------------ compound tokens
\* "NxA": N copies of A (A any single-value token or array)
RepTok(n, tk) == Tok(DecNat(n) \o <<120>> \o tk.txt, Concat([i \in 1..n |-> tk.val]))
\* "a b ... c" over ints: values a, b, b+d, ..., c with d = b - a;  "b ... c" without a: d = sgn(c - b)
RangeTok3(a, b, n) == LET d == b - a  c == b + (n - 1) * d IN
  RngTok(Dec(a) \o <<32>> \o Dec(b) \o <<32, 46, 46, 46, 32>> \o Dec(c), <<IV(a)>> \o [i \in 1..n |-> IV(b + (i - 1) * d)])
RangeTok2(b, c) == LET d == IF c > b THEN 1 ELSE 0 - 1  n == (IF c > b THEN c - b ELSE b - c) + 1 IN
  RngTok(Dec(b) \o <<32, 46, 46, 46, 32>> \o Dec(c), [i \in 1..n |-> IV(b + (i - 1) * d)])
RangeTokF(am, bm, k, n) == LET d == bm - am IN       \* floats: "0.000 0.250 ... 1.000"
  RngTok(DecDyadic(am, k) \o <<32>> \o DecDyadic(bm, k) \o <<32, 46, 46, 46, 32>> \o DecDyadic(bm + (n - 1) * d, k), <<FV(am, k)>> \o [i \in 1..n |-> FV(bm + (i - 1) * d, k)])
\* a run of plain values written out in full ("3 4 5 6 7"): nothing special to the scanner, but the PRINTER compresses it again when the scanned
\* values are printed - behind a range it must then choose whether the second value has to be spelled out
PlainRun(a, d, n) == Tok(Concat([i \in 1..n |-> Dec(a + (i - 1) * d) \o (IF i < n THEN <<32>> ELSE <<>>)]), [i \in 1..n |-> IV(a + (i - 1) * d)])
\* arrays: "[ e1 e2 ... ]"; elements are tokens; the blanks inside are part of the spelling choice
ArrTok(elems, inner) == Tok(<<91>> \o inner \o Concat([i \in 1..Len(elems) |-> elems[i].txt \o (IF i < Len(elems) THEN <<32>> ELSE <<>>)]) \o inner \o <<93>>,
                            << [t |-> "a", el |-> Concat([i \in 1..Len(elems) |-> elems[i].val])] >>)
\* open-ended ranges, only at the end of arrays: "[1 2 ...]" continues with the delta, "[1 1 ...]" and "[0.5 1 ...]"-like (different types) repeat
ArrOpen2(a, b) == Tok(<<91>> \o Dec(a) \o <<32>> \o Dec(b) \o <<32, 46, 46, 46, 93>>,
                      << [t |-> "a", el |-> <<IV(a), [t |-> "...", v |-> [i \in 1..3 |-> IV(b + (i - 1) * (b - a))]]>>] >>)
\* the other documented open-ended forms: "[x ...]", "[x x ...]" (delta-less: the same element repeated), "[y x ...]" with y of another type
\* than x (no suiting left-of-left-hand sign: delta-less as well), for ANY element type ("arrays can contain any types of elements")
ArrOpenRep(pre, x) == Tok(<<91>> \o Concat([i \in 1..Len(pre) |-> pre[i].txt \o <<32>>]) \o x.txt \o <<32, 46, 46, 46, 93>>,
                          << [t |-> "a", el |-> Concat([i \in 1..Len(pre) |-> pre[i].val]) \o << [t |-> "...", v |-> <<x.val[1], x.val[1], x.val[1]>>] >>] >>)
\* "[true false ...]": a left-of-left-hand sign of the same type that differs - the manual defines the delta for numbers only, so WHAT the
\* range continues with is not documented (value "any"); that checker and scanner agree on the number of cells, that the text is consumed and
\* that the result prints and scans back equal still is
AnyV == [t |-> "any", v |-> <<>>]
ArrOpenAny(pre, x) == Tok(<<91>> \o Concat([i \in 1..Len(pre) |-> pre[i].txt \o <<32>>]) \o x.txt \o <<32, 46, 46, 46, 93>>,
                          << [t |-> "a", el |-> Concat([i \in 1..Len(pre) |-> pre[i].val]) \o << [t |-> "...", v |-> <<AnyV, AnyV, AnyV>>] >>] >>)
\* doubles with and without the parenthesised exact value side by side - in an array, in a range, in an open-ended range
DPlain(m, k) == Tok(DecDyadic(m, k) \o <<100>>, <<DV(m, k)>>)
DExact(m, k) == Tok(DecDyadic(m, k) \o <<100, 32, 40>> \o HexFloat(m, k) \o <<41>>, <<DV(m, k)>>)
DoubleMixToks ==
  { ArrTok(<<DPlain(3, 1), DExact(5, 1)>>, <<>>), ArrTok(<<DExact(3, 1), DPlain(5, 1)>>, <<32>>),
    [RngTok(DPlain(2, 1).txt \o <<32, 46, 46, 46, 32>> \o DExact(6, 1).txt, <<DV(2, 1), DV(4, 1), DV(6, 1)>>) EXCEPT !.rng = TRUE],                    \* 1.0d ... 3.0d (0x6p-1)
    RngTok(DPlain(1, 1).txt \o <<32>> \o DExact(2, 1).txt \o <<32, 46, 46, 46, 32>> \o DPlain(5, 1).txt, <<DV(1, 1), DV(2, 1), DV(3, 1), DV(4, 1), DV(5, 1)>>),   \* 0.5d 1.0d (0x2p-1) ... 2.5d
    Tok(<<91>> \o DPlain(1, 1).txt \o <<32>> \o DExact(2, 1).txt \o <<32, 46, 46, 46, 93>>,
        << [t |-> "a", el |-> <<DV(1, 1), [t |-> "...", v |-> <<DV(2, 1), DV(3, 1), DV(4, 1)>>]>>] >>) }                                                   \* [0.5d 1.0d (0x2p-1) ...]
\* separators: " ", "  ", newline, " % c\n", newline + indentation
Seps == { <<32>>, <<32, 32>>, <<10>>, <<32, 37, 32, 99, 10>>, <<10, 32, 32, 32, 32>>,
          <<32, 37, 32, 99, 10, 32, 32>>,                       \* a comment, then an indented next line
          <<32, 37, 32, 99, 10, 10>>,                           \* a comment, then a blank line
          <<32, 37, 97, 10, 32, 32, 37, 32, 98, 10>> }          \* two comments, the second one indented
Trailers == { <<>>, <<32>>, <<10>>, <<32, 37, 99>> }
=============================================================================
