// build: cc -I/tmp/wt/C16_h/include /tmp/wt/C16_h/findings/finding2.c /tmp/wt/C16_h/_build/librtosc-cpp.a /tmp/wt/C16_h/_build/librtosc.a -lm -o /tmp/wt/C16_h/findings/finding2
//
// C16 finding 2 (low severity): the library's own run compression
// (rtosc_print_arg_vals with compress_ranges, the default) decides with
// rtosc_arg_vals_eq_single() whether values form a constant run. For floats
// and doubles this holds for 0.0 and -0.0, so the run  0.0 -0.0 -0.0 -0.0 -0.0
// is replaced by "5x0.0" (even with the "lossless" option): iterating the
// compressed form yields +0.0 five times and the OSC message built from it
// differs from the message built from the original list.
// Responsible: src/cpp/pretty-format.c:397 and 415-417 (rtosc_convert_to_range):
// constant runs are detected with rtosc_arg_vals_eq_single (0.0 == -0.0).
// Repair: for 'f'/'d' additionally require identical bit patterns (memcmp).
#include <stdio.h>
#include <string.h>
#include <rtosc/rtosc.h>
#include <rtosc/arg-val.h>
#include <rtosc/arg-val-cmp.h>
#include <rtosc/arg-val-itr.h>
#include <rtosc/pretty-format.h>

static void dump(const char* m, size_t l)
{
    for(size_t i = 0; i < l; ++i)
        printf((m[i] >= 32 && m[i] < 127) ? "%c" : "\\%02x", (unsigned char)m[i]);
    printf("\n");
}

int main(void)
{
    rtosc_arg_val_t orig[5];
    memset(orig, 0, sizeof(orig));
    for(int i = 0; i < 5; ++i) {
        orig[i].type = 'f';
        orig[i].val.f = i ? -0.0f : 0.0f;
    }

    char text[256]; text[0] = ' '; // buffer[-1] must be whitespace
    rtosc_print_options opt = { true /*lossless*/, 3, " ", 80, 1 /*compress*/ };
    rtosc_print_arg_vals(orig, 5, text+1, sizeof(text)-1, &opt, 0);
    printf("compressed text : '%s'\n", text+1);

    int n = rtosc_count_printed_arg_vals(text+1);
    rtosc_arg_val_t comp[8]; char strbuf[16];
    rtosc_scan_arg_vals(text+1, comp, n, strbuf, sizeof(strbuf));

    char m1[64], m2[64];
    memset(m1, 0, sizeof(m1)); memset(m2, 0, sizeof(m2));
    size_t l1 = rtosc_avmessage(m1, sizeof(m1), "/x", 5, orig);
    size_t l2 = rtosc_avmessage(m2, sizeof(m2), "/x", n, comp);
    printf("message expected: "); dump(m1, l1);
    printf("message got     : "); dump(m2, l2);

    // what iteration yields
    int itr_diff = 0;
    rtosc_arg_val_itr itr; rtosc_arg_val_itr_init(&itr, comp);
    for(int i = 0; i < 5 && itr.i < (size_t)n; ++i, rtosc_arg_val_itr_next(&itr)) {
        rtosc_arg_val_t buf;
        const rtosc_arg_val_t* cur = rtosc_arg_val_itr_get(&itr, &buf);
        if(memcmp(&cur->val.f, &orig[i].val.f, sizeof(float))) {
            printf("value %d: expected %g, iteration yields %g\n",
                   i, orig[i].val.f, cur->val.f);
            itr_diff = 1;
        }
    }

    int bad = itr_diff || l1 != l2 || memcmp(m1, m2, l1);
    printf("%s\n", bad ? "FAILED: compression changed the values / the message"
                       : "all ok");
    return bad;
}
