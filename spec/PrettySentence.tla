---------------------------- MODULE PrettySentence ----------------------------
(* Judgement for C11: each log line is a sentence of the documented grammar (text +  *)
(* the values it denotes, both from PrettyGrammarGen) and what the real syntax       *)
(* checker and scanner did with it.  Clauses: the checker accepts, the scanner       *)
(* consumes the whole text and writes no more cells than counted, the scanned values *)
(* (expanded by the real iterator) are the denoted ones, and printing them scans     *)
(* back equal.                                                                       *)
EXTENDS Integers, Sequences, FiniteSets, TLC, Json, IOUtils
Log == ndJsonDeserialize(IOEnv.TRACE)
VARIABLE l
NB == 64
Init == l \in {0 - b : b \in 1..NB}
Next == /\ l < 0
        /\ \E j \in 0..(Len(Log) \div NB) : LET i == j * NB + (0 - l) IN i <= Len(Log) /\ l' = i
RECURSIVE Norm(_)
Norm(x) == CASE x.t = "a" -> [t |-> "a", el |-> [i \in 1..Len(x.el) |-> Norm(x.el[i])]]
             [] x.t = "..." -> [t |-> "...", v |-> [i \in 1..Len(x.v) |-> Norm(x.v[i])]]
             [] x.t \in {"f", "d"} -> [t |-> x.t, dy |-> x.dy]
             [] OTHER -> [t |-> x.t, v |-> x.v]
\* expected vs scanned; "any" in the expectation stands for a value the manual does not determine
RECURSIVE Match(_, _)
Match(e, g) == CASE e.t = "any" -> TRUE
                 [] e.t = "a" -> g.t = "a" /\ Len(e.el) = Len(g.el) /\ \A i \in 1..Len(e.el) : Match(e.el[i], g.el[i])
                 [] e.t = "..." -> g.t = "..." /\ Len(e.v) = Len(g.v) /\ \A i \in 1..Len(e.v) : Match(e.v[i], g.v[i])
                 [] OTHER -> e = g
Fails(r) ==
  IF r.sig # 0 THEN {"crash_or_hang"}
  ELSE LET n == Len(r.in.text)
           exp == [i \in 1..Len(r.in.exp) |-> Norm(r.in.exp[i])]
           got == [i \in 1..Len(r.scanned) |-> Norm(r.scanned[i])] IN
  {k \in {"oob", "checker_rejects", "scanner_writes_more_than_counted", "not_all_consumed", "values_differ", "reprint_differs"} :
   ~ CASE k = "oob" -> r.asan = 0
       [] k = "checker_rejects" -> r.count > 0
       [] k = "scanner_writes_more_than_counted" -> r.extra_cells = 0
       [] k = "not_all_consumed" -> r.consumed = n
       [] k = "values_differ" -> Len(got) = Len(exp) /\ \A i \in 1..Len(exp) : Match(exp[i], got[i])
       [] k = "reprint_differs" -> r.again_equal }
Judge == l < 0 \/ LET f == Fails(Log[l]) IN f = {} \/ PrintT(<<"REJECT", l, f>>)
=============================================================================
