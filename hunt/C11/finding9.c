// build: gcc -I/tmp/wt/C11_h/include /tmp/wt/C11_h/findings/finding9.c /tmp/wt/C11_h/_build/librtosc-cpp.a /tmp/wt/C11_h/_build/librtosc.a -lm -o /tmp/wt/C11_h/findings/finding9
// String concatenation "a"\ "b": if something else than a second string
// follows the backslash (a '%' comment before the continuation, a number, the
// end of the text), the CHECKER dereferences a NULL pointer instead of
// returning a parse error.
#include <stdio.h>
#include <string.h>
#include <unistd.h>
#include <sys/wait.h>
#include <rtosc/rtosc.h>
#include <rtosc/pretty-format.h>

static int run(const char* text, const char* expect)
{
    printf("<%s>\n  expected: %s\n", text, expect); fflush(stdout);
    pid_t pid = fork();
    if(pid == 0) {
        int n = rtosc_count_printed_arg_vals(text);
        printf("  got: count %d\n", n); fflush(stdout);
        _exit(0);
    }
    int st; waitpid(pid, &st, 0);
    if(WIFSIGNALED(st)) { printf("  got: checker KILLED by signal %d   <-- WRONG\n", WTERMSIG(st)); return 1; }
    return 0;
}

int main(void)
{
    int bad = 0;
    bad |= run("\"a\"\\\n  \"b\" 1", "count 2 (control)");
    bad |= run("\"a\"\\ % the rest follows\n  \"b\" 1",
               "count 2 (comment at a token boundary), or at least a negative count");
    bad |= run("\"a\"\\ 1", "a negative count (parse error)");
    bad |= run("\"a\"\\", "a negative count (parse error)");
    printf(bad ? "FAIL\n" : "ok\n");
    return bad;
}
