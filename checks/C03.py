"""C03 - realtime safety: the message path never allocates and never locks.
spec/RtSafety.tla is the monitor (set-up / realtime section, heap and lock counters, RtQuiet);
spec/RtAlphabet.tla fixes which operations and which classes of input count; the inputs are the
states of the other families' generators (OscWireGen messages, PathPatternGen patterns,
PortTreeGen tables, AppGen scripts) and of RtSafetyGen (ThreadLink scripts over an abstract
ring); harness/rt_driver.cpp executes every one inside a realtime section with interposed
malloc/free/new/delete/pthread locks and logs the observed counter deltas per operation;
spec/RtSafetyTrace.tla lets the monitor take the observed steps and judges RtQuiet.
Positive controls (an allocation, a deallocation, a lock, on purpose) must be rejected."""
import json, os, random
from vlib import core
from checks import treegen


def run(ctx):
    ctx.rule = ("realtime operations = RtAlphabet.tla: message build (array and varargs) / measure / length / valid / read / iterate, bundle build / read, "
                "rtosc_match_path / rtosc_match, Ports::dispatch with and without location buffer, dispatch into the real port-sugar callbacks with the "
                "default reply/broadcast forwarding, ThreadLink write / writeArray / raw_write / read / read_lookahead / hasNext / hasNextLookahead / peak; "
                "evaluations = real library calls made inside the realtime section; non-trivial = distinct (operation, class, input line)")
    ctx.assumptions = ["heap = malloc, calloc, realloc, free of a non-null pointer, memalign, aligned_alloc, posix_memalign (operator new/delete reach them); "
                       "locks = pthread_mutex_lock/trylock, pthread_rwlock_rdlock/wrlock, pthread_spin_lock; mmap/brk made directly are not observed",
                       "the library is built without sanitizers (clang -O2 -DNDEBUG): a failing assert would allocate while reporting",
                       "application callbacks that allocate by design (app1's /palloc creates the sub-object) are not library code and run outside the section",
                       "sugar callbacks always get a location buffer (their documented calling convention)"]
    thorough = ctx.tier == "thorough"
    if ctx.replay:
        case = json.load(open(ctx.replay))["case"]
        lines = [case["input"]]
        required = None
    else:
        rng = random.Random(ctx.seed)
        ctx.spec_law("RtSafety", "RtSafety.cfg", workers=4)
        ctx.spec_mutant("RtSafety", "RtSafety_bad.cfg", workers=4)
        lines = [dict(k="control")]
        alpha = ctx.path("alphabet.raw")
        if os.path.exists(alpha):
            os.remove(alpha)
        link, r = ctx.vectors("RtSafetyGen", "RtSafetyGen_5.cfg" if thorough else "RtSafetyGen_4.cfg", "link", env={"ALPHA": alpha})
        ctx.bounds["link_scripts"] = r.distinct
        a = json.loads(open(alpha).readline())
        a = json.loads(a) if isinstance(a, str) else a
        required = set((x["op"], x["cls"]) for x in a["required"])
        os.remove(alpha)
        lines += link
        msgs, r = ctx.vectors("OscWireGen", "OscWireGen_thorough.cfg" if thorough else "OscWireGen_quick.cfg", "msg")
        ctx.bounds["messages"] = r.distinct
        lines += [dict(k="msg", addr=v["addr"], args=v["args"]) for v in msgs]
        lines.append(dict(k="msgrand", seed=ctx.seed, count=100000 if thorough else 10000))
        pats, r = ctx.vectors("PathPatternGen", "PathPatternGen_3.cfg" if thorough else "PathPatternGen_2.cfg", "pat")
        ctx.bounds["patterns"] = r.distinct
        if not thorough:
            pats = [p for p in pats if rng.random() < 0.25]
        lines += [dict(k="pat", name=v["name"], maxlen=3, prefix="") for v in pats]
        lines += [dict(k="pat", name=v["name"], maxlen=3, prefix=pre) for v in pats[::7] for pre in ("part0/kit12/adpars/", "a_component_name_that_is_long/")]
        lines.append(dict(k="app2"))
        for cfg in ("PortTreeGen_flat4.cfg", "PortTreeGen_struct3.cfg" if thorough else "PortTreeGen_struct2.cfg"):
            tabs, r = ctx.vectors("PortTreeGen", cfg, "tables")
            ctx.bounds[cfg] = r.distinct
            lines += [dict(k="tree", table=v["table"], addrs=v["addrs"]) for v in tabs]
        g = treegen.Gen(ctx.seed)
        for i in range(3000 if thorough else 300):
            tb = g.table(rng.randint(1, 3), rng.choice([3, 6, 12, 24]))
            if i % 3 == 0:      # port names on both sides of the small-string boundary and well beyond it
                treegen.lengthen(tb, treegen.LONG_PREFIXES[(i // 3) % 3])
            lines.append(dict(k="tree", table=tb, addrs=treegen.addresses(rng, tb)))
        apps, r = ctx.vectors("AppGen", "AppGen_2.cfg", "scripts", timeout=1800)
        ctx.bounds["app_scripts"] = r.distinct
        if not thorough:
            apps = [v for v in apps if len(v) <= 1 or rng.random() < 0.2]
        raw = ctx.path("sim.raw")
        ctx.tlc("AppGen", "AppGen_sim.cfg", env={"OUT": raw}, workers=4, simulate=(1500 if thorough else 150), depth=13, seed=ctx.seed, count=False)
        seen = set()
        for line in open(raw):
            s = json.loads(line)
            if s not in seen:
                seen.add(s)
                apps.append(json.loads(s))
        os.remove(raw)
        for ops in apps:
            ev = []
            for o in ops:
                ev.append(o)
                if o["op"] == "set":
                    ev.append(dict(op="get", addr=o["addr"]))
            lines.append(dict(k="app", ev=ev))
        for addr, ty, v in (("/pi", "f", 4), ("/pf", "i", 3), ("/pt", "i", 1), ("/ps", "i", 1), ("/ai1", "f", 4), ("/psub/si", "i", 3), ("/sub/st", "i", 1), ("/nope", "i", 1)):
            lines.append(dict(k="app", ev=[dict(op="set", addr=addr, ty=ty, v=v), dict(op="get", addr=addr)]))
        ctx.exhaustive = True
    inp = ctx.path("in.ndjson")
    with open(inp, "w") as f:
        for x in lines:
            f.write(json.dumps(x, separators=(",", ":")) + "\n")
    out = ctx.path("log.ndjson")
    ctx.driver("rt_driver", "count", [inp, out], timeout=3000)
    n_out = sum(1 for _ in open(out))
    if n_out != len(lines):
        raise core.Broken("rt_driver wrote %d records for %d inputs (the driver died: realtime code crashed outside its guard?)" % (n_out, len(lines)))
    rej = ctx.validate_execs("RtSafetyTrace", "RtSafetyTrace.cfg", out, timeout=3000, multi=True)
    seen_cls = {}
    calls = 0
    with open(out) as f:
        for i, line in enumerate(f, 1):
            r = json.loads(line)
            for rec in r["rt"]:
                seen_cls[(rec["op"], rec["cls"])] = seen_cls.get((rec["op"], rec["cls"]), 0) + rec["calls"]
                if not rec["op"].startswith("control."):
                    calls += rec["calls"]
                    ctx.nontrivial.add((rec["op"], rec["cls"], i))
            if r["k"] != "control" and r["rt"] and (i % 40000 == 7 or r["k"] in ("msgrand",)) :
                inp_line = lines[i - 1]
                ctx.sample(dict(kind=r["k"], input=json.dumps(inp_line)[:300], realtime_records=r["rt"][:6]))
            if r["k"] == "control":
                # the observers must see what the control does, and the judge must say so
                got = rej.pop(i, None)
                want = {1: "heap_operation_in_realtime_section", 2: "heap_operation_in_realtime_section", 3: "lock_taken_in_realtime_section"}
                ok = got is not None and all(any(want[k] in c for c, l in got if l == k) for k in want) and not any(l == 4 for c, l in got)
                if not ok:
                    raise core.Broken("positive control not judged as expected: %r" % (got,))
                ctx.notes["positive_control"] = "allocation, deallocation and lock inside the section rejected; the quiet step after them accepted"
                continue
            if i in rej:
                inp_line = lines[i - 1]
                for clauses, l in rej[i]:
                    rec = r["rt"][l - 1] if 1 <= l <= len(r["rt"]) else dict(op="?", cls="?", heap=0, lock=0, calls=0)
                    for c in clauses:
                        ctx.reject(dict(clause=c, op=rec["op"], cls=rec["cls"], kind=r["k"]), dict(input=inp_line),
                                   "%s: %s (%s) on a %s input: %d heap operation(s), %d lock operation(s) inside %d call(s)" % (c, rec["op"], rec["cls"], r["k"], rec["heap"], rec["lock"], rec["calls"]))
    ctx.evaluations += calls
    ctx.traces += len(lines)
    ctx.notes["calls_per_operation_class"] = {"%s [%s]" % k: v for k, v in sorted(seen_cls.items())}
    if required is not None:
        missing = sorted(k for k in required if not seen_cls.get(k))
        if missing:
            raise core.Broken("classes required by RtAlphabet.tla were never exercised: %s" % missing)
    os.remove(out)
    os.remove(inp)
