CONSTANTS MaxTokens = 10  SimMode = TRUE  PoolName = "numbers"
INIT Init
NEXT Next
CONSTRAINT Emit
CHECK_DEADLOCK FALSE
