// Memory errors, crashes and hangs become *observations* of the current case.
// Build with the asan variant and run with
//   ASAN_OPTIONS=halt_on_error=0:handle_segv=0:handle_abort=0:detect_leaks=0:allocator_may_return_null=1
#pragma once
#include <csetjmp>
#include <csignal>
#include <cstdio>
#include <cstdlib>
#include <cstring>
#include <string>
#include <unistd.h>

#if defined(__has_feature)
#if __has_feature(address_sanitizer)
#define VG_ASAN 1
#endif
#endif
#if defined(__SANITIZE_ADDRESS__)
#define VG_ASAN 1
#endif

#ifdef VG_ASAN
extern "C" void __asan_set_error_report_callback(void (*)(const char *));
extern "C" void __asan_poison_memory_region(void const volatile *addr, size_t size);
extern "C" void __asan_unpoison_memory_region(void const volatile *addr, size_t size);
#endif

static volatile int vg_asan_hits = 0;
static std::string vg_asan_first;
static sigjmp_buf vg_jmp;
static volatile int vg_armed = 0;

static void vg_on_asan(const char *rep) {
    vg_asan_hits++;
    if (vg_asan_first.empty() && rep) {
        const char *e = strstr(rep, "ERROR: AddressSanitizer: ");
        if (e) { e += 25; const char *nl = strchr(e, '\n'); vg_asan_first.assign(e, nl ? (size_t)(nl - e) : strlen(e)); if (vg_asan_first.size() > 160) vg_asan_first.resize(160); }
    }
}
static void vg_on_sig(int sig) {
    if (vg_armed) { vg_armed = 0; siglongjmp(vg_jmp, sig); }
    _exit(70);
}
static void vg_init() {
#ifdef VG_ASAN
    __asan_set_error_report_callback(vg_on_asan);
#endif
    struct sigaction sa; memset(&sa, 0, sizeof sa); sa.sa_handler = vg_on_sig; sa.sa_flags = SA_NODEFER;
    sigaction(SIGSEGV, &sa, 0); sigaction(SIGBUS, &sa, 0); sigaction(SIGFPE, &sa, 0);
    sigaction(SIGABRT, &sa, 0); sigaction(SIGALRM, &sa, 0); sigaction(SIGILL, &sa, 0); sigaction(SIGPROF, &sa, 0);
}
// usage:  int st = vg_run(secs, [&]{ ...body... });   st: 0 ok, else the signal number (SIGALRM = timeout)
template <class F> static int vg_run(unsigned secs, F body) {
    vg_asan_hits = 0; vg_asan_first.clear();
    int s = sigsetjmp(vg_jmp, 1);
    if (s == 0) { vg_armed = 1; alarm(secs); body(); alarm(0); vg_armed = 0; return 0; }
    alarm(0); return s;
}

// the same with a watchdog in milliseconds (for calls that take microseconds when they terminate: many hanging inputs must not exhaust the driver's own time limit)
#include <sys/time.h>
template <class F> static int vg_run_ms(unsigned ms, F body) {
    // the watchdog counts the CPU time of THIS process (ITIMER_PROF), not wall-clock time: on a loaded machine a call that takes microseconds
    // may be descheduled for longer than the limit, and that must not look like a hang; a call that really hangs burns CPU and is caught
    vg_asan_hits = 0; vg_asan_first.clear();
    struct itimerval on = {{0, 0}, {(time_t)(ms / 1000), (suseconds_t)((ms % 1000) * 1000)}}, off = {{0, 0}, {0, 0}};
    int s = sigsetjmp(vg_jmp, 1);
    if (s == 0) { vg_armed = 1; setitimer(ITIMER_PROF, &on, nullptr); body(); setitimer(ITIMER_PROF, &off, nullptr); vg_armed = 0; return 0; }
    setitimer(ITIMER_PROF, &off, nullptr); return s == SIGPROF ? SIGALRM : s;
}

// Allocate n bytes flush against the end of a heap block so that the first byte
// past the data is poisoned (n = 0 gives a pointer to the end of a block).
struct FlushBuf {
    unsigned char *base; unsigned char *p; size_t n;
    explicit FlushBuf(size_t n_) : n(n_) { base = (unsigned char *)malloc(n_ + 16); p = base + 16;
#ifdef VG_ASAN
        __asan_poison_memory_region(base, 16);
#endif
    }
    ~FlushBuf() {
#ifdef VG_ASAN
        __asan_unpoison_memory_region(base, 16);
#endif
        free(base); }
    FlushBuf(const FlushBuf &) = delete;
};
