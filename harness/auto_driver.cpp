// Conformance driver for C19 (rtosc::AutomationMgr): 4 slots x 2 sub-automations on five parameters.
//   auto_driver replay <steps.ndjson> <out.ndjson>    one JSON array of Automation.tla steps per line
//   auto_driver random <seed> <count> <out.ndjson>    seeded random histories
// After every call: backend messages (path, type, value*128 - exact for the generated numbers -, for the
// log parameter value*1e6) and per slot used / learn rank / cc / nrpn, plus learn_queue_len.
// The manager is constructed in memory pre-filled with zeros so that state it forgets to initialise is
// deterministic (and not accidentally "unset").
#include <rtosc/automations.h>
#include <rtosc/ports.h>
#include <rtosc/port-sugar.h>
#include <random>
#include <cmath>
#include <new>
#include "vjson.hpp"
#include "vguard.hpp"
using namespace rtosc;
struct Obj { int i; int n; float f; float l; bool t; float fx; bool ty; char c; int m; };
#define rObject Obj
static const Ports ports = {
    // look-alikes: ports whose names merely START with the name of a bound parameter, declared before it, with another type / range
    rParamF(fx, rLinear(0, 1), "look-alike of f"),
    rParamI(ty, rLinear(0, 9), "look-alike of t"),
    rParamI(i, rLinear(0, 127), "int"),
    rParamI(n, rLinear(-64, 63), "int"),
    rParamF(f, rLinear(-2.5, 10.25), "float"),
    rParamF(l, rLog(0.01, 100), "log float"),
    rToggle(t, "toggle"),
    rParam(c, "char parameter 0..127 (the plain rParam macro)"),
    rParamI(m, rLog(1, 1000), "integer parameter on a log scale"),
};
#undef rObject
static const int NS = 4, PS = 2;
struct World {
    alignas(16) unsigned char mem[sizeof(AutomationMgr)]; AutomationMgr *m; std::vector<std::string> out;
    World() { static int nworld = 0; memset(mem, (nworld++ % 2) ? 0x55 : 0, sizeof mem); /* alternating fill patterns: what the object forgets to initialise must not matter */ m = new (mem) AutomationMgr(NS, PS, 4); m->set_ports(ports); m->backend = [this](const char *msg) { out.push_back(std::string(msg, rtosc_message_length(msg, 256))); }; }
    ~World() { m->~AutomationMgr(); }
    void observe(JW &w) {
        w.key("out").arr();
        for (auto &s : out) { const char *msg = s.c_str(); unsigned na = rtosc_narguments(msg); char t = na ? rtosc_type(msg, 0) : (rtosc_argument_string(msg)[0]);
            w.obj().kstr("p", msg).kstr("ty", std::string(1, t));
            if (t == 'i' || t == 'c') w.knum("v", (long)rtosc_argument(msg, 0).i * 128).knum("vlog", 0);
            else if (t == 'f') { double d = rtosc_argument(msg, 0).f; w.knum("v", lround(d * 128.0)).knum("vlog", lround(d * 1e6 > 2e9 ? 2e9 : d * 1e6)); }
            else w.knum("v", t == 'T' ? 1 : 0).knum("vlog", 0);
            w.end_obj(); }
        w.end_arr().key("slots").arr();
        for (int s = 0; s < NS; ++s) { auto &sl = m->slots[s]; w.obj().kbool("used", sl.used).knum("rank", sl.learning).knum("cc", sl.midi_cc).knum("nrpn", sl.midi_nrpn).end_obj(); }
        w.end_arr().knum("qlen", m->learn_queue_len).key("subs").arr();
        for (int s = 0; s < NS; ++s) { w.arr(); for (int j = 0; j < PS; ++j) { auto &au = m->slots[s].automations[j];
            w.obj().kbool("used", au.used).knum("gain", lround(m->getSlotSubGain(s, j))).knum("offset", lround(m->getSlotSubOffset(s, j))).kstr("p", std::string(au.param_path, strnlen(au.param_path, sizeof au.param_path))).end_obj(); } w.end_arr(); }
        w.end_arr();
    }
    void step(const J &st, JW &ev) {
        const std::string &op = st["op"].s; out.clear(); ev.obj().kstr("op", op);
        if (op == "create") { m->createBinding((int)st["s"].num() - 1, st["p"].s.c_str(), st["learn"].b); ev.knum("s", st["s"].num()).kstr("p", st["p"].s).kbool("learn", st["learn"].b); }
        else if (op == "clear") { m->clearSlot((int)st["s"].num() - 1); ev.knum("s", st["s"].num()); }
        else if (op == "clearsub") { m->clearSlotSub((int)st["s"].num() - 1, (int)st["j"].num() - 1); ev.knum("s", st["s"].num()).knum("j", st["j"].num()); }
        else if (op == "map") { int s = (int)st["s"].num() - 1, j = (int)st["j"].num() - 1; m->setSlotSubGain(s, j, (float)st["gain"].num()); m->setSlotSubOffset(s, j, (float)st["offset"].num()); m->updateMapping(s, j);
            ev.knum("s", st["s"].num()).knum("j", st["j"].num()).knum("gain", st["gain"].num()).knum("offset", st["offset"].num()); }
        else if (op == "path") { m->setSlotSubPath((int)st["s"].num() - 1, (int)st["j"].num() - 1, st["p"].s.c_str()); ev.knum("s", st["s"].num()).knum("j", st["j"].num()).kstr("p", st["p"].s); }
        else if (op == "set") { m->setSlot((int)st["s"].num() - 1, (float)st["v"].num() / 8.0f); ev.knum("s", st["s"].num()).knum("v", st["v"].num()); }
        else if (op == "cc") { int c = (int)st["c"].num(); m->handleMidi(c / 128, c % 128, (int)st["val"].num()); ev.knum("c", c).knum("val", st["val"].num()); }
        else if (op == "nrpn") { m->handleMidi(0, (int)st["type"].num(), (int)st["val"].num()); ev.knum("type", st["type"].num()).knum("val", st["val"].num()); }
        observe(ev); ev.end_obj();
    }
};
static J mk(const char *op) { J j; j.k = J::OBJ; J o; o.k = J::STR; o.s = op; j.o.emplace_back("op", o); return j; }
static void add(J &j, const char *k, const std::string &s) { J o; o.k = J::STR; o.s = s; j.o.emplace_back(k, o); }
static void addn(J &j, const char *k, long n) { J o; o.k = J::NUM; o.n = n; j.o.emplace_back(k, o); }
static void addb(J &j, const char *k, bool b) { J o; o.k = J::BOOL; o.b = b; j.o.emplace_back(k, o); }
int main(int argc, char **argv) {
    vg_init(); if (argc < 4) return 2; std::string mode = argv[1];
    if (mode == "replay") {
        FILE *f = fopen(argv[2], "r"); FILE *out = fopen(argv[3], "w"); if (!f || !out) return 2; std::string line;
        while (read_line(f, line)) { if (line.empty()) continue; J steps = jparse(line); World wd; JW ev; ev.arr();
            int sig = vg_run(20, [&] { for (auto &st : steps.a) wd.step(st, ev); });
            ev.end_arr(); JW w; w.obj().key("ev").raw(sig ? "[]" : ev.s).knum("sig", sig).knum("asan", vg_asan_hits).kstr("asan_what", vg_asan_first).end_obj(); fprintf(out, "%s\n", w.s.c_str()); }
        fclose(out); return 0;
    }
    if (mode == "random") {
        FILE *out = fopen(argv[4], "w"); if (!out) return 2; std::mt19937_64 rng(strtoull(argv[2], 0, 10) * 131 + 9); long count = atol(argv[3]);
        static const char *P[7] = {"/i", "/n", "/f", "/l", "/t", "/c", "/m"}; static const int G[4] = {100, 50, 200, -100}; static const int O[3] = {0, 25, -25}; static const int C[7] = {1, 2, 3, 130, 7, 127, 0};   // 127 and 0 are also the ids of the NRPNs (0,127) and (0,0)
        for (long i = 0; i < count; ++i) { World wd; JW ev; ev.arr(); int n = 1 + (int)(rng() % 40);
            int sig = vg_run(20, [&] { for (int k = 0; k < n; ++k) { int r = (int)(rng() % 14); J j;
                if (r >= 12) {   // a complete NRPN (parameter (hi, lo), value with equal halves) - where the statement speaks: no slot may be waiting while the
                    // message is being assembled (the code would hand the half-assembled message to the learner); a learn request may arrive before the last part
                    int hi = rng() % 3 ? 0 : 127, lo = rng() % 2 ? 127 : 0, v = rng() % 2 ? 127 : 0; static const int T[3] = {99, 98, 6}; int vals[3] = {hi, lo, v};
                    for (int q = 0; q < 3; ++q) { J n = mk("nrpn"); addn(n, "type", T[q]); addn(n, "val", vals[q]); wd.step(n, ev); }
                    if (rng() % 2) { J c = mk("create"); addn(c, "s", 1 + rng() % NS); add(c, "p", P[rng() % 7]); addb(c, "learn", true); wd.step(c, ev); }
                    J n = mk("nrpn"); addn(n, "type", 38); addn(n, "val", v); wd.step(n, ev); continue; }
                if (r < 3) { j = mk("create"); addn(j, "s", 1 + rng() % NS); add(j, "p", P[rng() % 7]); addb(j, "learn", rng() % 2); }
                else if (r == 3) { j = mk("clear"); addn(j, "s", 1 + rng() % NS); }
                else if (r == 4) { j = mk("clearsub"); addn(j, "s", 1 + rng() % NS); addn(j, "j", 1 + rng() % PS); }
                else if (r == 5) { int s = (int)(rng() % NS), q = (int)(rng() % PS); j = mk("map"); addn(j, "s", s + 1); addn(j, "j", q + 1); addn(j, "gain", G[rng() % 4]); addn(j, "offset", O[rng() % 3]); }
                else if (r == 6 && rng() % 2) { j = mk("path"); addn(j, "s", 1 + rng() % NS); addn(j, "j", 1 + rng() % PS); add(j, "p", P[rng() % 7]); }
                else if (r < 9) { j = mk("set"); addn(j, "s", 1 + rng() % NS); addn(j, "v", (long)(rng() % 11) - 1); }
                else { j = mk("cc"); addn(j, "c", C[rng() % 7]); addn(j, "val", rng() % 2 ? 127 : 0); }
                wd.step(j, ev); } });
            ev.end_arr(); JW w; w.obj().key("ev").raw(sig ? "[]" : ev.s).knum("sig", sig).knum("asan", vg_asan_hits).kstr("asan_what", vg_asan_first).end_obj(); fprintf(out, "%s\n", w.s.c_str()); }
        fclose(out); return 0;
    }
    return 2;
}
