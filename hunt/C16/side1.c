// build: cc -I/tmp/wt/C16_h/include /tmp/wt/C16_h/findings/side1.c /tmp/wt/C16_h/_build/librtosc-cpp.a /tmp/wt/C16_h/_build/librtosc.a -lm -o /tmp/wt/C16_h/findings/side1
//
// SIDE finding (pretty printer, i.e. C11's ground, not C16's statement):
// expanding (compress_ranges = 0) a range that is the FIRST element of an
// array overwrites the array's '[' with the line break when the line becomes
// too long at the first value of the range. The printed text can not be
// scanned any more.
// Responsible: src/cpp/pretty-format.c:283-284 (rtosc_print_range):
// last_sep = buffer-1 is the '[' for a range that opens an array, and
// args_written_this_line starts at 1, so linebreak_check_after_write (179)
// turns the '[' into a newline.
// Repair: int args_written_this_line = (*last_sep == '[') ? 0 : 1;
#include <stdio.h>
#include <string.h>
#include <rtosc/rtosc.h>
#include <rtosc/pretty-format.h>

int main(void)
{
    const char* in = "1 2 3 4 6 7 8 9 10 11 12 13 14 15 16 17 18 19 20 21 22 "
                     "23 24 25 1000000 55 [3x12345]";
    int n = rtosc_count_printed_arg_vals(in);
    rtosc_arg_val_t av[64]; char strbuf[16];
    rtosc_scan_arg_vals(in, av, n, strbuf, sizeof(strbuf));

    char out[512]; memset(out, 0, sizeof(out)); out[0] = ' ';
    rtosc_print_options opt = { false, 3, " ", 80, 0 /* expand ranges */ };
    rtosc_print_arg_vals(av, n, out+1, sizeof(out)-1, &opt, 0);
    int again = rtosc_count_printed_arg_vals(out+1);

    printf("input   : %s\n", in);
    printf("expected: ... 1000000 55 [12345 12345 12345]   (with a line break "
           "somewhere), rescannable\n");
    printf("got     : %s\n", out+1);
    printf("rtosc_count_printed_arg_vals(output) = %d (expected > 0)\n", again);
    int bad = again <= 0 || !strchr(out+1, '[');
    printf("%s\n", bad ? "FAILED: the array's '[' was overwritten" : "all ok");
    return bad;
}
