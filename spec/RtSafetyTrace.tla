---------------------------- MODULE RtSafetyTrace ----------------------------
(* Trace validation for C03.  One log line = one process life: set-up (tables and links  *)
(* are built; its counter deltas are logged), then the realtime section: a sequence of    *)
(* records [op, cls, calls, heap, lock] - the number of heap operations (malloc, calloc,   *)
(* realloc, free of a non-null pointer, posix_memalign, aligned_alloc, and through them     *)
(* operator new/delete) and lock operations (pthread_mutex_lock/trylock, rwlock, spin)      *)
(* observed INSIDE the real library calls of that operation and class.  The monitor of      *)
(* RtSafety.tla takes the observed step; RtQuiet must hold in every state.                  *)
(* Lines of kind "link" also carry the script TLC generated (RtSafetyGen): the classes the   *)
(* driver observed must be the ones the abstract ring predicted, step by step.               *)
EXTENDS RtSafety, Json, IOUtils, TLC
Log == ndJsonDeserialize(IOEnv.TRACE)
VARIABLES x, l
tvars == <<x, l, mvars>>
Rt == Log[x].rt
TInit == x \in 1..Len(Log) /\ l = 0 /\ MInit
TSetup == l = 0 /\ Setup(Log[x].setup.heap, Log[x].setup.lock) /\ l' = 1 /\ UNCHANGED x
TEnter == l = 1 /\ EnterRt /\ l' = 2 /\ UNCHANGED x
TRt == /\ l >= 2 /\ l - 1 <= Len(Rt) /\ RtStep(Rt[l - 1].op, Rt[l - 1].heap, Rt[l - 1].lock) /\ l' = l + 1 /\ UNCHANGED x
TDone == /\ l = Len(Rt) + 2 /\ phase = "rt" /\ LeaveRt /\ PrintT(<<"DONE", x>>) /\ l' = 0 - 1 /\ UNCHANGED x
TNext == TSetup \/ TEnter \/ TRt \/ TDone
TSpec == TInit /\ [][TNext]_tvars
\* the verdicts: printed, never an invariant violation (one bad line must not hide the others)
Known(r) == r.op \in RtOpNames \cup Controls
Fails == IF l >= 3 /\ l - 2 <= Len(Rt) THEN
           LET r == Rt[l - 2] IN
           {k \in {"heap_operation_in_realtime_section", "lock_taken_in_realtime_section", "unknown_operation", "class_differs_from_model", "crash"} :
            \* RtQuiet is preserved by the step just taken (stated per step, so that one bad record does not blame the ones after it)
            ~ CASE k = "heap_operation_in_realtime_section" -> (heapOps = frozenHeap) \/ r.heap = 0
                [] k = "lock_taken_in_realtime_section" -> (lockOps = frozenLock) \/ r.lock = 0
                [] k = "unknown_operation" -> Known(r)
                [] k = "class_differs_from_model" -> Log[x].k # "link" \/ (l - 2 <= Len(Log[x].ops) /\ Log[x].ops[l - 2].op = r.op /\ Log[x].ops[l - 2].cls = r.cls)
                [] k = "crash" -> TRUE }
         ELSE IF l = 0 - 1 THEN {k \in {"crash", "script_not_completed"} :
            ~ CASE k = "crash" -> Log[x].sig = 0
                [] k = "script_not_completed" -> Log[x].k # "link" \/ Len(Rt) = Len(Log[x].ops) }
         ELSE {}
\* RtQuiet, as a verdict that names the offending record
Judge == Fails = {} \/ PrintT(<<"REJECT", x, Fails, IF l >= 3 THEN l - 2 ELSE 0>>)
=============================================================================
