"""C02 - fixed-buffer discipline: never write past the caller's buffer, fail closed.
For every message of the generator (and random ones) and EVERY capacity 0..needed+8 the
three constructors run on a buffer of exactly that capacity (explicit guard bytes + ASan
red zone); same for rtosc_bundle on the C08 bundles.  TLC judges each capacity:
fits => exact size and image, does not fit => 0 and all-zero buffer, guard intact."""
import json, os
from vlib import core
from checks import C01, C08


def judge_msgs(ctx, log_path):
    rej = ctx.validate("OscWireTrace", "OscWireTrace.cfg", log_path)
    recs = ctx.read_ndjson(log_path)
    for r in recs:
        ncap = len(r.get("rets_a", []))
        ctx.evaluations += ncap * (3 if r.get("av_done") else 2)
        ctx.nontrivial.add((bytes(r["addr"]).decode("latin1"), C01.tags_of(r), str([a["v"] for a in r["args"]])))
    for line, clauses in sorted(rej.items()):
        r = recs[line - 1]
        for c in clauses:
            ctx.reject(dict(clause=c, tags=C01.tags_of(r), addr_len=len(r["addr"])), dict(kind="msg", addr=r["addr"], args=r["args"]),
                       "clause %s fails for address %r tags ',%s'" % (c, bytes(r["addr"]).decode("latin1"), C01.tags_of(r)))
    return recs


def run_sink(ctx, replay_seed=None):
    thorough = ctx.tier == "thorough"
    n = 4000 if thorough else 400
    logp = ctx.path("sink.ndjson")
    ctx.driver("wire_driver", "asan", ["sink", "random", replay_seed if replay_seed is not None else ctx.seed, n, logp])
    rej = ctx.validate("OscWireTrace", "OscWireTrace.cfg", logp)
    recs = ctx.read_ndjson(logp)
    for r in recs:
        ctx.evaluations += 1
        if r["need"] > r["cap"] or r["need"] > r["free"]:
            ctx.nontrivial.add(("sink", r["what"], r["tags"], r["cap"], r["need"], r["pre"]))
    for line, clauses in sorted(rej.items()):
        r = recs[line - 1]
        for c in clauses:
            ctx.reject(dict(clause=c, what=r["what"], cap=r["cap"]), dict(kind="sink", seed=replay_seed if replay_seed is not None else ctx.seed),
                       "clause %s fails for %s of a %d-byte message (tags ',%s') into a buffer of %d bytes, %d bytes free, %d message(s) queued before: got %s%s"
                       % (c, r["what"], r["need"], r["tags"], r["cap"], r["free"], r["pre"], r["got"], (" - " + r["asan_what"]) if r.get("asan_what") else ""))
    ctx.notes["sink_records"] = len(recs)
    ctx.sample(dict(what=recs[-1]["what"], tags=recs[-1]["tags"], capacity=recs[-1]["cap"], needed=recs[-1]["need"], outcome=recs[-1]["got"]))
    os.remove(logp)


def run(ctx):
    if ctx.replay:
        case = json.load(open(ctx.replay))["case"]
        if case.get("kind") == "sink":
            run_sink(ctx, case["seed"])
        elif case.get("kind") == "msg":
            p = ctx.write_ndjson("replay_in.ndjson", [dict(addr=case["addr"], args=case["args"])])
            ctx.driver("wire_driver", "asan", ["cap", "in", p, ctx.path("replay_log.ndjson")])
            judge_msgs(ctx, ctx.path("replay_log.ndjson"))
        else:
            C08.run(ctx, as_cap=True)
        return
    thorough = ctx.tier == "thorough"
    cfg = "OscWireGen_quick.cfg" if thorough else "OscWireGen_d2.cfg"
    vec, r = ctx.vectors("OscWireGen", cfg, "vec")
    ctx.bounds["msg_gen_cfg"] = cfg
    inp = ctx.write_ndjson("vec.ndjson", vec)
    ctx.driver("wire_driver", "asan", ["cap", "in", inp, ctx.path("capA.ndjson")])
    nrand = 20000 if thorough else 1500
    ctx.driver("wire_driver", "asan", ["cap", "random", ctx.seed, nrand, ctx.path("capB.ndjson")])
    with open(ctx.path("cap.ndjson"), "w") as f:
        for n in ("capA.ndjson", "capB.ndjson"):
            f.write(open(ctx.path(n)).read())
    recs = judge_msgs(ctx, ctx.path("cap.ndjson"))
    os.remove(ctx.path("cap.ndjson"))
    ctx.notes["msg_engineA_vectors"] = len(vec)
    ctx.notes["msg_engineB_random_records"] = nrand
    ctx.sample(dict(addr=bytes(recs[-1]["addr"]).decode("latin1"), tags=C01.tags_of(recs[-1]), capacities=len(recs[-1].get("rets_a", []))))
    # the library's own fixed buffers: ThreadLink::write / writeArray (MaxMsg) and RtData::reply / broadcast (8192 bytes)
    run_sink(ctx)
    # bundle half: same bundles as C08, judged per capacity
    C08.run(ctx, as_cap=True)
    ctx.rule = ("every message of OscWireGen (%s) and seeded random messages x every capacity 0..needed+8 x the three constructors; every bundle of "
                "OscBundleGen and random bundles x every capacity 0..needed+8; evaluations = constructor calls; non-trivial = distinct message/bundle" % cfg)
    ctx.assumptions += ["guard = 8 explicit bytes behind the buffer followed by the ASan red zone; the block in front of the buffer is poisoned"]
