CONSTANTS Addr = {"a", "b"}  Vals = {0, 1, 2}  Types = {"i"}  Max = 3  Window = 2  MaxClock = 5  Bug = "merge_old"
SPECIFICATION Spec
INVARIANT Book UndoAllRestores RedoAllRestores OutCount
VIEW View
CHECK_DEADLOCK FALSE
