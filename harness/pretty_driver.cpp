// Conformance driver for C10 / C11 (pretty-format printer, syntax checker, scanner).  TZ=UTC.
//   pretty_driver roundtrip <in.ndjson> <out.ndjson>   in: {"list":[value...],"opts":{...},"addr":bytes}
//   pretty_driver sentence  <in.ndjson> <out.ndjson>   in: {"text":bytes,"msg":bool, ...}
//   pretty_driver random <seed> <count> <out.ndjson>   seeded random round-trip inputs
// value: {"t":tag,"v":...}  i c r f: 2 limbs of the 32-bit pattern; h d t: 4 limbs; s S b: bytes; m: 4 bytes;
//        T F N I: []; a: {"t":"a","et":tag,"v":[value...]}
// Logged: printed text, printer return value, checker count, bytes the scanner consumed, the scanned
// values expanded by the real arg-val iterator (bit patterns), and whether print(scan(text)) scans back equal.
#include <rtosc/rtosc.h>
#include <rtosc/pretty-format.h>
#include <rtosc/arg-val-cmp.h>
#include <rtosc/arg-val-itr.h>
#include <rtosc/arg-ext.h>
#include <deque>
#include <random>
#include <functional>
#include <cmath>
#include <ctime>
#include <time.h>
#include "vjson.hpp"
#include "vguard.hpp"

struct Store { std::deque<std::string> strs; std::deque<std::vector<uint8_t>> blobs; };
static rtosc_arg_val_t scalar(const J &x, Store &st) {
    rtosc_arg_val_t a; memset(&a, 0, sizeof a); char t = x["t"].s[0]; a.type = t; const J &v = x["v"];
    switch (t) {
        case 'i': case 'c': case 'r': a.val.i = (int32_t)from_limbs32(v); break;
        case 'f': { uint32_t u = from_limbs32(v); memcpy(&a.val.f, &u, 4); break; }
        case 'h': a.val.h = (int64_t)from_limbs64(v); break;
        case 't': a.val.t = from_limbs64(v); break;
        case 'd': { uint64_t u = from_limbs64(v); memcpy(&a.val.d, &u, 8); break; }
        case 's': case 'S': st.strs.push_back(v.text()); a.val.s = st.strs.back().c_str(); break;
        case 'b': { st.blobs.push_back(v.bytes()); static uint8_t none[1]; a.val.b.len = (int)st.blobs.back().size(); a.val.b.data = st.blobs.back().empty() ? none : st.blobs.back().data(); break; }
        case 'm': for (int k = 0; k < 4; ++k) a.val.m[k] = (uint8_t)v[k].n; break;
        case 'T': a.val.T = 1; break;
        default: break;
    }
    return a;
}
static void put_value(std::vector<rtosc_arg_val_t> &out, const J &x, Store &st) {
    if (x["t"].s == "a") { std::vector<rtosc_arg_val_t> el; for (auto &e : x["v"].a) put_value(el, e, st);
        rtosc_arg_val_t h; memset(&h, 0, sizeof h); h.type = 'a'; rtosc_av_arr_type_set(&h, x["et"].s[0]); rtosc_av_arr_len_set(&h, (int)el.size());
        out.push_back(h); out.insert(out.end(), el.begin(), el.end()); }
    else out.push_back(scalar(x, st));
}
static void log_cells(JW &w, const rtosc_arg_val_t *cells, size_t n);
// exact dyadic form of a finite float/double: value = M * 2^E with M odd (or 0, 0); [0, 0, 1] marks "mantissa wider than 31 bits"
static void log_dyadic(JW &w, double x) {
    if (x == 0.0 || !std::isfinite(x)) { w.arr().num(0).num(0).num(std::isfinite(x) ? 0 : 1).end_arr(); return; }
    int e; double m = std::frexp(x, &e); // x = m * 2^e, 0.5 <= |m| < 1
    int shift = 0; while (m != std::floor(m) && shift < 64) { m *= 2; ++shift; }
    if (std::fabs(m) >= 2147483648.0) { w.arr().num(0).num(0).num(1).end_arr(); return; }
    w.arr().num((long long)m).num(e - shift).num(0).end_arr();
}
static void log_val(JW &w, const rtosc_arg_val_t *v) {
    w.obj().kstr("t", std::string(1, v->type ? v->type : '?'));
    if (v->type == 'f') { w.key("dy"); log_dyadic(w, v->val.f); } else if (v->type == 'd') { w.key("dy"); log_dyadic(w, v->val.d); }
    w.key("v");
    switch (v->type) {
        case 'i': case 'c': case 'r': w.limbs32((uint32_t)v->val.i); break;
        case 'f': { uint32_t u; memcpy(&u, &v->val.f, 4); w.limbs32(u); break; }
        case 'h': w.limbs64((uint64_t)v->val.h); break;
        case 't': w.limbs64(v->val.t); break;
        case 'd': { uint64_t u; memcpy(&u, &v->val.d, 8); w.limbs64(u); break; }
        case 's': case 'S': w.bytes((const uint8_t *)v->val.s, v->val.s ? strlen(v->val.s) : 0); break;
        case 'b': w.bytes(v->val.b.data, v->val.b.len > 0 && v->val.b.len < 100000 ? v->val.b.len : 0); break;
        case 'm': w.bytes(v->val.m, 4); break;
        case 'a': { int len = rtosc_av_arr_len(v); w.raw("0"); w.kstr("et", std::string(1, rtosc_av_arr_type(v) ? rtosc_av_arr_type(v) : '?')).key("el"); log_cells(w, v + 1, len > 0 && len < 10000 ? len : 0); break; }
        default: w.arr().end_arr();
    }
    w.end_obj();
}
// expand cells through the real iterator (ranges are walked as if they were not there); infinite ranges: first 3 values
static void log_cells(JW &w, const rtosc_arg_val_t *cells, size_t n) {
    w.arr();
    if (n) { rtosc_arg_val_itr it; rtosc_arg_val_itr_init(&it, cells); int guard = 0;
        while (it.i < n && guard++ < 400) { rtosc_arg_val_t buf; const rtosc_arg_val_t *v = rtosc_arg_val_itr_get(&it, &buf);
            if (it.av->type == '-' && !rtosc_av_rep_has_delta(it.av) && it.av[1].type == 'a') { // "Nx[...]": the iterator cannot repeat an array; expand it here
                int reps = rtosc_av_rep_num(it.av); int alen = rtosc_av_arr_len(it.av + 1);
                for (int k = 0; k < reps && k < 64; ++k) log_val(w, it.av + 1);
                it.av += 2 + alen; it.i += 2 + alen; it.range_i = 0; continue; }
            if (it.av->type == '-' && rtosc_av_rep_num(it.av) == 0) { // infinite range (only at the end of arrays)
                w.obj().kstr("t", "...").key("v"); w.arr(); for (int k = 0; k < 3; ++k) { rtosc_arg_val_t b2; rtosc_arg_val_itr i2 = it; i2.range_i = k; log_val(w, rtosc_arg_val_itr_get(&i2, &b2)); } w.end_arr().end_obj(); break; }
            log_val(w, v); rtosc_arg_val_itr_next(&it); } }
    w.end_arr();
}

#include <sys/wait.h>
#include <unistd.h>
// Every case runs in a forked child: a scanner that runs wild cannot damage the driver or the next case.
template <class F> static void isolated(FILE *out, const std::string &kind, const std::string &echo_key, const std::string &echo_json, F body) {
    int fd[2]; if (pipe(fd)) { body(out); return; }
    fflush(out); pid_t pid = fork();
    if (pid == 0) { close(fd[0]); FILE *c = fdopen(fd[1], "w"); body(c); fflush(c); _exit(0); }
    close(fd[1]); std::string got; char b[65536]; ssize_t n; while ((n = read(fd[0], b, sizeof b)) > 0) got.append(b, n); close(fd[0]);
    int status = 0; waitpid(pid, &status, 0);
    bool ok = WIFEXITED(status) && WEXITSTATUS(status) == 0 && !got.empty() && got.back() == '\n' && got.find('\n') == got.size() - 1 && got.find('\0') == std::string::npos;
    if (ok) { fputs(got.c_str(), out); return; }
    JW e; e.obj().kstr("k", kind).key(echo_key.c_str()).raw(echo_json).knum("sig", WIFSIGNALED(status) ? WTERMSIG(status) : 99).knum("asan", 0).kstr("asan_what", "child died").end_obj();
    fprintf(out, "%s\n", e.s.c_str());
}
struct Opts { bool lossless = true; int prec = 2; int linelen = 80; int compress = 1; };
static rtosc_print_options popts(const Opts &o) { rtosc_print_options p; p.lossless = o.lossless; p.floating_point_precision = o.prec; p.sep = " "; p.linelength = o.linelen; p.compress_ranges = o.compress; return p; }

// count + scan a text (argument values or a whole message); logs count, consumed, expansion; returns cells
static void scan_text(JW &w, const char *text, size_t tlen, bool msg, std::vector<rtosc_arg_val_t> &cells, std::vector<char> &strbuf, const char *key_prefix) {
    std::string kp = key_prefix;
    size_t lead = 0; (void)tlen;      // the text goes to checker and scanner as it is: blanks and comments in front of the first value are theirs to skip
    int cnt = msg ? rtosc_count_printed_arg_vals_of_msg(text) : rtosc_count_printed_arg_vals(text + lead);
    w.knum((kp + "count").c_str(), cnt).knum((kp + "lead").c_str(), (long long)lead);
    cells.clear();
    if (cnt < 0 && cnt != INT32_MIN) { w.knum((kp + "consumed").c_str(), -1).knum((kp + "extra_cells").c_str(), 0).kbytes((kp + "addr_scanned").c_str(), (const uint8_t *)"", 0).key((kp + "scanned").c_str()).raw("[]"); return; }
    if (cnt == INT32_MIN) cnt = 0;
    const int SLACK = 256;   // a scanner that writes more cells than the checker counted must not corrupt the harness: it is detected in the slack
    cells.resize(cnt + SLACK); memset(cells.data(), 0, sizeof(rtosc_arg_val_t) * (cnt + SLACK)); strbuf.assign(4 * tlen + 256, 0);
    size_t rd; char addr[256] = "";
    if (msg) rd = rtosc_scan_message(text, addr, sizeof addr, cells.data(), cnt, strbuf.data(), strbuf.size());
    else rd = cnt ? rtosc_scan_arg_vals(text + lead, cells.data(), cnt, strbuf.data(), strbuf.size()) : 0;
    int extra = 0; for (int i = cnt; i < cnt + SLACK; ++i) if (cells[i].type) ++extra;
    cells.resize(cnt);
    w.knum((kp + "consumed").c_str(), (long long)(rd + lead)).knum((kp + "extra_cells").c_str(), extra);
    w.kbytes((kp + "addr_scanned").c_str(), (const uint8_t *)addr, strlen(addr));
    w.key((kp + "scanned").c_str()); log_cells(w, cells.data(), cells.size());
}

static void do_roundtrip(const J &in, const std::string &listjson, FILE *out) {
    Store st; std::vector<rtosc_arg_val_t> av; for (auto &x : in["list"].a) put_value(av, x, st);
    Opts o; if (in.has("opts")) { const J &jo = in["opts"]; o.lossless = jo["lossless"].b; o.prec = (int)jo["prec"].num(); o.linelen = (int)jo["linelen"].num(); o.compress = (int)jo["compress"].num(); }
    std::string addr = in.has("addr") ? in["addr"].text() : ""; bool msg = !addr.empty();
    JW w; w.obj().kstr("k", "roundtrip").key("list").raw(listjson).key("opts").obj().kbool("lossless", o.lossless).knum("prec", o.prec).knum("linelen", o.linelen).knum("compress", o.compress).end_obj()
          .kbytes("addr", (const uint8_t *)addr.data(), addr.size());
    int sig = vg_run(10, [&] {
        rtosc_print_options po = popts(o);
        std::vector<char> mem(65536, 0); mem[0] = ' '; char *buf = mem.data() + 1; size_t bs = mem.size() - 2;
        size_t ret = msg ? rtosc_print_message(addr.c_str(), av.data(), av.size(), buf, bs, &po, 0) : rtosc_print_arg_vals(av.data(), av.size(), buf, bs, &po, 0);
        size_t tlen = strnlen(buf, bs);
        w.knum("ret", (long long)ret).kbytes("text", (const uint8_t *)buf, tlen).knum("before", (unsigned char)mem[0]);
        FlushBuf tb(tlen + 1); memcpy(tb.p, buf, tlen + 1);
        std::vector<rtosc_arg_val_t> cells; std::vector<char> sb;
        scan_text(w, (const char *)tb.p, tlen, msg, cells, sb, "");
        // print the scanned values again and scan once more: equal values?
        std::vector<char> mem2(65536, 0); mem2[0] = ' '; char *buf2 = mem2.data() + 1;
        if (!cells.empty()) { rtosc_print_arg_vals(cells.data(), cells.size(), buf2, bs, &po, 0); size_t l2 = strnlen(buf2, bs); size_t lead2 = 0; while (lead2 < l2 && isspace((unsigned char)buf2[lead2])) ++lead2;
            int c2 = rtosc_count_printed_arg_vals(buf2 + lead2); std::vector<rtosc_arg_val_t> cells2(c2 > 0 ? c2 : 0); std::vector<char> sb2(l2 + 64);
            if (c2 > 0) rtosc_scan_arg_vals(buf2 + lead2, cells2.data(), c2, sb2.data(), sb2.size());
            w.kbool("again_equal", c2 > 0 && rtosc_arg_vals_eq(cells.data(), cells2.data(), cells.size(), cells2.size(), NULL)); }
        else w.kbool("again_equal", true);
    });
    if (sig) { JW e; e.obj().kstr("k", "roundtrip").key("list").raw(listjson).knum("sig", sig).knum("asan", vg_asan_hits).kstr("asan_what", vg_asan_first).end_obj(); fprintf(out, "%s\n", e.s.c_str()); return; }
    w.knum("sig", 0).knum("asan", vg_asan_hits).kstr("asan_what", vg_asan_first).end_obj(); fprintf(out, "%s\n", w.s.c_str()); fflush(out);
}
static void do_sentence(const J &in, const std::string &line, FILE *out) {
    std::string text = in["text"].text(); bool msg = in.has("msg") && in["msg"].b;
    JW w; w.obj().kstr("k", "sentence").key("in").raw(line);
    int sig = vg_run(10, [&] {
        FlushBuf tb(text.size() + 1); memcpy(tb.p, text.c_str(), text.size() + 1);
        std::vector<rtosc_arg_val_t> cells; std::vector<char> sb;
        scan_text(w, (const char *)tb.p, text.size(), msg, cells, sb, "");
        Opts o; rtosc_print_options po = popts(o); std::vector<char> mem2(65536, 0); mem2[0] = ' '; char *buf2 = mem2.data() + 1; size_t bs = mem2.size() - 2;
        if (!cells.empty()) { rtosc_print_arg_vals(cells.data(), cells.size(), buf2, bs, &po, 0); size_t l2 = strnlen(buf2, bs); size_t lead2 = 0; while (lead2 < l2 && isspace((unsigned char)buf2[lead2])) ++lead2;
            int c2 = rtosc_count_printed_arg_vals(buf2 + lead2); std::vector<rtosc_arg_val_t> cells2(c2 > 0 ? c2 : 0); std::vector<char> sb2(l2 + 64);
            if (c2 > 0) rtosc_scan_arg_vals(buf2 + lead2, cells2.data(), c2, sb2.data(), sb2.size());
            w.kbool("again_equal", c2 > 0 && rtosc_arg_vals_eq(cells.data(), cells2.data(), cells.size(), cells2.size(), NULL)); }
        else w.kbool("again_equal", true);
    });
    if (sig) { JW e; e.obj().kstr("k", "sentence").key("in").raw(line).knum("sig", sig).knum("asan", vg_asan_hits).kstr("asan_what", vg_asan_first).end_obj(); fprintf(out, "%s\n", e.s.c_str()); return; }
    w.knum("sig", 0).knum("asan", vg_asan_hits).kstr("asan_what", vg_asan_first).end_obj(); fprintf(out, "%s\n", w.s.c_str()); fflush(out);
}

// ---- random lists for the round trip (engine B input source)
struct RGen { std::mt19937_64 rng; uint64_t R(uint64_t n) { return rng() % n; }
    void val(JW &w, char t) { w.obj().kstr("t", std::string(1, t)).key("v");
        switch (t) {
            case 'i': { static const uint32_t b[] = {0, 1, 0xffffffffu, 0x7fffffffu, 0x80000000u, 0xfffffff5u, 0xffffffedu, 100, 2017}; w.limbs32(R(3) ? (uint32_t)rng() : b[R(9)]); break; }
            case 'c': { uint32_t c = R(4) == 0 ? (uint32_t)"\n\t\\'\"%\a\b"[R(9)] : 32 + (uint32_t)R(95); /* [8] is the terminating NUL: the char 0 */ w.limbs32(c); break; }
            case 'r': w.limbs32((uint32_t)rng()); break;
            case 'f': { uint32_t u; do { u = (uint32_t)rng(); } while ((u & 0x7f800000u) == 0x7f800000u); if (R(4) == 0) { static const float s[] = {0.f, 1.f, -1.5f, 0.1f, 3.4028235e38f, 1.4e-45f, 1e10f, -0.f}; float f = s[R(8)]; memcpy(&u, &f, 4); } w.limbs32(u); break; }
            case 'd': { uint64_t u; do { u = rng(); } while ((u & 0x7ff0000000000000ull) == 0x7ff0000000000000ull); if (R(4) == 0) { static const double s[] = {0., 1., -1.5, 0.1, 1.7976931348623157e308, 4.9e-324, 1e10, 0.81}; double d = s[R(8)]; memcpy(&u, &d, 8); } w.limbs64(u); break; }
            case 'h': { static const uint64_t b[] = {0, 1, ~0ull, 0x7fffffffffffffffull, 0x8000000000000000ull, 0xfffffffffull}; w.limbs64(R(3) ? rng() : b[R(6)]); break; }
            case 't': { uint64_t secs = 946684800ull + 2208988800ull + R(900000000);
                          // a third of the tags sit on the boundaries of the printed form: midnight, the first minute of a day, full minutes, full hours, the last second
                          if (R(3) == 0) { uint64_t day = secs - secs % 86400; static const unsigned tod[] = {0, 1, 7, 59, 60, 61, 3599, 3600, 3601, 43200, 86340, 86399}; secs = day + (R(4) ? tod[R(12)] : 60 * R(1440)); } // fractions: any value with at most 24 significant bits is float-representable - high ones (m << 12), low ones (a few units of 2^-32), and everything between
                          uint64_t fr = 0; switch (R(6)) { case 0: case 1: fr = 0; break; case 2: fr = (uint64_t)R(1 << 20) << 12; break; case 3: fr = 1 + R(255); break;
                                                           case 4: fr = R(1 << 24); break; default: fr = ((uint64_t)R(1 << 24) << R(9)) & 0xffffffffu; if (fr >> 24 && (fr & ((1u << 8) - 1))) fr &= ~0xffull; }
                          uint64_t t = R(4) == 0 ? 1 : (secs << 32) | fr; w.limbs64(t); break; }
            case 's': case 'S': { w.arr(); unsigned n = (unsigned)(R(6) == 0 ? 30 + R(60) : R(8)); for (unsigned i = 0; i < n; ++i) { unsigned c = R(8) == 0 ? (unsigned)"\n\t\\'\"%\a\b\v\f\r"[R(11)] : 32 + (unsigned)R(95); w.num(c); } w.end_arr(); break; }
            case 'b': { w.arr(); unsigned n = (unsigned)(R(6) == 0 ? 20 + R(30) : R(6)); for (unsigned i = 0; i < n; ++i) w.num(R(256)); w.end_arr(); break; }
            case 'm': w.arr().num(R(256)).num(R(256)).num(R(256)).num(R(256)).end_arr(); break;
            default: w.arr().end_arr();
        }
        w.end_obj(); }
    std::string list() { static const char types[] = "ihcfdsSbmrTFNIt"; JW w; w.arr(); unsigned n = (unsigned)R(13);
        while (n > 0) { unsigned k = (unsigned)R(12);
            if (k == 0 && n >= 3) { // constant or arithmetic run around the compression threshold
                unsigned L = 3 + (unsigned)R(6); bool wide = R(3) == 0; char t = wide ? "ihfdc"[R(5)] : "ihf"[R(3)]; long long start = (long long)R(40) - 20, delta = R(2) ? 0 : (long long)R(7) - 3;
                if (wide) { // strides and starting points over the whole width of the type (no overflow along the run)
                    static const long long hd[] = {1ll << 31, (1ll << 32) + 3, -((1ll << 32) + 1), 1ll << 33, 1ll << 59, -(1ll << 31), 0x7fffffffll, 0x100000000ll};
                    static const long long id[] = {65536, 1 << 24, -(1 << 27), 100000, -1, 1 << 20};
                    if (t == 'h') { start = (long long)(R(1ull << 61)) - (1ll << 60); delta = R(3) ? hd[R(8)] : (long long)R(1ull << 40) - (1ll << 39);
                                    if (R(4) == 0) { start = -8000000000000000000ll; delta = 4000000000000000000ll; L = 5; } }          // every value fits, "last - first" does not
                    else if (t == 'i') { start = (long long)R(1u << 30) - (1 << 29); delta = id[R(6)];
                                         if (R(4) == 0) { start = -2000000000ll; delta = 1000000000ll; L = 5; }                         // every value fits, "last - first" does not
                                         else if (R(4) == 0) { start = 2147483645ll; delta = 1; L = 5; } }                                 // ... 2147483647 -2147483648 ...: a run only modulo 2^32
                    else if (t == 'c') { start = 40 + (long long)R(40); delta = (long long)R(4); }
                    else { start = (long long)R(1 << 20) - (1 << 19); delta = (long long)R(1 << 16) - (1 << 15); } }
                for (unsigned i = 0; i < L; ++i) { long long v = start + (long long)i * delta; w.obj().kstr("t", std::string(1, t)).key("v");
                    if (t == 'i' || t == 'c') w.limbs32((uint32_t)(int32_t)v); else if (t == 'h') w.limbs64((uint64_t)(int64_t)v);
                    else if (t == 'd') { double d = (double)v * 0.25; uint64_t u; memcpy(&u, &d, 8); w.limbs64(u); }
                    else { float f = (float)v * 0.25f; uint32_t u; memcpy(&u, &f, 4); w.limbs32(u); } w.end_obj(); }
                n = n > L ? n - L : 0; continue; }
            if (k == 1) { char et = "ifsTch"[R(6)]; unsigned L = (unsigned)R(9); w.obj().kstr("t", "a").kstr("et", std::string(1, et == 'T' && L == 0 ? 'T' : et)).key("v").arr();
                for (unsigned i = 0; i < L; ++i) val(w, et == 'T' ? (R(2) ? 'T' : 'F') : et); w.end_arr().end_obj(); --n; continue; }
            val(w, types[R(15)]); --n; }
        w.end_arr(); return w.s; }
};
// cases run in forked children, 64 per child; if a child dies or garbles its output the batch is re-run one case per child
struct Case { J j; std::string echo; std::string kind; };
static void run_case(const Case &c, FILE *o) { if (c.kind == "roundtrip") do_roundtrip(c.j, c.echo, o); else do_sentence(c.j, c.echo, o); }
static bool run_batch(const std::vector<Case> &cs, size_t a, size_t b, std::string &got) {
    int fd[2]; if (pipe(fd)) return false;
    pid_t pid = fork();
    if (pid == 0) { close(fd[0]); FILE *c = fdopen(fd[1], "w"); for (size_t i = a; i < b; ++i) run_case(cs[i], c); fflush(c); _exit(0); }
    close(fd[1]); got.clear(); char buf[65536]; ssize_t n; while ((n = read(fd[0], buf, sizeof buf)) > 0) got.append(buf, n); close(fd[0]);
    int status = 0; waitpid(pid, &status, 0);
    size_t lines = 0; for (char ch : got) if (ch == '\n') ++lines;
    return WIFEXITED(status) && WEXITSTATUS(status) == 0 && lines == b - a && got.find('\0') == std::string::npos && (got.empty() || got.back() == '\n');
}
static void run_all(const std::vector<Case> &cs, FILE *out) {
    for (size_t a = 0; a < cs.size(); a += 64) { size_t b = std::min(cs.size(), a + 64); std::string got;
        if (run_batch(cs, a, b, got)) { fputs(got.c_str(), out); continue; }
        for (size_t i = a; i < b; ++i) { if (run_batch(cs, i, i + 1, got)) { fputs(got.c_str(), out); continue; }
            JW e; e.obj().kstr("k", cs[i].kind).key(cs[i].kind == "roundtrip" ? "list" : "in").raw(cs[i].echo).knum("sig", 99).knum("asan", 0).kstr("asan_what", "child died").end_obj(); fprintf(out, "%s\n", e.s.c_str()); } }
}
int main(int argc, char **argv) {
    setenv("TZ", "UTC", 1); tzset(); vg_init(); if (argc < 4) return 2; std::string mode = argv[1]; std::vector<Case> cs; FILE *out;
    if (mode == "random") { out = fopen(argv[4], "w"); if (!out) return 2; RGen g; g.rng.seed(strtoull(argv[2], 0, 10) * 9176 + 3); long count = atol(argv[3]);
        for (long i = 0; i < count; ++i) { std::string lj = g.list(); JW in; in.obj().key("list").raw(lj).key("opts").obj().kbool("lossless", true).knum("prec", (long)g.R(10)).knum("linelen", 10 + (long)g.R(111)).knum("compress", (long)g.R(2)).end_obj();
            std::string addr; if (g.R(4) == 0) { addr = "/"; unsigned n = 1 + (unsigned)g.R(8); for (unsigned k = 0; k < n; ++k) addr += "abcxyz/_0"[g.R(9)]; } in.kbytes("addr", (const uint8_t *)addr.data(), addr.size()).end_obj();
            cs.push_back({jparse(in.s), lj, "roundtrip"}); } }
    else { FILE *f = fopen(argv[2], "r"); out = fopen(argv[3], "w"); if (!f || !out) return 2; std::string line;
        while (read_line(f, line)) { if (line.empty()) continue; J j = jparse(line);
            if (mode == "roundtrip") { JW l; l.arr(); std::function<void(const J &)> emit = [&](const J &x) { l.obj().kstr("t", x["t"].s); if (x["t"].s == "a") { l.kstr("et", x["et"].s).key("v").arr(); for (auto &e : x["v"].a) emit(e); l.end_arr(); } else { l.key("v").arr(); for (auto &e : x["v"].a) l.num(e.n); l.end_arr(); } l.end_obj(); };
                for (auto &x : j["list"].a) emit(x); l.end_arr(); cs.push_back({j, l.s, "roundtrip"}); }
            else cs.push_back({j, line, "sentence"}); } }
    run_all(cs, out); fclose(out); return 0;
}
