// build: g++ -std=c++11 -I/tmp/wt/C15_h/include finding2.cpp /tmp/wt/C15_h/_build/librtosc-cpp.a /tmp/wt/C15_h/_build/librtosc.a -o finding2 && ./finding2
//
// C15: "recording after an undo discards the undone tail" - the tail is dropped from the deque,
// but the message copies it owned (new char[] in recordEvent) are never released: every
// undo-then-edit leaks the undone events, also beyond the life of the UndoHistory object.
// (This program counts operator new[] / delete[]; -fsanitize=address reports the same as a leak.)
#include <rtosc/rtosc.h>
#include <rtosc/undo-history.h>
#include <cstdio>
#include <cstdlib>
#include <new>
static long live_arrays = 0, live_bytes = 0;
void *operator new[](std::size_t n)
{
    size_t *p = (size_t*)malloc(n + 16);
    if(!p) throw std::bad_alloc();
    p[0] = n; live_arrays++; live_bytes += n;
    return (char*)p + 16;
}
void operator delete[](void *q) noexcept
{
    if(!q) return;
    size_t *p = (size_t*)((char*)q - 16);
    live_arrays--; live_bytes -= p[0];
    free(p);
}
void operator delete[](void *q, std::size_t) noexcept { operator delete[](q); }

int main()
{
    const int rounds = 1000;
    long inside = 0;
    {
        rtosc::UndoHistory h;
        h.setCallback([](const char*){});
        char buf[128];
        for(int i = 0; i < rounds; ++i) {
            // the user changes /a, /b, /c, undoes all three, then changes /d instead
            rtosc_message(buf, sizeof buf, "/undo_change", "sii", "/a", i, i+1); h.recordEvent(buf);
            rtosc_message(buf, sizeof buf, "/undo_change", "sff", "/b", 0.5f, 1.5f); h.recordEvent(buf);
            rtosc_message(buf, sizeof buf, "/undo_change", "scc", "/c", 1, 2); h.recordEvent(buf);
            h.seekHistory(-3);
            rtosc_message(buf, sizeof buf, "/undo_change", "sii", "/d", i, i+1); h.recordEvent(buf);
            h.seekHistory(-1); // (so that the next round starts from an empty retained history)
        }
        inside = live_arrays;
        printf("history holds %zu event(s); message copies alive: %ld (expected at most %zu)\n",
               h.size(), live_arrays, h.size());
    }
    printf("after destroying the history: %ld message copies (%ld bytes) still allocated, expected 0\n",
           live_arrays, live_bytes);
    bool bad = live_arrays != 0 || inside > 20;
    puts(bad ? "FAIL" : "ok");
    return bad;
}
