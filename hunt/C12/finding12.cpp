// build: g++ -std=c++11 -I/tmp/wt/C12_h/include finding12.cpp /tmp/wt/C12_h/_build/librtosc-cpp.a /tmp/wt/C12_h/_build/librtosc.a -o finding12
//
// The callbacks of the '#N' array macros (rArrayI/F/T/Option, rRecurs, ...)
// take the element index from the FIRST digit they find in the rest of the
// path (rBOILS_BEGIN: "while(*mm && !isdigit(*mm)) ++mm; idx = atoi(mm)").
// If the name of the array itself contains a digit ("osc2#4"), element 1 is
// addressed as "osc21" and the callback uses index 21: reading the runtime
// values for the savefile reads behind the array, loading writes behind it.
#include <rtosc/rtosc.h>
#include <rtosc/ports.h>
#include <rtosc/savefile.h>
#include <rtosc/port-sugar.h>
#include <cstdio>
#include <string>
#include <set>
using namespace rtosc;

struct App {
    static const Ports& ports;
    int guard_before[32];
    int osc2[4];
    int guard_after[64];
    App() { for(int& v : guard_before) v = 1000; for(int& v : osc2) v = 0; for(int i = 0; i < 64; ++i) guard_after[i] = 1000 + i; }
};
#define rObject App
static const Ports app_ports = { rArrayI(osc2, 4, rDefault([4x0]), "levels of oscillator group 2") };
#undef rObject
const Ports& App::ports = app_ports;

int main()
{
    App a; // untouched: osc2 = 0 0 0 0
    std::set<std::string> written;
    std::string f = save_to_file(app_ports, &a, "app", rtosc_version{1,0,0}, written, {});
    printf("expected: untouched application, two header lines only\nhappened:\n%s\n", f.c_str());
    App b;
    int r = load_from_file("% RT OSC v0.3.1 savefile\n% app v1.0.0\n/osc2 [1 2 3 4]\n", app_ports, &b, "app", rtosc_version{1,0,0});
    printf("loading \"/osc2 [1 2 3 4]\": expected osc2 = 1 2 3 4 and untouched neighbours\n");
    printf("happened: load returns %d, osc2 = %d %d %d %d, guard_after[16..19] = %d %d %d %d (were 1016 1017 1018 1019)\n",
           r, b.osc2[0], b.osc2[1], b.osc2[2], b.osc2[3], b.guard_after[16], b.guard_after[17], b.guard_after[18], b.guard_after[19]);
    return (f.find('/') == std::string::npos && b.osc2[3] == 4) ? 0 : 1;
}
