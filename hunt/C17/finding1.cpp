// build: c++ -std=c++11 -I/tmp/wt/C17_h/include finding1.cpp /tmp/wt/C17_h/_build/librtosc-cpp.a /tmp/wt/C17_h/_build/librtosc.a -o finding1
//
// C17 - a metadata key whose first character is ':' is not read back as written.
// (BORDERLINE: only counts if a key may begin with ':' - the property's alphabet
//  for keys contains ':' and doc/Guide.adoc says  entry := ':' text '\0' ...,
//  text := [^\0]; keys that contain ':' anywhere else work.)
#include <rtosc/ports.h>
#include <rtosc/port-sugar.h>
#include <cstdio>
#include <cstring>
#include <string>
#include <vector>
using namespace rtosc;

struct E { const char *k; const char *v; };
static int bad = 0;

static void run(const char *what, const char *md, size_t size, std::vector<E> want)
{
    Port p{"x", md, 0, nullptr};
    const Port::MetaContainer m = p.meta();
    printf("%s\n  expected:", what);
    for(auto &e : want) printf(" [%s%s%s]", e.k, e.v ? "=" : "", e.v ? e.v : "");
    printf("\n  got:     ");
    size_t i = 0; bool ok = true; int guard = 0;
    for(auto it = m.begin(); it != m.end() && guard < 32; ++it, ++i, ++guard) {
        printf(" [%s%s%s]", it.title, it.value ? "=" : "", it.value ? it.value : "");
        if(i >= want.size() || strcmp(want[i].k, it.title) ||
           (want[i].v == NULL) != (it.value == NULL) ||
           (want[i].v && strcmp(want[i].v, it.value)))
            ok = false;
    }
    if(i != want.size()) ok = false;
    printf("\n");
    for(auto &e : want) {
        bool found = m.find(e.k) != m.end();
        if(!found) { printf("  find(\"%s\"): expected present, got absent\n", e.k); ok = false; }
        // value of the FIRST entry with that key
        const E *first = NULL;
        for(auto &f : want) if(!strcmp(f.k, e.k)) { first = &f; break; }
        const char *v = m[e.k];
        if((v == NULL) != (first->v == NULL) || (v && strcmp(v, first->v))) {
            printf("  meta[\"%s\"]: expected %s, got %s\n", e.k,
                   first->v ? first->v : "(nothing)", v ? v : "(nothing)");
            ok = false;
        }
    }
    // a key that was never written must not be reported
    for(const char *k : {"b", ""}) {
        bool written = false;
        for(auto &e : want) if(!strcmp(e.k, k)) written = true;
        if(!written && m.find(k) != m.end()) {
            printf("  find(\"%s\"): expected absent, got present\n", k); ok = false;
        }
    }
    if(m.length() != size) { printf("  length: expected %zu, got %zu\n", size, m.length()); ok = false; }
    printf("  -> %s\n\n", ok ? "ok" : "VIOLATION");
    if(!ok) bad++;
}
#define RUN(what, lit, ...) { static const char md[] = lit; run(what, md, sizeof(md), __VA_ARGS__); }

int main()
{
    // control: ':' and '=' inside keys and values (not in front of a key) are fine
    RUN("control  rProp(a:b) rMap(c=d, :x=:y) rProp(e)",
        rProp(a:b) rMap(c=d, :x=:y) rProp(e),
        {{"a:b", NULL}, {"c=d", ":x=:y"}, {"e", NULL}})

    // 1. a later entry whose key starts with ':' is reported twice (":b" and "b")
    RUN("case 1   rProp(a) rMap(:b, v) rProp(c)",
        rProp(a) rMap(:b, v) rProp(c),
        {{"a", NULL}, {":b", "v"}, {"c", NULL}})

    // 2. the first entry loses the ':' of its key (meta() and begin() both strip one)
    RUN("case 2   rMap(:b, v) rProp(c)",
        rMap(:b, v) rProp(c),
        {{":b", "v"}, {"c", NULL}})

    // 3. the key ":" ends the iteration: every later entry is lost
    RUN("case 3   rProp(a) rProp(:) rMap(c, 1)",
        rProp(a) rProp(:) rMap(c, 1),
        {{"a", NULL}, {":", NULL}, {"c", "1"}})

    printf("%d of 3 cases violate the property\n", bad);
    return bad ? 1 : 0;
}
