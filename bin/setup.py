#!/usr/bin/env python3
"""MANIFEST.setup_cmd: builds the library variants from /repo's working tree and
checks that the TLA+ modules parse.  Offline, from files on disk only."""
import os, sys, glob
sys.path.insert(0, os.path.dirname(os.path.dirname(os.path.abspath(__file__))))
from vlib import build, tlc
for v in ("plain", "asan", "hooks"):
    print(v, build.lib(v)[1])
bad = 0
for f in sorted(glob.glob(os.path.join(tlc.SPEC, "*.tla"))):
    ok, out = tlc.sany(os.path.basename(f)[:-4])
    if not ok:
        bad += 1
        print("SANY FAILED", f, out[-800:])
print("setup done, %d module(s) failed to parse" % bad)
sys.exit(1 if bad else 0)
