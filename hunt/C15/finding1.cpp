// build: g++ -std=c++11 -I/tmp/wt/C15_h/include finding1.cpp /tmp/wt/C15_h/_build/librtosc-cpp.a /tmp/wt/C15_h/_build/librtosc.a -o finding1 && ./finding1
//
// C15, end to end: an integer array port (rArrayI over `int` elements, as in the library's own
// test/default-value.cpp and test/port-checker-testapp.cpp) reports the element's previous value
// through a `char` in its /undo_change event, so undoing does not return the element to the value
// it had before the change; if the previous value is congruent to the new one modulo 256 no event
// is emitted at all although the element changes.
#include <rtosc/ports.h>
#include <rtosc/port-sugar.h>
#include <rtosc/undo-history.h>
#include <cstdarg>
#include <cstdio>
#include <cstring>
using namespace rtosc;

struct Object { int freq[4]; int plain; };
#define rObject Object
static const Ports ports = {
    rArrayI(freq, 4, "an int array"),
    rParamI(plain, "an int (for comparison)"),
};
#undef rObject

static char reply_buf[256];
struct Rt : public RtData {
    Rt(Object *o, UndoHistory *u) : uh(u), enable(true)
    { loc = locbuf; memset(locbuf, 0, sizeof locbuf); loc_size = sizeof locbuf; obj = o; }
    void reply(const char *path, const char *args, ...) override
    {
        if(strcmp(path, "/undo_change") || !enable) return;
        va_list va; va_start(va, args);
        rtosc_vmessage(reply_buf, sizeof reply_buf, path, args, va);
        va_end(va);
        uh->recordEvent(reply_buf);
    }
    void broadcast(const char *, const char *, ...) override {}
    char locbuf[128]; UndoHistory *uh; bool enable;
};

int main()
{
    int bad = 0;
    char msg[128];
    Object o; o.freq[0] = 440; o.freq[1] = 256; o.freq[2] = o.freq[3] = 0; o.plain = 440;
    UndoHistory h; Rt rt(&o, &h);
    h.setCallback([&rt](const char *m){ ports.dispatch(m, rt, true); });

    // control: the same on a plain int port
    rtosc_message(msg, sizeof msg, "/plain", "i", 100); ports.dispatch(msg, rt, true);
    // case A: 440 -> 100
    rtosc_message(msg, sizeof msg, "/freq0", "i", 100); ports.dispatch(msg, rt, true);
    printf("after set: plain=%d freq0=%d, %zu events recorded\n", o.plain, o.freq[0], h.size());
    for(size_t i = 0; i < h.size(); ++i)
        printf("  event %zu: %s old=%d new=%d\n", i, rtosc_argument(h.getHistory(i),0).s,
               rtosc_argument(h.getHistory(i),1).i, rtosc_argument(h.getHistory(i),2).i);
    rt.enable = false;
    h.seekHistory(-2);
    rt.enable = true;
    printf("after undoing everything: plain=%d (expected 440)  freq0=%d (expected 440)\n", o.plain, o.freq[0]);
    if(o.plain != 440) bad |= 1;
    if(o.freq[0] != 440) bad |= 2;

    // case B: 256 -> 0 : the element changes, but no event is emitted
    size_t before = h.getPos();
    rtosc_message(msg, sizeof msg, "/freq1", "i", 0); ports.dispatch(msg, rt, true);
    printf("freq1: 256 -> %d, events recorded for it: %zu (expected 1)\n", o.freq[1], (size_t)h.getPos() - before);
    rt.enable = false;
    h.seekHistory(-1);
    printf("after undo: freq1=%d (expected 256)\n", o.freq[1]);
    if(o.freq[1] != 256) bad |= 4;

    printf(bad ? "FAIL (%d)\n" : "ok\n", bad);
    return bad ? 1 : 0;
}
