CONSTANTS MaxLen = 3
INIT Init
NEXT Next
INVARIANT Law
CONSTRAINT Emit
CHECK_DEADLOCK FALSE
