// build: g++ -std=c++11 -I/tmp/wt/C12_h/include finding3.cpp /tmp/wt/C12_h/_build/librtosc-cpp.a /tmp/wt/C12_h/_build/librtosc.a -o finding3
//
// load_from_file() never returns for a file that contains the path of a
// parameter port without a value ("/pi"): the dispatch loop of
// dispatch_printed_messages() only ends when its iterator has passed
// max(nargs,1) values, and with no values the iterator never moves.
#include <rtosc/rtosc.h>
#include <rtosc/ports.h>
#include <rtosc/savefile.h>
#include <rtosc/port-sugar.h>
#include <cstdio>
#include <csignal>
#include <unistd.h>
using namespace rtosc;

struct App { static const Ports& ports; int pi = 0; };
#define rObject App
static const Ports app_ports = { rParamI(pi, rDefault(0), "an int parameter") };
#undef rObject
const Ports& App::ports = app_ports;

static void on_alarm(int)
{
    const char msg[] = "happened: load_from_file() did not return within 5 seconds (endless loop)\n";
    if(write(1, msg, sizeof(msg)-1)) {}
    _exit(1);
}

int main()
{
    const char* file = "% RT OSC v0.3.1 savefile\n"
                       "% app v1.0.0\n"
                       "/pi\n";
    printf("file:\n%sexpected: load_from_file() returns (a negative result, or 1 for the one message)\n", file);
    fflush(stdout);
    signal(SIGALRM, on_alarm);
    alarm(5);
    App b;
    int r = load_from_file(file, app_ports, &b, "app", rtosc_version{1,0,0});
    alarm(0);
    printf("happened: load_from_file() returned %d\n", r);
    return 0;
}
