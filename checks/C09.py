"""C09 - walking a port tree enumerates exactly its dispatchable addresses.
PortTree!WalkT defines the walk (every leaf under every expansion of #N, pruned by null
pointers and 'enabled by' toggles when a runtime object is supplied); PortTreeGen checks on
every generated table that the walk has no duplicates and that each walked address
dispatches to its port; the real walk_ports runs on the generated tables and on seeded random
ones (multi-component sub-tree names, runtime states) with three name-buffer prefixes, every
reported address is dispatched and looked up, and PortTreeTrace judges the lot."""
import json, os, random, itertools
from vlib import core
from checks import treegen
from checks.C04 import tname


def run_walk(ctx, inputs, tag):
    inp = ctx.path("win_%s.ndjson" % tag)
    with open(inp, "w") as f:
        for x in inputs:
            d = dict(table=x["table"], rt=x.get("rt", False), multi=x.get("multi", False), state={str(k): v for k, v in x.get("state", {}).items()})
            f.write(json.dumps(d, separators=(",", ":")) + "\n")
    out = ctx.path("walk_%s.ndjson" % tag)
    ctx.driver("tree_driver", "asan", ["walk", inp, out])
    rej = ctx.validate("PortTreeTrace", "PortTreeTrace.cfg", out, timeout=3000)
    recs = ctx.read_ndjson(out)
    for i, r in enumerate(recs, 1):
        n = sum(len(run["walked"]) for run in r["runs"])
        ctx.evaluations += 3 + n
        if n >= 6:
            ctx.nontrivial.add(tname(r["table"]) + str(r["state"]))
        for c in rej.get(i, []):
            ctx.reject(dict(clause=c, table=tname(r["table"]), rt=r["rt"]), dict(table=r["table"], rt=r["rt"], state=dict((str(a), b) for a, b in r["state"])),
                       "clause %s fails for walking table %s (runtime %s, toggles %s) %s" % (c, tname(r["table"]), r["rt"], r["state"], r.get("asan_what", "")))
    if recs:
        r = recs[len(recs) // 2]
        ctx.sample(dict(table=tname(r["table"]), runtime=r["rt"], toggles=r["state"],
                        walked=[bytes(w["addr"]).decode("latin1") for w in r["runs"][0]["walked"][:10]]))
    os.remove(out)
    return len(recs)


def run(ctx):
    ctx.rule = ("every table of PortTreeGen (flat4, struct2/3) and seeded random tables (depth 1..4, #N at any level, multi-component sub-tree names like "
                "a#2/x#2/z/, ':types'; with a runtime object: null pointers and sibling 'enabled by' toggles in every on/off state) x name-buffer prefixes "
                "'', '/', '/x/'; evaluations = walks + reported addresses dispatched; non-trivial = distinct (table, state) reporting >= 6 addresses")
    ctx.assumptions = ["sub-tree callbacks of the harness follow the rRecur*/rRecurp contract (set the child object, null pointer => skip)",
                       "dispatch of reported addresses is only required for single-component sub-tree names (the SNIP contract of the sugar callbacks)",
                       "enabling toggles are siblings of the sub-tree they enable"]
    if ctx.replay:
        case = json.load(open(ctx.replay))["case"]
        case["state"] = {int(k): v for k, v in case.get("state", {}).items()}
        run_walk(ctx, [case], "replay")
        return
    thorough = ctx.tier == "thorough"
    n = 0
    for cfg, tag in (("PortTreeGen_flat4.cfg", "flat"), ("PortTreeGen_struct3.cfg" if thorough else "PortTreeGen_struct2.cfg", "struct")):
        vec, r = ctx.vectors("PortTreeGen", cfg, "tables_" + tag)
        ctx.bounds[cfg] = r.distinct
        if tag == "flat" and not thorough:
            vec = vec[::4]
        n += run_walk(ctx, [dict(table=v["table"]) for v in vec], tag)
    ctx.exhaustive = True
    g = treegen.Gen(ctx.seed + 100)
    rng = random.Random(ctx.seed + 9)
    inputs = []
    for i in range(2500 if thorough else 300):
        multi = rng.random() < 0.3
        runtime = rng.random() < 0.5
        tb, toggles = treegen.walk_table(g, rng.randint(1, 4), rng.choice([2, 4, 8]), multi=multi, runtime=runtime)
        if runtime:
            toggles = toggles[:4]
            for bits in itertools.product([False, True], repeat=len(toggles)):
                st = dict(zip(toggles, bits))
                for t in treegen_all_toggles(tb):
                    st.setdefault(t, True)
                inputs.append(dict(table=tb, rt=True, multi=multi, state=st))
        inputs.append(dict(table=tb, rt=False, multi=multi, state={t: True for t in treegen_all_toggles(tb)}))
    n += run_walk(ctx, inputs, "random")
    ctx.notes["tables_walked"] = n


def treegen_all_toggles(tb):
    out = []
    for p in tb["ports"]:
        if p["enabledby"]:
            out.append(p["enabledby"])
        if not p["leaf"]:
            out += treegen_all_toggles(p["sub"])
    return out
