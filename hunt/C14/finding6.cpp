// build: g++ -std=c++11 -g -I/tmp/wt/C14_h/include finding6.cpp /tmp/wt/C14_h/_build/librtosc-cpp.a /tmp/wt/C14_h/_build/librtosc.a -o finding6 && ./finding6
//
// (outside the stated quantifier of C14 - a message with a surplus argument -
// but a crash of every rOption / rArrayOption port by one message)
// The LAST alternative of a port's argument specifier is not anchored at the
// end of the message's type string, so "/shape ,Si" is dispatched to a port
// declared "shape::i:c:S". rCOptionCb_ then compares the whole type string with
// "S", falls into the integer branch, reads the string argument as an int,
// and broadcasts with the format "Si" but a single int in the varargs:
// rtosc_vmessage does strlen() on that int.
#include <rtosc/ports.h>
#include <rtosc/port-sugar.h>
#include <cstdio>
#include <cstring>
#include <sys/wait.h>
#include <unistd.h>
using namespace rtosc;

struct Obj { int shape; };
#define rObject Obj
static const Ports ports = { rOption(shape, rOptions(sine, saw, square), rLinear(0,2), "d") };
struct Rt : RtData {
    char buf[128];
    Rt(Obj *o) { memset(buf, 0, sizeof buf); loc = buf; loc_size = sizeof buf; obj = o; }
    void broadcast(const char *) override {}
};

int main()
{
    char m[64];
    rtosc_message(m, sizeof m, "/shape", "Si", "saw", 7);
    printf("dispatching /shape ,Si \"saw\" 7 to a port declared shape::i:c:S\n");
    printf("  expected: not dispatched (type string matches none of '', 'i', 'c', 'S'), or treated as 'saw'\n");
    fflush(stdout);
    pid_t pid = fork();
    if(pid == 0) {
        Obj o; o.shape = 0;
        Rt rt(&o);
        ports.dispatch(m, rt, true);
        printf("  got:      matches = %d, stored %d (saw is 1)\n", rt.matches, o.shape);
        fflush(stdout);
        _exit(rt.matches == 0 || o.shape == 1 ? 0 : 1);
    }
    int st = 0;
    waitpid(pid, &st, 0);
    if(WIFSIGNALED(st)) { printf("  got:      the dispatching process was killed by signal %d\n", WTERMSIG(st)); puts("FAIL"); return 1; }
    if(WEXITSTATUS(st)) { puts("FAIL"); return 1; }
    puts("ok");
    return 0;
}
