// Conformance driver for the OSC wire family (C01 C02 C07 C08).
// Runs the real rtosc functions on abstract inputs (from TLC's enumeration or from
// its own seeded generator) and logs input + observation as one JSON line each;
// the judgement is made by TLC (spec/OscWireTrace.tla), not here.
//
//   wire_driver <mode> in <vectors.ndjson> <out.ndjson>
//   wire_driver <mode> random <seed> <count> <out.ndjson>
// modes: msg (C01)  cap (C02)  bundle (C08)  bytes (C07)
#include "oscmsg.hpp"
#include <rtosc/thread-link.h>
#include <rtosc/ports.h>
#include "vguard.hpp"
#include <algorithm>
#include <set>
#include <memory>

static size_t build_a(const AMsg &m, char *buf, size_t cap) {
    auto ra = amsg_args(m);
    return rtosc_amessage(buf, cap, m.addr.c_str(), m.tags().c_str(), ra.data());
}
static size_t build_v(const AMsg &m, char *buf, size_t cap, bool &faithful) {
    VaSlots vs = amsg_va_slots(m); faithful = vs.faithful;
    return call_vmessage(buf, cap, m.addr.c_str(), m.tags().c_str(), vs.slots);
}
static size_t build_av(const AMsg &m, char *buf, size_t cap) {
    std::vector<rtosc_arg_val_t> av; auto ra = amsg_args(m); size_t k = 0;
    for (auto &a : m.args) { rtosc_arg_val_t x; memset(&x, 0, sizeof x); x.type = a.t;
        if (tag_has_payload(a.t)) x.val = ra[k++]; else if (a.t == 'T') x.val.T = 1;
        av.push_back(x); }
    return rtosc_avmessage(buf, cap, m.addr.c_str(), av.size(), av.data());
}

// ---------------------------------------------------------------- C01
static void accessors(JW &w, const char *m, size_t n, unsigned nv) {
    w.knum("mlen", (long long)rtosc_message_length(m, n));
    const char *as = rtosc_argument_string(m);
    w.kbytes("argstr", (const uint8_t *)as, strlen(as));
    w.knum("nargs", rtosc_narguments(m));
    w.key("types").arr(); for (unsigned i = 0; i < nv; ++i) w.num((unsigned char)rtosc_type(m, i)); w.end_arr();
    w.key("vals").arr(); for (unsigned i = 0; i < nv; ++i) { char t = rtosc_type(m, i); obs_val(w, t, rtosc_argument(m, i)); } w.end_arr();
    rtosc_arg_itr_t it = rtosc_itr_begin(m); unsigned cnt = 0;
    w.key("itr").arr();
    while (!rtosc_itr_end(it) && cnt < nv + 4) { rtosc_arg_val_t v = rtosc_itr_next(&it); w.obj().knum("t", (unsigned char)v.type).key("v"); obs_val(w, v.type, v.val); w.end_obj(); cnt++; }
    w.end_arr();
    w.kbool("itr_end", rtosc_itr_end(it) != 0);
}
static void do_msg(const AMsg &m, FILE *out) {
    JW w; w.obj().kstr("k", "msg"); amsg_to_json(w, m);
    unsigned nv = 0; for (auto &a : m.args) if (a.t != '[' && a.t != ']') nv++;
    std::string acc; int sig = 0; int hits = 0; std::string first;
    sig = vg_run(5, [&] {
        size_t need = build_a(m, NULL, 0);
        w.knum("sizeq", (long long)need);
        size_t cap = need + 16;
        std::vector<char> b1(cap, (char)0xA5), b2(cap, (char)0xA5), b3(cap, (char)0xA5);
        size_t r1 = build_a(m, b1.data(), cap);
        w.knum("ret_a", (long long)r1).kbytes("bytes", (const uint8_t *)b1.data(), std::min(r1, cap));
        bool faithful = true; size_t r2 = build_v(m, b2.data(), cap, faithful);
        w.kbool("v_done", faithful).knum("ret_v", (long long)r2).kbool("eq_v", r2 == r1 && !memcmp(b1.data(), b2.data(), std::min(r1, cap)));
        bool avok = !m.has_brackets();
        size_t r3 = avok ? build_av(m, b3.data(), cap) : 0;
        w.kbool("av_done", avok).knum("ret_av", (long long)r3).kbool("eq_av", avok && r3 == r1 && !memcmp(b1.data(), b3.data(), std::min(r1, cap)));
        bool tail = true; for (size_t i = r1; i < cap; ++i) if ((unsigned char)b1[i] != 0xA5) tail = false;
        w.kbool("tail_ok", tail);
        if (r1 > 0 && r1 <= cap) { FlushBuf fb(r1); memcpy(fb.p, b1.data(), r1); w.kbool("acc", true); accessors(w, (const char *)fb.p, r1, nv); }
        else w.kbool("acc", false);
    });
    hits = vg_asan_hits; first = vg_asan_first;
    if (sig) { // the writer may be mid-structure: emit a minimal record instead
        JW e; e.obj().kstr("k", "msg"); amsg_to_json(e, m); e.knum("sig", sig).knum("asan", hits).kstr("asan_what", first).end_obj();
        fprintf(out, "%s\n", e.s.c_str()); return;
    }
    w.knum("sig", 0).knum("asan", hits).kstr("asan_what", first).end_obj();
    fprintf(out, "%s\n", w.s.c_str());
}

// ---------------------------------------------------------------- C02
// one record per message: for every capacity 0..need+8 the return value, whether
// [0,cap) is all zero, whether [0,ret) equals the reference bytes, whether the
// guard zone behind the buffer is intact, and ASan reports.
static void do_cap(const AMsg &m, FILE *out) {
    JW w; w.obj().kstr("k", "cap"); amsg_to_json(w, m);
    int sig = vg_run(20, [&] {
        size_t need = build_a(m, NULL, 0);
        w.knum("sizeq", (long long)need);
        std::vector<char> ref(need + 16, 0); size_t rr = build_a(m, ref.data(), need + 16);
        w.knum("ret_big", (long long)rr).kbytes("bytes", (const uint8_t *)ref.data(), std::min(rr, need + 16));
        std::string which[3] = {"a", "v", "av"};
        for (int c = 0; c < 3; ++c) {
            if (c == 2 && m.has_brackets()) continue;
            if (c == 1 && !amsg_va_slots(m).faithful) continue;
            std::vector<long long> rets; std::vector<int> zero, eq, guard, asan;
            for (size_t cap = 0; cap <= need + 8; ++cap) {
                FlushBuf fb(cap + 8); memset(fb.p, 0xA5, cap + 8);      // 8 explicit guard bytes, then the poisoned red zone
                int h0 = vg_asan_hits; size_t r; bool f = true;
                if (c == 0) r = build_a(m, (char *)fb.p, cap); else if (c == 1) r = build_v(m, (char *)fb.p, cap, f); else r = build_av(m, (char *)fb.p, cap);
                rets.push_back((long long)r);
                bool z = true; for (size_t i = 0; i < cap; ++i) if (fb.p[i]) z = false; zero.push_back(z);
                eq.push_back(r <= cap && r == rr && !memcmp(fb.p, ref.data(), r));
                bool g = true; for (size_t i = cap; i < cap + 8; ++i) if (fb.p[i] != 0xA5) g = false; guard.push_back(g);
                asan.push_back(vg_asan_hits - h0);
            }
            w.key(("rets_" + which[c]).c_str()).arr(); for (auto x : rets) w.num(x); w.end_arr();
            w.key(("zero_" + which[c]).c_str()).arr(); for (auto x : zero) w.boolean(x); w.end_arr();
            w.key(("eq_" + which[c]).c_str()).arr(); for (auto x : eq) w.boolean(x); w.end_arr();
            w.key(("guard_" + which[c]).c_str()).arr(); for (auto x : guard) w.boolean(x); w.end_arr();
            w.key(("asan_" + which[c]).c_str()).arr(); for (auto x : asan) w.num(x); w.end_arr();
        }
        w.kbool("av_done", !m.has_brackets()).kbool("v_done", amsg_va_slots(m).faithful);
    });
    if (sig) { JW e; e.obj().kstr("k", "cap"); amsg_to_json(e, m); e.knum("sig", sig).kstr("asan_what", vg_asan_first).end_obj(); fprintf(out, "%s\n", e.s.c_str()); return; }
    w.knum("sig", 0).kstr("asan_what", vg_asan_first).end_obj();
    fprintf(out, "%s\n", w.s.c_str());
}

// ---------------------------------------------------------------- C08 (+ bundle half of C02)
struct AElem { bool is_msg; AMsg m; uint64_t tt = 0; std::vector<AElem> kids; };
static AElem elem_from_json(const J &j) {
    AElem e; e.is_msg = j["k"].s == "m";
    if (e.is_msg) e.m = amsg_from_json(j); else { e.tt = from_limbs64(j["tt"]); for (auto &k : j["elems"].a) e.kids.push_back(elem_from_json(k)); }
    return e;
}
static void elem_to_json(JW &w, const AElem &e) {
    w.obj();
    if (e.is_msg) { w.kstr("k", "m"); amsg_to_json(w, e.m); }
    else { w.kstr("k", "b").key("tt").limbs64(e.tt); w.key("elems").arr(); for (auto &k : e.kids) elem_to_json(w, k); w.end_arr(); }
    w.end_obj();
}
static size_t call_bundle(char *buf, size_t cap, uint64_t tt, const std::vector<const char *> &p) {
    switch (p.size()) {
        case 0: return rtosc_bundle(buf, cap, tt, 0);
        case 1: return rtosc_bundle(buf, cap, tt, 1, p[0]);
        case 2: return rtosc_bundle(buf, cap, tt, 2, p[0], p[1]);
        case 3: return rtosc_bundle(buf, cap, tt, 3, p[0], p[1], p[2]);
        case 4: return rtosc_bundle(buf, cap, tt, 4, p[0], p[1], p[2], p[3]);
        case 5: return rtosc_bundle(buf, cap, tt, 5, p[0], p[1], p[2], p[3], p[4]);
        case 6: return rtosc_bundle(buf, cap, tt, 6, p[0], p[1], p[2], p[3], p[4], p[5]);
        case 7: return rtosc_bundle(buf, cap, tt, 7, p[0], p[1], p[2], p[3], p[4], p[5], p[6]);
        default: return rtosc_bundle(buf, cap, tt, 8, p[0], p[1], p[2], p[3], p[4], p[5], p[6], p[7]);
    }
}
// Builds the wire image of an element with the real constructors.  Messages sit in
// exact-size blocks; bundles are followed by one zero word (the element API takes
// no length and finds a bundle's end by a zero size field - stated assumption).
struct Built { std::unique_ptr<FlushBuf> fb; size_t len = 0; bool ok = true; };
static Built build_elem(const AElem &e) {
    Built b;
    if (e.is_msg) { size_t need = build_a(e.m, NULL, 0); b.fb.reset(new FlushBuf(need)); b.len = build_a(e.m, (char *)b.fb->p, need); b.ok = b.len == need; return b; }
    std::vector<Built> ks; std::vector<const char *> ps; size_t need = 16;
    for (auto &k : e.kids) { ks.push_back(build_elem(k)); if (!ks.back().ok) b.ok = false; need += 4 + ks.back().len; }
    for (auto &k : ks) ps.push_back((const char *)k.fb->p);
    b.fb.reset(new FlushBuf(need + 4)); memset(b.fb->p, 0, need + 4);
    b.len = call_bundle((char *)b.fb->p, need, e.tt, ps); if (b.len != need) b.ok = false;
    return b;
}
static void do_bundle(const AElem &top, FILE *out) {
    JW w; w.obj().kstr("k", "bundle").key("tt").limbs64(top.tt); w.key("elems").arr(); for (auto &k : top.kids) elem_to_json(w, k); w.end_arr();
    int sig = vg_run(30, [&] {
        std::vector<Built> ks; std::vector<const char *> ps; size_t need = 16; bool kids_ok = true;
        for (auto &k : top.kids) { ks.push_back(build_elem(k)); kids_ok = kids_ok && ks.back().ok; need += 4 + ks.back().len; }
        for (auto &k : ks) ps.push_back((const char *)k.fb->p);
        w.kbool("kids_ok", kids_ok).knum("asan_build", vg_asan_hits);
        w.key("msg_is_bundle").arr(); for (size_t i = 0; i < ks.size(); ++i) if (top.kids[i].is_msg) w.boolean(rtosc_bundle_p(ps[i]) != 0); w.end_arr();
        // reference image in an exact-size block, then the decomposition API on it
        int h0 = vg_asan_hits;
        FlushBuf ref(need); size_t rr = call_bundle((char *)ref.p, need, top.tt, ps);
        w.knum("ret_big", (long long)rr).kbytes("bytes", ref.p, std::min(rr, need));
        const char *b = (const char *)ref.p;
        if (rr == need) {
            w.kbool("acc", true).kbool("is_bundle", rtosc_bundle_p(b) != 0);
            size_t ne = rtosc_bundle_elements(b, need); w.knum("nelems", (long long)ne);
            w.key("sizes").arr(); for (size_t i = 0; i < top.kids.size(); ++i) w.num((long long)rtosc_bundle_size(b, i)); w.end_arr();
            w.key("offs").arr(); for (size_t i = 0; i < top.kids.size(); ++i) { const char *f = rtosc_bundle_fetch(b, i); w.num(f ? (long long)(f - b) : -1); } w.end_arr();
            w.key("timetag").limbs64(rtosc_bundle_timetag(b));
            w.knum("mlen", (long long)rtosc_message_length(b, need));
        } else w.kbool("acc", false);
        w.knum("asan_acc", vg_asan_hits - h0);
        // capacity sweep (C02)
        std::vector<long long> rets; std::vector<int> zero, eq, guard, asan;
        for (size_t cap = 0; cap <= need + 8; ++cap) {
            FlushBuf fb(cap + 8); memset(fb.p, 0xA5, cap + 8);
            int h = vg_asan_hits; size_t r = call_bundle((char *)fb.p, cap, top.tt, ps);
            rets.push_back((long long)r);
            bool z = true; for (size_t i = 0; i < cap; ++i) if (fb.p[i]) z = false; zero.push_back(z);
            eq.push_back(r <= cap && r == rr && !memcmp(fb.p, ref.p, r));
            bool g = true; for (size_t i = cap; i < cap + 8; ++i) if (fb.p[i] != 0xA5) g = false; guard.push_back(g);
            asan.push_back(vg_asan_hits - h);
        }
        w.key("rets").arr(); for (auto x : rets) w.num(x); w.end_arr();
        w.key("zero").arr(); for (auto x : zero) w.boolean(x); w.end_arr();
        w.key("eq").arr(); for (auto x : eq) w.boolean(x); w.end_arr();
        w.key("guard").arr(); for (auto x : guard) w.boolean(x); w.end_arr();
        w.key("asan").arr(); for (auto x : asan) w.num(x); w.end_arr();
    });
    if (sig) { JW e; e.obj().kstr("k", "bundle").key("tt").limbs64(top.tt); e.key("elems").arr(); for (auto &k : top.kids) elem_to_json(e, k); e.end_arr(); e.knum("sig", sig).kstr("asan_what", vg_asan_first).end_obj(); fprintf(out, "%s\n", e.s.c_str()); return; }
    w.knum("sig", 0).kstr("asan_what", vg_asan_first).end_obj();
    fprintf(out, "%s\n", w.s.c_str());
}
static AElem random_elem(MsgGen &g, int depth, bool top) {
    AElem e;
    if (!top && (depth == 0 || g.R(3))) { e.is_msg = true; e.m = g.msg(4, 9, 9); return e; }
    e.is_msg = false; e.tt = g.bits64(); if (g.R(4) == 0) e.tt = 1;
    unsigned n = (unsigned)g.R(top ? 9 : 4);
    for (unsigned i = 0; i < n; ++i) e.kids.push_back(random_elem(g, depth - 1, false));
    return e;
}


// ---------------------------------------------------------------- C02, second half: the library's own fixed buffers
// ThreadLink::write / writeArray format into write_buffer[MaxMsg]; RtData::reply / broadcast (path, args, ...) format into an
// 8192-byte stack buffer.  A message is described by (tags, string length / blob length); the variadic entry points are driven
// through explicit call sites for the tag strings below.  Reference image: rtosc_amessage into a large buffer (judged by C01).
struct SinkMsg { std::string tags; std::string s1, s2; std::vector<uint8_t> b; int i = 7; };
static std::vector<rtosc_arg_t> sink_args(const SinkMsg &m) { std::vector<rtosc_arg_t> a; int ns = 0;
    for (char t : m.tags) { rtosc_arg_t x; memset(&x, 0, sizeof x); if (t == 's') x.s = (ns++ ? m.s2 : m.s1).c_str(); else if (t == 'b') { x.b.len = (int)m.b.size(); x.b.data = (uint8_t *)m.b.data(); } else if (t == 'i') x.i = m.i; else continue; a.push_back(x); } return a; }
template <class F> static void sink_call(const SinkMsg &m, F f) {   // f(tags, ...) with the values in place
    const std::string &t = m.tags; const char *a = m.s1.c_str(), *b2 = m.s2.c_str(); int bl = (int)m.b.size(); const uint8_t *bd = m.b.data();
    if (t == "") f(""); else if (t == "i") f("i", m.i); else if (t == "s") f("s", a); else if (t == "b") f("b", bl, bd); else if (t == "ss") f("ss", a, b2);
    else if (t == "is") f("is", m.i, a); else if (t == "si") f("si", a, m.i); else if (t == "sb") f("sb", a, bl, bd); else if (t == "bs") f("bs", bl, bd, a); else if (t == "T") f("T"); }
struct SinkRec : rtosc::RtData { std::string got = "none"; const std::vector<char> *ref = nullptr; long calls = 0;
    void take(const char *msg) { ++calls; bool zero = true; for (int k = 0; k < 8192; ++k) if (msg[k]) { zero = false; break; }
        if (zero) { got = "empty"; return; } size_t n = rtosc_message_length(msg, 8192); got = (n == ref->size() && memcmp(msg, ref->data(), n) == 0) ? "same" : "other"; }
    void reply(const char *msg) override { take(msg); }
    void broadcast(const char *msg) override { take(msg); }
    using rtosc::RtData::reply; using rtosc::RtData::broadcast; };
static void sink_record(FILE *out, const char *what, const SinkMsg &m, long cap, long need, long freeb, long pre, const std::string &got, bool pre_ok, int sig) {
    JW w; w.obj().kstr("k", "sink").kstr("what", what).kstr("tags", m.tags).knum("cap", cap).knum("need", need).knum("free", freeb).knum("pre", pre).kstr("got", got).kbool("pre_ok", pre_ok)
        .knum("sig", sig).knum("asan", vg_asan_hits).kstr("asan_what", vg_asan_first).end_obj(); fprintf(out, "%s\n", w.s.c_str()); }
static void do_sink(const SinkMsg &m, FILE *out) {
    auto ra = sink_args(m); const char *addr = "/sink/x";
    std::vector<char> ref(rtosc_amessage(NULL, 0, addr, m.tags.c_str(), ra.data())); rtosc_amessage(ref.data(), ref.size(), addr, m.tags.c_str(), ra.data());
    long need = (long)ref.size();
    if (need > 7900 || need < 64) for (int bc = 0; bc < 2; ++bc) { SinkRec d; d.ref = &ref; char loc[64] = "/loc"; d.loc = loc; d.loc_size = sizeof loc;
        int sig = vg_run(5, [&] { sink_call(m, [&](const char *t, auto... v) { if (bc) d.broadcast(addr, t, v...); else d.reply(addr, t, v...); }); });
        sink_record(out, bc ? "RtData::broadcast" : "RtData::reply", m, 8192, need, 8192, 0, d.calls == 1 ? d.got : (d.calls ? "other" : "none"), true, sig); }
    if (need > 1200) return;
    static const int geo[][2] = {{16, 2}, {16, 4}, {32, 2}, {32, 4}, {64, 4}, {1024, 3}};
    for (auto &g : geo) { long MaxMsg = g[0], cells = (long)g[0] * g[1];
        if (need > MaxMsg + 40 && need > 100 && MaxMsg != 1024) continue;
        std::set<long> pres; long maxp = (cells - 1) / 12; for (long p2 : {0L, 1L, 2L, maxp - 1, maxp}) if (p2 >= 0 && p2 <= maxp) pres.insert(p2);
        for (long p2 = 0; p2 <= maxp; ++p2) { long fr = cells - 1 - 12 * p2; if (fr >= need - 13 && fr <= need + 13) pres.insert(p2); }       // free space around the needed size
        for (long pre : pres) for (int arr = 0; arr < 2; ++arr) {
            std::string got = "none"; bool pre_ok = true; long freeb = cells - 1 - 12 * pre;
            int sig = vg_run(5, [&] { rtosc::ThreadLink tl((size_t)MaxMsg, (size_t)g[1]);
                for (long k = 0; k < pre; ++k) tl.write("/m", "i", (int)k);                       // 12-byte markers already queued
                if (arr) tl.writeArray(addr, m.tags.c_str(), ra.data()); else sink_call(m, [&](const char *t, auto... v) { tl.write(addr, t, v...); });
                for (long k = 0; k < pre; ++k) { if (!tl.hasNext()) { pre_ok = false; break; } const char *r = tl.read(); if (strcmp(r, "/m") || strcmp(rtosc_argument_string(r), "i") || rtosc_argument(r, 0).i != (int)k) pre_ok = false; }
                if (pre_ok && tl.hasNext()) { const char *r = tl.read(); size_t n = rtosc_message_length(r, (size_t)MaxMsg); got = (n == ref.size() && memcmp(r, ref.data(), n) == 0) ? "same" : "other"; if (tl.hasNext()) got = "other"; } });
            sink_record(out, arr ? "ThreadLink::writeArray" : "ThreadLink::write", m, MaxMsg, need, freeb, pre, got, pre_ok, sig); } }
}
static void run_sink(uint64_t seed, long count, FILE *out) {
    MsgGen g(seed * 40503 + 1); static const char *tagsets[] = {"s", "b", "ss", "is", "si", "sb", "bs", "", "i", "T"};
    // directed: every size around each MaxMsg and around 8192, through one string or blob
    for (const char *t : {"s", "b", "is"}) for (long base : {16L, 32L, 64L, 1024L, 8192L}) for (long d = -14; d <= 14; ++d) { long L = base - 16 + d; if (L < 0) continue;
        SinkMsg m; m.tags = t; m.s1.assign((size_t)L, 'q'); m.b.assign((size_t)L, 0x5a); do_sink(m, out); }
    for (long i = 0; i < count; ++i) { SinkMsg m; m.tags = tagsets[g.R(10)]; bool huge = g.R(6) == 0; long top = huge ? 8300 : (g.R(3) ? 80 : 1100);
        m.s1.assign((size_t)g.R(top), 'a' + (char)g.R(26)); m.s2.assign((size_t)g.R(g.R(2) ? 20 : top), 'k'); m.b.resize((size_t)g.R(top)); for (auto &x : m.b) x = (uint8_t)g.R(256); m.i = (int)g.R(1000); do_sink(m, out); }
}
// ---------------------------------------------------------------- C07
// arbitrary bytes in an exact-size block flush against a poisoned red zone (n = 0: a
// pointer to the end of a block).  Phase 1: length + validity; phase 2 (only if the
// predicate accepts): every accessor.  Crashes, hangs and ASan reports are observations.
static void do_bytes(const std::vector<uint8_t> &in, FILE *out) {
    size_t n = in.size();
    FlushBuf fb(n); if (n) memcpy(fb.p, in.data(), n);
    const char *m = (const char *)fb.p;
    JW w; w.obj().kstr("k", "bytes").kbytes("bytes", in);
    long long mlen = -1; bool valid = false;
    int sig1 = vg_run_ms(250, [&] { mlen = (long long)rtosc_message_length(m, n); valid = rtosc_valid_message_p(m, n); });
    w.knum("mlen", mlen).kbool("valid", valid && !sig1).knum("sig_v", sig1).knum("asan_v", vg_asan_hits).kstr("what_v", vg_asan_first);
    if (valid && !sig1) {
        JW a; int sig2 = vg_run(2, [&] {
            a.obj();
            const char *as = rtosc_argument_string(m);
            size_t asl = strnlen(as, 600); a.kbytes("argstr", (const uint8_t *)as, asl);
            unsigned na = rtosc_narguments(m); a.knum("nargs", na); if (na > 600) na = 600;
            a.key("types").arr(); for (unsigned i = 0; i < na; ++i) a.num((unsigned char)rtosc_type(m, i)); a.end_arr();
            a.key("vals").arr(); for (unsigned i = 0; i < na; ++i) { char t = rtosc_type(m, i); obs_val(a, t, rtosc_argument(m, i), (long)n); } a.end_arr();
            rtosc_arg_itr_t it = rtosc_itr_begin(m); unsigned cnt = 0;
            a.key("itr").arr();
            while (!rtosc_itr_end(it) && cnt < na + 4) { rtosc_arg_val_t v = rtosc_itr_next(&it); a.obj().knum("t", (unsigned char)v.type).key("v"); obs_val(a, v.type, v.val, (long)n); a.end_obj(); cnt++; }
            a.end_arr(); a.kbool("itr_end", rtosc_itr_end(it) != 0);
            a.end_obj();
        });
        w.knum("sig_a", sig2).knum("asan_a", vg_asan_hits).kstr("what_a", vg_asan_first);
        if (!sig2) w.key("acc").raw(a.s); else w.key("acc").raw("{}");
    }
    w.end_obj();
    fprintf(out, "%s\n", w.s.c_str());
}
// structure-aware random mutation of valid messages (engine B input source)
static std::vector<uint8_t> mutate(MsgGen &g, std::vector<uint8_t> b) {
    unsigned steps = 1 + (unsigned)g.R(6);
    static const uint32_t words[] = {0, 1, 3, 4, 8, 0x7fffffff, 0x80000000u, 0xfffffff8u, 0xfffffffcu, 0xfffffffdu, 0xffffffffu};
    static const uint8_t bv[] = {0, 1, 44, 47, 91, 93, 98, 105, 115, 127, 128, 255};
    for (unsigned s = 0; s < steps; ++s) {
        switch (g.R(7)) {
            case 0: if (!b.empty()) b.resize(g.R(b.size())); break;                                   // truncate
            case 1: if (!b.empty()) b[g.R(b.size())] = bv[g.R(sizeof bv)]; break;                      // boundary byte
            case 2: if (!b.empty()) b[g.R(b.size())] = (uint8_t)g.R(256); break;                       // random byte
            case 3: if (b.size() >= 4) { size_t p = 4 * g.R(b.size() / 4); uint32_t v = words[g.R(11)]; b[p] = v >> 24; b[p + 1] = v >> 16; b[p + 2] = v >> 8; b[p + 3] = v; } break;
            case 4: { size_t p = 4 * g.R(b.size() / 4 + 1); uint8_t ins[4] = {0, 0, 0, 0}; if (g.R(2)) { ins[0] = ','; ins[1] = "bsiSh"[g.R(5)]; } b.insert(b.begin() + p, ins, ins + 4); break; }
            case 5: if (b.size() >= 4) { size_t p = 4 * g.R(b.size() / 4); b.erase(b.begin() + p, b.begin() + p + 4); } break;
            default: { size_t k = 1 + g.R(4); for (size_t i = 0; i < k; ++i) b.push_back(g.R(3) ? 0 : (uint8_t)g.R(256)); }
        }
        if (b.size() > 512) b.resize(512);
    }
    return b;
}

int main(int argc, char **argv) {
    vg_init();
    if (argc < 5) { fprintf(stderr, "usage\n"); return 2; }
    std::string mode = argv[1], src = argv[2];
    FILE *out = nullptr;
    std::vector<AMsg> msgs;
    if (src == "in") {
        FILE *f = fopen(argv[3], "r"); if (!f) { perror(argv[3]); return 2; }
        out = fopen(argv[4], "w");
        std::string line;
        while (read_line(f, line)) { if (line.empty()) continue; J j = jparse(line);
            if (mode == "msg") do_msg(amsg_from_json(j), out);
            else if (mode == "cap") do_cap(amsg_from_json(j), out);
            else if (mode == "bytes") do_bytes(j["bytes"].bytes(), out);
            else if (mode == "bundle") { AElem t; t.is_msg = false; t.tt = from_limbs64(j["tt"]); for (auto &k : j["elems"].a) t.kids.push_back(elem_from_json(k)); do_bundle(t, out); }
        }
        fclose(f);
    } else {
        uint64_t seed = strtoull(argv[3], 0, 10); long count = atol(argv[4]); out = fopen(argv[5], "w");
        MsgGen g(seed * 2654435761u + 17);
        if (mode == "sink") { run_sink(seed, count, out); fclose(out); return 0; }
        for (long i = 0; i < count; ++i) {
            // sizes: mostly small, sometimes up to the property's stated bounds
            bool big = g.R(10) == 0;
            if (mode == "bytes") { AMsg m = g.msg(g.R(10) ? 5 : 30, 9, g.R(10) ? 9 : 60); auto ra = amsg_args(m); std::vector<uint8_t> b(rtosc_amessage(NULL, 0, m.addr.c_str(), m.tags().c_str(), ra.data()));
                rtosc_amessage((char *)b.data(), b.size(), m.addr.c_str(), m.tags().c_str(), ra.data()); do_bytes(g.R(50) ? mutate(g, b) : b, out); continue; }
            if (mode == "bundle") { do_bundle(random_elem(g, (int)g.R(5), true), out); continue; }
            AMsg m = g.msg(big ? 40 : 6, big ? 64 : 9, big ? 40 : 9);
            if (mode == "msg") do_msg(m, out);
            else if (mode == "cap") do_cap(m, out);
        }
    }
    fclose(out);
    return 0;
}
