CONSTANTS MaxEntries = 2
INIT Init
NEXT Next
INVARIANT Laws
CONSTRAINT Emit
CHECK_DEADLOCK FALSE
