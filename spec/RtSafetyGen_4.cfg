CONSTANTS MaxOps = 4  MaxMsg = 32  MaxMessages = 3  Prefills = {0, 5, 7}
INIT Init
NEXT Next
INVARIANT Laws
CONSTRAINT Emit
CHECK_DEADLOCK FALSE
