---------------------------- MODULE FloatPort ----------------------------
(* A float parameter port (rParamF / rArrayF of port-sugar.h) seen at the resolution *)
(* of single-precision BIT PATTERNS.  AppModel.tla measures floats in quarters; that  *)
(* cannot tell 0.25 from the next float above it, and "an undo event is emitted if and *)
(* only if the stored value changed" (C14) speaks about exactly such neighbours.       *)
(* For positive finite floats the numeric order is the order of the bit patterns, so   *)
(* a port with upper bound `mx` is the state machine below; Run is what a sequence of  *)
(* incoming values must produce, step by step.  The generator part (Init/Next/Emit)    *)
(* lets TLC enumerate every sequence of up to MaxLen values of the pool: neighbours    *)
(* (one unit in the last place apart), the smallest normal and denormal numbers, each  *)
(* port's bound, its lower neighbour and a value beyond it.                            *)
EXTENDS Naturals, Sequences, TLC, Json, CSV, IOUtils
MinB(a, b) == IF a < b THEN a ELSE b
RECURSIVE Run(_, _, _)
Run(cur, mx, ins) == IF ins = <<>> THEN <<>>
                     ELSE LET st == MinB(Head(ins), mx) IN << [stored |-> st, changed |-> st # cur, old |-> cur] >> \o Run(st, mx, Tail(ins))
\* 0.25, next above 0.25, 1.0, 1.0 + epsilon, FLT_MIN, the smallest denormal, 0.75 and its neighbours, 4.0 and neighbours, 8.0 and neighbours, 9.0, 10.25, 11.0
Pool == { 1048576000, 1048576001, 1065353216, 1065353217, 8388608, 1, 1061158911, 1061158912, 1061158913, 1082130431, 1082130432, 1082130433,
          1090519039, 1090519040, 1090519041, 1091567616, 1092878336, 1093664768 }
CONSTANT MaxLen
VARIABLE seq
Init == seq = <<>>
Next == Len(seq) < MaxLen /\ \E b \in Pool : seq' = Append(seq, b)
\* design law: the stored value never exceeds the bound and a step reports a change exactly when the stored pattern differs
Law == \A mx \in {1061158912, 1082130432, 1090519040, 1092878336} :
         LET r == Run(1048576000, mx, seq) IN \A i \in 1..Len(r) : r[i].stored <= mx /\ (r[i].changed <=> r[i].stored # r[i].old)
Out == IF "OUT" \in DOMAIN IOEnv THEN IOEnv.OUT ELSE "none"
Emit == seq = <<>> \/ Out = "none" \/ CSVWrite("%1$s", <<ToJson(seq)>>, Out)
=============================================================================
