---------------------------- MODULE AppGen ----------------------------
(* Input machine for C12 / C13 / C14: a state is the application state reached by a   *)
(* sequence of parameter messages (kept in `script`); Next sends one more message to   *)
(* any parameter with a value from its boundary classes (in range, at and beyond each  *)
(* bound, storage extremes of the char-backed kinds -128..127, non-integral floats,    *)
(* option symbols, strings with quotes / newlines / '%' / over-long).  Laws of the     *)
(* design are checked in every state: an untouched application saves nothing, loading  *)
(* the savefile of a state restores its reachable part - for EVERY order of the lines  *)
(* that puts depended-on ports first - and a dropped order rule breaks that (mutant).  *)
EXTENDS AppModel, Json, CSV, IOUtils
CONSTANTS MaxMsgs, SimMode, OrderRule
VARIABLES st, script
IntVals(p) == IF p.lo = 0 - NoBound THEN {0 - 70000, 0 - 1, 0, 7, 70000} ELSE {p.lo - 1, p.lo, (p.lo + p.hi) \div 2, p.hi, p.hi + 1}
Choices(addr) == LET p == Param(addr) IN
  CASE p.kind = "c" -> { [ty |-> "c", v |-> v] : v \in {0 - 128, 0 - 1, 0, 64, 100, 127} }
    [] p.kind = "I" -> { [ty |-> "i", v |-> v] : v \in {0 - 128, 0 - 1, 0, 3, 50, 100, 127} }
    [] p.kind = "i" -> { [ty |-> "i", v |-> v] : v \in IntVals(p) }
    [] p.kind = "f" -> { [ty |-> "f", v |-> v] : v \in (IF p.lo = 0 - NoBound THEN {0 - 4000, 0, 3, p.hi, p.hi + 1} ELSE {p.lo - 1, p.lo, p.lo + 1, 1, p.hi, p.hi + 3}) }
    [] p.kind = "T" -> { [ty |-> "T", v |-> 0], [ty |-> "F", v |-> 0] }
    [] p.kind = "o" -> { [ty |-> "S", v |-> OptionNames[i]] : i \in 1..4 } \cup { [ty |-> "i", v |-> 0], [ty |-> "i", v |-> 2], [ty |-> "c", v |-> 1] }
    [] p.kind = "s" -> { [ty |-> "s", v |-> v] : v \in { <<>>, <<97, 98, 99>>, <<104, 101, 108, 108, 111, 32, 119, 111, 114, 108, 100>>, <<113, 34, 37, 10, 39>> } }
\* messages are generated for half of the sub-tree array elements (one per container, both indices occur); the model knows all of them
GenAddresses == SelectSeq(Addresses, LAMBDA a : a \notin {"/sub/sa0", "/subs0/sa0", "/subs1/sa1", "/psub/sa1", "/al1", "/al2", "/al3", "/al4", "/al6", "/al7", "/ab1", "/ab2", "/ab3", "/ab4", "/ab6"})
Init == st = Default /\ script = <<>>
Next == /\ Len(script) < MaxMsgs
        /\ \E i \in 1..Len(GenAddresses) : \E c \in Choices(GenAddresses[i]) :
             /\ st' = SetState(st, GenAddresses[i], c.ty, c.v)
             /\ script' = Append(script, [op |-> "set", addr |-> GenAddresses[i], ty |-> c.ty, v |-> c.v])
\* ------------------------------------------------------------------ laws of the design
DefaultSavesNothing == (st = Default) => SaveLines(st) = {}
RoundTrip == LoadLines(SaveLines(st)) = Restored(st)
\* every order that respects the dependency rule gives the same result: it suffices that swapping two lines of equal rank is harmless
\* (checked by loading with the two CHOOSE-independent orders: ranked, and ranked with each rank reversed)
LoadRev(lines) == LoadWith(lines, <<0, 1, 2>>, TRUE)
\* the mutant: no rule (dependants first)
LoadUnordered(lines) == LoadWith(lines, <<2, 1, 0>>, FALSE)
OrderIndependent == IF OrderRule THEN LoadRev(SaveLines(st)) = Restored(st) ELSE LoadUnordered(SaveLines(st)) = Restored(st)
\* replaying a serialised sub-tree restores the state whenever no re-initialising port stands behind its dependant in the table
SerLaw == SerRoundTripHolds(st) => Deserialized(st) = st
Out == IF "OUT" \in DOMAIN IOEnv THEN IOEnv.OUT ELSE "none"
Ops == script \o << [op |-> "saveload", seed |-> Len(script)] >>
SimPick == Len(script) = MaxMsgs /\ script[Len(script)].addr = "/pt" /\ script[Len(script)].ty = "T"
Emit == script = <<>> \/ Out = "none" \/ (SimMode /\ ~ SimPick) \/ CSVWrite("%1$s", <<ToJson(Ops)>>, Out)
=============================================================================
