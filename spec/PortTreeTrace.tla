---------------------------- MODULE PortTreeTrace ----------------------------
(* Judgement for C04 (dispatch), C09 (walk) and the lookup sentence of C18.       *)
(* "dispatch" lines: one table (under one permutation of its ports) and, for each *)
(* address x type string, the callbacks the real Ports::dispatch invoked without  *)
(* and with a location buffer.  "walk" lines: one table (optionally a runtime     *)
(* state) and what walk_ports reported for three name-buffer prefixes, whether    *)
(* each reported address reaches its port, and what Ports::apropos returns.       *)
EXTENDS PortTree, Metadata, Json, IOUtils
W == INSTANCE OscWire
PU == INSTANCE PathUtil
Log == ndJsonDeserialize(IOEnv.TRACE)
VARIABLE l
NB == 64
Init == l \in {0 - b : b \in 1..NB}
Next == /\ l < 0
        /\ \E j \in 0..(Len(Log) \div NB) : LET i == j * NB + (0 - l) IN i <= Len(Log) /\ l' = i
KeysOf(cs) == [i \in 1..Len(cs) |-> <<cs[i].id, cs[i].chain>>]
ResultFails(tb, e) ==
  LET cs == Dispatch(tb, e.addr, e.tags)
      must == Must(cs)  may == May(cs)
      k1 == KeysOf(e.noloc)  k2 == KeysOf(e.loc) IN
  {k \in {"oob", "oob_location_buffer", "exact_location_buffer_differs", "noloc_missed", "noloc_foreign", "noloc_twice", "loc_missed", "loc_foreign", "loc_twice", "strategy_differs",
          "loc_string", "loc_port", "matches", "object"} :
   ~ CASE k = "oob" -> e.asan = 0
       \* a location buffer of exactly the address's size behaves like a large one; one that is too short is never written behind
       [] k = "oob_location_buffer" -> ("asan_tight" \in DOMAIN e) => (e.asan_tight = 0 /\ e.asan_short = 0)
       [] k = "exact_location_buffer_differs" -> ("tight" \in DOMAIN e) => (Range(KeysOf(e.tight)) = Range(k2) /\ e.matches_tight = e.matches)
       [] k = "noloc_missed"  -> must \subseteq Range(k1)
       [] k = "noloc_foreign" -> Range(k1) \subseteq may
       [] k = "noloc_twice"   -> NoDups(k1)
       [] k = "loc_missed"    -> must \subseteq Range(k2)
       [] k = "loc_foreign"   -> Range(k2) \subseteq may
       [] k = "loc_twice"     -> NoDups(k2)
       [] k = "strategy_differs" -> Range(k1) = Range(k2)
       [] k = "loc_string" -> \A i \in 1..Len(e.loc) : \A j \in 1..Len(cs) :
                                Key(cs[j]) = k2[i] => (e.loc[i].has_loc /\ e.loc[i].loc = cs[j].loc)
       [] k = "loc_port"   -> \A i \in 1..Len(e.loc) : e.loc[i].dport = e.loc[i].id
       [] k = "matches"    -> e.matches \in { Len(e.loc), Len(e.loc) + e.dflt }
       [] k = "object"     -> e.obj_restored /\ (\A i \in 1..Len(e.noloc) : e.noloc[i].obj_ok) /\ (\A i \in 1..Len(e.loc) : e.loc[i].obj_ok) }
\* a line may come from a table built through MergePorts / ClonePorts (route): the derived table must have the ports of the
\* original, in order (PortTree.tla: MergeOfOverlappingHalves, CloneTable), and is then judged like the original
DispatchFails(r) ==
  IF r.sig # 0 THEN {"crash_or_hang"}
  ELSE IF "route_shape" \in DOMAIN r /\ ~ r.route_shape THEN {"derived_table_differs"}
  ELSE UNION { ResultFails(r.table, r.results[i]) : i \in 1..Len(r.results) }
\* which result is the first failing one (for the replay file)
FirstBad(r) == IF r.k # "dispatch" \/ r.sig # 0 \/ "results" \notin DOMAIN r THEN 0
               ELSE LET bad == { i \in 1..Len(r.results) : ResultFails(r.table, r.results[i]) # {} } IN
                    IF bad = {} THEN 0 ELSE CHOOSE i \in bad : \A j \in bad : i <= j

\* C18: lookup is only promised when no sibling's name is a prefix of another's
IsPfx(s, t) == Len(s) <= Len(t) /\ SubSeq(t, 1, Len(s)) = s
NameNoTypes(p) == RenderSegs(p.pat.segs)
RECURSIVE NoSiblingPrefix(_)
NoSiblingPrefix(tb) == /\ \A i, j \in 1..Len(tb.ports) : i # j => ~ IsPfx(NameNoTypes(tb.ports[i]), NameNoTypes(tb.ports[j]))
                       /\ \A i \in 1..Len(tb.ports) : tb.ports[i].leaf \/ NoSiblingPrefix(tb.ports[i].sub)
StateFn(r) == [id \in { r.state[i][1] : i \in 1..Len(r.state) } |-> (CHOOSE i \in 1..Len(r.state) : r.state[i][1] = id) \in { i \in 1..Len(r.state) : r.state[i][2] }]
RunFails(r, run) ==
  LET start == IF run.prefix = <<>> THEN <<47>> ELSE run.prefix
      exp3 == WalkT(r.table, start, r.rt, StateFn(r))
      exp == [i \in 1..Len(exp3) |-> [id |-> exp3[i].id, addr |-> exp3[i].addr]]
      obs == [i \in 1..Len(run.walked) |-> [id |-> run.walked[i].id, addr |-> run.walked[i].addr]] IN
  {k \in {"oob", "walk_missing", "walk_foreign", "walk_twice", "walker_port_part", "buffer_after", "reach", "reach_only", "lookup"} :
   ~ CASE k = "oob" -> run.asan = 0
       [] k = "walk_missing" -> Range(exp) \subseteq Range(obs)
       [] k = "walk_foreign" -> Range(obs) \subseteq Range(exp)
       [] k = "walk_twice"   -> NoDups(obs)
       \* the walker's third argument points at the port's own part of the reported address (ports.h: "the part of the location which makes up the port")
       [] k = "walker_port_part" -> \A i \in 1..Len(run.walked) : "part_off" \in DOMAIN run.walked[i] =>
                                      \A j \in 1..Len(exp3) : (exp3[j].id = run.walked[i].id /\ exp3[j].addr = run.walked[i].addr) => run.walked[i].part_off = Len(exp3[j].addr) - exp3[j].plen
       [] k = "buffer_after" -> run.after = start
       [] k = "reach"        -> \A i \in 1..Len(run.reach) : run.reach[i].id \in Range(run.reach[i].ids)
       [] k = "reach_only"   -> NoNamesakes(r.table) => \A i \in 1..Len(run.reach) : run.reach[i].ids = <<run.reach[i].id>>
       [] k = "lookup"       -> (NoNamesakes(r.table) /\ NoSiblingPrefix(r.table)) => \A i \in 1..Len(run.reach) : run.reach[i].lookup = run.reach[i].id }
WalkFails(r) ==
  IF r.sig # 0 THEN {"crash_or_hang"}
  ELSE UNION { RunFails(r, r.runs[i]) : i \in 1..Len(r.runs) }
\* ------------------------------------------------------------------ C17
MetaFails(r) ==
  IF r.sig # 0 THEN {"crash_or_hang"}
  ELSE {k \in {"oob", "block", "iterate", "length", "lookup", "find"} :
        ~ CASE k = "oob" -> r.asan = 0
            [] k = "block" -> r.block = Block(r.es)
            [] k = "iterate" -> r.iter = Pairs(r.es)
            [] k = "length" -> r.length = Length(r.es)
            [] k = "lookup" -> \A i \in 1..Len(r.queries) : LET q == r.queries[i]  e == Lookup(r.es, q.key) IN q.some = e.some /\ (e.some => q.val = e.val)
            [] k = "find" -> \A i \in 1..Len(r.queries) : r.queries[i].found = HasKey(r.es, r.queries[i].key) }

\* ------------------------------------------------------------------ C18
CollapseFails(r) ==
  IF r.sig # 0 THEN {"crash_or_hang"}
  ELSE {k \in {"oob", "render", "inside_buffer", "collapsed"} :
        ~ CASE k = "oob" -> r.asan = 0
            [] k = "render" -> r.path = PU!RenderPath(r.comps)
            [] k = "inside_buffer" -> r.inside
            [] k = "collapsed" -> r.result \in PU!CollapseAllowed(r.comps) }
\* the children a location addresses: the root table, or the table below the sub-tree port(s) named by loc (any depth)
RECURSIVE ChildrenAt(_, _)
ChildrenAt(tb, loc) ==
  IF loc = <<>> \/ loc = <<47>> THEN tb.ports
  ELSE LET hit == { i \in 1..Len(tb.ports) : ~ tb.ports[i].leaf /\ IsPfx(<<47>> \o tb.ports[i].name, loc) } IN
       IF hit = {} THEN <<>>
       ELSE LET i == CHOOSE j \in hit : TRUE  nm == <<47>> \o tb.ports[i].name IN
            IF Len(nm) = Len(loc) THEN tb.ports[i].sub.ports
            ELSE ChildrenAt(tb.ports[i].sub, SubSeq(loc, Len(nm), Len(loc)))      \* the rest starts with the '/' that ends the sub-tree's name
AsChildren(ps) == [i \in 1..Len(ps) |-> [name |-> ps[i].name, meta |-> ps[i].meta]]
\* decode the reply: "/paths" , (s name, b metadata)* , optionally preceded by the two query strings
ReplyPairs(d, skip) == [i \in 1..((Len(d.args) - skip) \div 2) |-> [name |-> d.args[skip + 2 * i - 1].v, meta |-> d.args[skip + 2 * i].v]]
QueryFails(tb, q) ==
  LET d == W!Decode(q.reply)
      skip == IF q.with_query THEN 2 ELSE 0 IN
  IF q.asan # 0 THEN {"oob"}
  ELSE IF ~ d.ok \/ d.len # Len(q.reply) \/ ~ q.valid THEN {"reply_malformed"}
  ELSE {k \in {"reply_address", "reply_shape", "reply_query", "result"} :
        ~ CASE k = "reply_address" -> d.addr = <<47, 112, 97, 116, 104, 115>>
            [] k = "reply_shape" -> /\ (Len(d.args) - skip) % 2 = 0 /\ Len(d.args) >= skip
                                    /\ \A i \in 1..Len(d.args) : d.args[i].t = (IF i <= skip \/ (i - skip) % 2 = 1 THEN "s" ELSE "b")
            [] k = "reply_query" -> q.with_query => (Len(d.args) >= 2 /\ d.args[1].v = q.loc /\ d.args[2].v = q.needle)
            [] k = "result" -> PU!IsSearchResult(ReplyPairs(d, skip), AsChildren(ChildrenAt(tb, q.loc)), q.needle, q.opt) }
SearchFails(r) ==
  IF r.sig # 0 THEN {"crash_or_hang"}
  ELSE UNION { QueryFails(r.table, r.queries[i]) : i \in 1..Len(r.queries) }

Fails(r) == CASE r.k = "dispatch" -> DispatchFails(r) [] r.k = "walk" -> WalkFails(r) [] r.k = "meta" -> MetaFails(r) [] r.k = "collapse" -> CollapseFails(r) [] r.k = "search" -> SearchFails(r)
Judge == l < 0 \/ LET f == Fails(Log[l]) IN f = {} \/ PrintT(<<"REJECT", l, f, FirstBad(Log[l])>>)
=============================================================================
