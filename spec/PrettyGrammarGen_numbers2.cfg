CONSTANTS MaxTokens = 2  SimMode = FALSE  PoolName = "numbers"
INIT Init
NEXT Next
CONSTRAINT Emit
CHECK_DEADLOCK FALSE
