// build: cc -I/tmp/wt/C01_h/include finding1.c /tmp/wt/C01_h/_build/librtosc-cpp.a /tmp/wt/C01_h/_build/librtosc.a -o finding1 && ./finding1
//
// BORDERLINE (see findings.md): rtosc_avmessage() and an argument-value list that
// groups values in an array.  The arg-val form of "[1 2 3]" is the documented one
// (src/cpp/pretty-format.c:48:  ('a', <type>, <size>) arg1 ... argn), built here by hand
// with the public setters of rtosc/arg-ext.h.
#include <stdio.h>
#include <string.h>
#include <rtosc/rtosc.h>
#include <rtosc/arg-val.h>
#include <rtosc/arg-ext.h>

static void dump(const char *m, size_t l)
{
    for(size_t i = 0; i < l; ++i) {
        unsigned char c = m[i];
        if(c >= 32 && c < 127) printf("%c", c); else printf("\\%02x", c);
    }
    printf("\n");
}

int main(void)
{
    /* 7 [1 2 3] 9 */
    rtosc_arg_val_t av[6];
    memset(av, 0, sizeof av);
    av[0].type = 'i'; av[0].val.i = 7;
    av[1].type = 'a'; rtosc_av_arr_type_set(&av[1], 'i'); rtosc_av_arr_len_set(&av[1], 3);
    av[2].type = 'i'; av[2].val.i = 1;
    av[3].type = 'i'; av[3].val.i = 2;
    av[4].type = 'i'; av[4].val.i = 3;
    av[5].type = 'i'; av[5].val.i = 9;

    /* what the other two constructors produce for the same arguments */
    char want[64], got[64];
    rtosc_arg_t a[5] = {{.i = 7}, {.i = 1}, {.i = 2}, {.i = 3}, {.i = 9}};
    size_t wl = rtosc_amessage(want, sizeof want, "/x", "i[iii]i", a);
    size_t gl = rtosc_avmessage(got, sizeof got, "/x", 6, av);

    printf("expected (%2zu bytes): ", wl); dump(want, wl);
    printf("got      (%2zu bytes): ", gl); dump(got, gl);
    printf("expected type tags \"i[iii]i\" with 5 values; got type tags \"%s\", "
           "rtosc_narguments = %u\n", rtosc_argument_string(got), rtosc_narguments(got));

    int bad = 0;
    if(gl != wl || memcmp(want, got, wl)) bad = 1;
    /* 'a' is no OSC type tag, and the three elements are gone */
    if(strchr(rtosc_argument_string(got), 'a')) bad = 1;
    unsigned nvals = 0;
    for(rtosc_arg_itr_t it = rtosc_itr_begin(got); !rtosc_itr_end(it); rtosc_itr_next(&it)) ++nvals;
    printf("values yielded by the iterator: %u (5 were put in)\n", nvals);
    if(nvals != 5) bad = 1;
    puts(bad ? "FAIL: array elements lost, non-OSC type tag 'a' emitted" : "ok");
    return bad;
}
