// Conformance driver for C03 (realtime safety of the message path).
//   rt_driver <in.ndjson> <out.ndjson>
// Built WITHOUT sanitizers: this executable defines malloc/calloc/realloc/free/posix_memalign/
// aligned_alloc/memalign (and with them operator new/delete, which call malloc/free) and
// pthread_mutex_lock/trylock, pthread_rwlock_rdlock/wrlock, pthread_spin_lock, forwarding to
// glibc and counting while the thread-local "realtime section" flag is set.
// One input line = one process life (spec/RtSafety.tla): set-up (tables, links, argument arrays
// are built; deltas logged as "setup"), then realtime operations, each a real library call made
// inside rt(...): the record is [op, cls, calls, heap, lock].
//   {"k":"msg","addr":bytes,"args":[...]}          OscWireGen vector: build (amessage + varargs), measure, length, valid, read, itr, bundle
//   {"k":"msgrand","seed":s,"count":n}             seeded random messages (addresses <= 64, <= 40 tags, strings/blobs <= 40 bytes), same operations
//   {"k":"pat","name":bytes,"maxlen":n}            PathPatternGen vector: rtosc_match_path / rtosc_match over every address up to maxlen
//   {"k":"tree","table":T,"addrs":[bytes..]}       PortTreeGen vector: Ports::dispatch with / without location buffer
//   {"k":"app","ev":[{"op":"set"|"get",...}]}      AppGen script: app1 (real port-sugar callbacks, default reply/broadcast forwarding)
//   {"k":"app2"}                                    a fixed script on a second macro-built application with long port names, option names and string values
//   {"k":"link","maxmsg":..,"maxmessages":..,"ops":[{"o":..}]}   RtSafetyGen script on a real rtosc::ThreadLink
//   {"k":"control"}                                 operations that allocate / free / lock on purpose (must be rejected by the judge)
#include "app1.hpp"
#include "oscmsg.hpp"
#include "vjson.hpp"
#include <rtosc/ports.h>
#include <rtosc/rtosc.h>
#include <rtosc/thread-link.h>
#include <pthread.h>
#include <dlfcn.h>
#include <mutex>
#include <memory>
#include <csignal>
#include <csetjmp>
#include <unistd.h>
#include <fcntl.h>
using namespace rtosc;

// ------------------------------------------------------------------ the observers
static __thread int rt_on = 0;
static volatile long heap_ops = 0, lock_ops = 0, all_heap = 0, all_lock = 0;
extern "C" {
void *__libc_malloc(size_t); void __libc_free(void *); void *__libc_calloc(size_t, size_t); void *__libc_realloc(void *, size_t); void *__libc_memalign(size_t, size_t);
void *malloc(size_t n) { ++all_heap; if (rt_on) ++heap_ops; return __libc_malloc(n); }
void free(void *p) { if (p) ++all_heap; if (rt_on && p) ++heap_ops; __libc_free(p); }
void *calloc(size_t a, size_t b) { ++all_heap; if (rt_on) ++heap_ops; return __libc_calloc(a, b); }
void *realloc(void *p, size_t n) { ++all_heap; if (rt_on) ++heap_ops; return __libc_realloc(p, n); }
void *memalign(size_t a, size_t n) { ++all_heap; if (rt_on) ++heap_ops; return __libc_memalign(a, n); }
void *aligned_alloc(size_t a, size_t n) { ++all_heap; if (rt_on) ++heap_ops; return __libc_memalign(a, n); }
int posix_memalign(void **out, size_t a, size_t n) { ++all_heap; if (rt_on) ++heap_ops; void *p = __libc_memalign(a, n); if (!p) return 12; *out = p; return 0; }
typedef int (*lockfn)(void *);
static lockfn real_lock[6]; static const char *lock_names[6] = {"pthread_mutex_lock", "pthread_mutex_trylock", "pthread_rwlock_rdlock", "pthread_rwlock_wrlock", "pthread_spin_lock", "pthread_mutex_timedlock"};
static int resolving = 0;
static int locked(int which, void *m) { ++all_lock; if (rt_on) ++lock_ops;
    if (!real_lock[which]) { if (resolving) return 0; resolving = 1; real_lock[which] = (lockfn)dlsym(RTLD_NEXT, lock_names[which]); resolving = 0; if (!real_lock[which]) _exit(4); }
    return real_lock[which](m); }
int pthread_mutex_lock(pthread_mutex_t *m) { return locked(0, m); }
int pthread_mutex_trylock(pthread_mutex_t *m) { return locked(1, m); }
int pthread_rwlock_rdlock(pthread_rwlock_t *m) { return locked(2, m); }
int pthread_rwlock_wrlock(pthread_rwlock_t *m) { return locked(3, m); }
int pthread_spin_lock(pthread_spinlock_t *m) { return locked(4, (void *)m); }
}

struct Agg { char op[32]; char cls[40]; long calls, heap, lock; };
static Agg agg[4096]; static int nagg = 0; static bool merge = true;
static void record(const char *op, const char *cls, long dh, long dl) {
    if (merge) for (int i = 0; i < nagg; ++i) if (!strcmp(agg[i].op, op) && !strcmp(agg[i].cls, cls)) { agg[i].calls++; agg[i].heap += dh; agg[i].lock += dl; return; }
    if (nagg >= 4096) return;
    Agg &a = agg[nagg++]; snprintf(a.op, sizeof a.op, "%s", op); snprintf(a.cls, sizeof a.cls, "%s", cls); a.calls = 1; a.heap = dh; a.lock = dl;
}
// run f inside the realtime section; f returns the class of situation it met (a static string)
template <class F> static void rt(const char *op, F f) {
    long h0 = heap_ops, l0 = lock_ops; rt_on = 1; const char *cls = f(); rt_on = 0; record(op, cls, heap_ops - h0, lock_ops - l0);
}
static sigjmp_buf jmp; static volatile int armed = 0;
static void on_sig(int s) { rt_on = 0; if (armed) siglongjmp(jmp, s); _exit(3); }

// ------------------------------------------------------------------ messages and bundles
static void do_msg_am(const AMsg &am);
static void do_msg(const J &in) { do_msg_am(amsg_from_json(in)); }
static void do_msgrand(const J &in) { MsgGen g((uint64_t)in["seed"].num() * 2654435761u + 5); long n = (long)in["count"].num();
    for (long i = 0; i < n; ++i) do_msg_am(g.msg(1 + (unsigned)g.R(40), 1 + (unsigned)g.R(64), (unsigned)g.R(41), g.R(3) == 0)); }
static void do_msg_am(const AMsg &am) {
    std::string tags = am.tags(); std::vector<rtosc_arg_t> args = amsg_args(am); VaSlots va = amsg_va_slots(am);
    static char buf[1 << 16], buf2[1 << 16], bun[1 << 17]; size_t need = 0;
    rt("msg.measure", [&] { need = rtosc_amessage(nullptr, 0, am.addr.c_str(), tags.c_str(), args.data()); return need ? "fits" : "oversized"; });
    size_t n = 0;
    rt("msg.build", [&] { n = rtosc_amessage(buf, sizeof buf, am.addr.c_str(), tags.c_str(), args.data()); return n ? "fits" : "oversized"; });
    if (need > 4) { rt("msg.build", [&] { size_t k = rtosc_amessage(buf2, need - 4, am.addr.c_str(), tags.c_str(), args.data()); return k ? "fits" : "oversized"; });
                    rt("msg.measure", [&] { size_t k = rtosc_amessage(buf2, 3, am.addr.c_str(), tags.c_str(), args.data()); return k ? "fits" : "oversized"; }); }
    if (va.faithful) {
        rt("msg.vbuild", [&] { size_t k = call_vmessage(buf2, sizeof buf2, am.addr.c_str(), tags.c_str(), va.slots); return k ? "fits" : "oversized"; });
        if (need > 4) rt("msg.vbuild", [&] { size_t k = call_vmessage(buf2, need - 4, am.addr.c_str(), tags.c_str(), va.slots); return k ? "fits" : "oversized"; });
    }
    if (!n) return;
    rt("msg.length", [&] { volatile size_t k = rtosc_message_length(buf, n); (void)k; return "any"; });
    rt("msg.valid", [&] { volatile bool k = rtosc_valid_message_p(buf, n); (void)k; return "any"; });
    rt("msg.read", [&] { const char *ts = rtosc_argument_string(buf); unsigned na = rtosc_narguments(buf); volatile long acc = (long)strlen(ts);
        for (unsigned i = 0; i < na; ++i) { char t = rtosc_type(buf, i); rtosc_arg_t a = rtosc_argument(buf, i); acc += t + a.i; } return "any"; });
    rt("msg.itr", [&] { rtosc_arg_itr_t it = rtosc_itr_begin(buf); volatile long acc = 0; int guard = 0; while (!rtosc_itr_end(it) && guard++ < 4096) { rtosc_arg_val_t v = rtosc_itr_next(&it); acc += v.type; } return "any"; });
    size_t bn = 0;
    rt("bundle.build", [&] { bn = rtosc_bundle(bun, sizeof bun, 0x0102030405060708ull, 2, buf, buf); return bn ? "fits" : "oversized"; });
    rt("bundle.build", [&] { size_t k = rtosc_bundle(buf2, 16 + 4 + n, 1, 2, buf, buf); return k ? "fits" : "oversized"; });
    if (bn) rt("bundle.read", [&] { volatile long acc = rtosc_bundle_p(bun); size_t ne = rtosc_bundle_elements(bun, bn); acc += (long)rtosc_bundle_timetag(bun);
        for (size_t i = 0; i < ne; ++i) { const char *e = rtosc_bundle_fetch(bun, (unsigned)i); acc += (long)rtosc_bundle_size(bun, (unsigned)i) + e[0]; acc += (long)rtosc_message_length(e, bn); } return "any"; });
}

// ------------------------------------------------------------------ patterns
static void do_pat(const J &in) {
    static const char ALPHA[] = {'a', 'b', 'c', '0', '1', '2', '9', '/', '#', '{', '}'};
    std::string prefix = in["prefix"].s; std::string name = prefix + in["name"].text(); int maxlen = (int)in["maxlen"].num(); static char abuf[96]; snprintf(abuf, 80, "%s", prefix.c_str()); char *a = abuf + strlen(abuf); static char msgs[3][160]; int idx[8];
    for (int len = 0; len <= maxlen && len < 8; ++len) {
        for (int i = 0; i < len; ++i) idx[i] = 0;
        for (;;) {
            for (int i = 0; i < len; ++i) a[i] = ALPHA[idx[i]]; a[len] = 0;
            rt("match.path", [&] { const char *end = nullptr; return rtosc_match_path(name.c_str(), abuf, &end) ? "match" : "nomatch"; });
            if (len > 0) { size_t k0 = rtosc_message(msgs[0], 160, abuf, ""), k1 = rtosc_message(msgs[1], 160, abuf, "i", 1), k2 = rtosc_message(msgs[2], 160, abuf, "fs", 1.0, "x");
                if (k0 && k1 && k2) for (int t = 0; t < 3; ++t) rt("match.msg", [&] { return rtosc_match(name.c_str(), msgs[t], nullptr) ? "match" : "nomatch"; }); }
            int p = len - 1; while (p >= 0 && ++idx[p] == (int)sizeof ALPHA) { idx[p] = 0; --p; }
            if (p < 0) break;
        }
    }
}

// ------------------------------------------------------------------ port trees
struct RNode;
struct RInfo { RNode *child = nullptr; bool leaf = true, toggle = false, nullchild = false; };
struct DynPorts : Ports { DynPorts() : Ports({}) {} void finish() { refreshMagic(); } };
struct RNode { DynPorts ports; std::vector<std::unique_ptr<RInfo>> infos; std::vector<std::unique_ptr<RNode>> kids; std::vector<std::unique_ptr<std::string>> strs; bool any_enum = false, any_sub = false, dflt = false, hashed = false; };
static volatile long leaf_calls = 0, dflt_calls = 0; static int dummy_obj;
// Callbacks of a real application capture state: the functors below are larger than the small-object buffer of std::function (16 bytes
// in libstdc++), so that a COPY of a port callback or of the default handler anywhere on the dispatch path costs an allocation.
struct Fat { void *a, *b, *c, *d; };
static Fat fat_capture = {&fat_capture, nullptr, nullptr, nullptr};
static void r_leaf(RInfo *pi, const char *msg, RtData &d) { ++leaf_calls; if (pi->toggle && d.loc && !*rtosc_argument_string(msg)) d.reply(d.loc, "F"); }
static void r_sub(RInfo *pi, const char *msg, RtData &d) {
    if (pi->nullchild) return; d.obj = &dummy_obj;
    while (*msg && *msg != '/') ++msg; msg = *msg ? msg + 1 : msg; pi->child->ports.dispatch(msg, d, false);
}
static std::unique_ptr<RNode> build(const J &tb) {
    std::unique_ptr<RNode> n(new RNode); size_t np = tb["ports"].size();
    for (size_t k = 0; k < np; ++k) { const J &jp = tb["ports"][k]; std::unique_ptr<RInfo> pi(new RInfo);
        pi->leaf = jp["leaf"].b; pi->nullchild = jp["ptr"].s == "null";
        n->strs.emplace_back(new std::string(jp["name"].text())); const std::string &nm = *n->strs.back();
        n->strs.emplace_back(new std::string(jp["meta"].text())); const std::string &mt = *n->strs.back();
        pi->toggle = mt.find("toggle") != std::string::npos; if (nm.find('#') != std::string::npos) n->any_enum = true;
        if (!pi->leaf) { n->any_sub = true; n->kids.push_back(build(jp["sub"])); pi->child = n->kids.back().get(); }
        RInfo *p = pi.get(); Port port; port.name = nm.c_str(); port.metadata = mt.empty() ? nullptr : mt.data(); port.ports = p->leaf ? nullptr : &p->child->ports;
        Fat fat = fat_capture;
        if (p->leaf) port.cb = [p, fat](const char *m, RtData &d) { (void)fat; r_leaf(p, m, d); }; else port.cb = [p, fat](const char *m, RtData &d) { (void)fat; r_sub(p, m, d); };
        n->ports.ports.push_back(port); n->infos.push_back(std::move(pi)); }
    if (tb["dflt"].b) { n->dflt = true; Fat fat = fat_capture; n->ports.default_handler = [fat](const char *, RtData &) { (void)fat; ++dflt_calls; }; }
    // refreshMagic prints a diagnostic when no perfect hash exists: capture it to classify the table
    fflush(stderr); int saved = dup(2); char tmpl[] = "/tmp/vrtXXXXXX"; int fd = mkstemp(tmpl); dup2(fd, 2); close(fd);
    n->ports.finish();
    fflush(stderr); dup2(saved, 2); close(saved); std::string err; { FILE *f = fopen(tmpl, "r"); if (f) { char b[256]; size_t k; while ((k = fread(b, 1, sizeof b, f)) > 0) err.append(b, k); fclose(f); } unlink(tmpl); }
    n->hashed = !n->any_enum && np > 0 && err.find("Failed to generate minimal hash") == std::string::npos;
    return n;
}
static bool tree_any(const RNode *n, bool RNode::*f) { if (n->*f) return true; for (auto &k : n->kids) if (tree_any(k.get(), f)) return true; return false; }
struct Quiet : RtData { long n = 0; using RtData::reply; using RtData::broadcast; void reply(const char *) override { ++n; } void broadcast(const char *) override { ++n; } };
static void do_tree(const J &in) {
    std::unique_ptr<RNode> root = build(in["table"]);
    const char *kind = tree_any(root.get(), &RNode::dflt) ? "dflt" : tree_any(root.get(), &RNode::any_sub) ? "nested" : tree_any(root.get(), &RNode::any_enum) ? "enum" : root->hashed ? "hashed" : "flat";
    static const char *TAGS[3] = {"", "i", "f"}; static char cls[4][40]; const char *suffix[4] = {"match", "nomatch", "oversized", "alltags"};
    for (int i = 0; i < 4; ++i) snprintf(cls[i], 40, "%s/%s", kind, suffix[i]);
    std::vector<std::string> addrs; for (auto &a : in["addrs"].a) addrs.push_back("/" + a.text());
    std::vector<std::string> msgs; std::vector<int> mk;
    rtosc_arg_t all[16]; memset(all, 0, sizeof all); all[2].s = "str"; all[3].b.len = 3; all[3].b.data = (uint8_t *)"abc"; all[7].s = "sym";
    for (auto &a : addrs) { char b[2048];
        for (int t = 0; t < 3; ++t) { rtosc_arg_t x[1]; x[0].i = 1; if (t == 2) x[0].f = 1.5f; size_t k = rtosc_amessage(b, sizeof b, a.c_str(), TAGS[t], x); if (k) { msgs.emplace_back(b, k); mk.push_back(0); } }
        size_t k = rtosc_amessage(b, sizeof b, a.c_str(), "ifsbhtdScrmTFNI", all); if (k) { msgs.emplace_back(b, k); mk.push_back(3); } }
    { std::string lng = addrs.empty() ? "/x" : addrs[0]; while (lng.size() < 700) lng += "/abcdefghijklmnopqrstuvwxyz0123456789"; char b[2048]; size_t k = rtosc_message(b, sizeof b, lng.c_str(), "i", 1); if (k) { msgs.emplace_back(b, k); mk.push_back(2); } }
    static char loc[1024];
    for (size_t i = 0; i < msgs.size(); ++i) for (int withloc = 0; withloc < 2; ++withloc) {
        Quiet d; d.obj = &dummy_obj; if (withloc) { memset(loc, 0, sizeof loc); d.loc = loc; d.loc_size = sizeof loc; }
        const char *m = msgs[i].data(); int k = mk[i];
        rt(withloc ? "dispatch.loc" : "dispatch.noloc", [&] { long c0 = leaf_calls; root->ports.dispatch(m, d, true); return (const char *)cls[k ? k : (leaf_calls > c0 || d.matches > 0 ? 0 : 1)]; });
    }
}

// ------------------------------------------------------------------ the application built with the real macros
static void do_app(const J &in) {
    app1::App app; static char loc[1024];
    for (auto &op : in["ev"].a) { const std::string &k = op["op"].s; if (k != "set" && k != "get") continue;
        std::string addr = op["addr"].s; char m[512]; size_t n = 0;
        if (k == "get") n = rtosc_message(m, sizeof m, addr.c_str(), "");
        else { char t = op["ty"].s[0];
            if (t == 'i' || t == 'c') n = rtosc_message(m, sizeof m, addr.c_str(), op["ty"].s.c_str(), (int)op["v"].num());
            else if (t == 'f') n = rtosc_message(m, sizeof m, addr.c_str(), "f", (double)op["v"].num() / 4.0);
            else if (t == 'T' || t == 'F') n = rtosc_message(m, sizeof m, addr.c_str(), op["ty"].s.c_str());
            else { std::string s = op["v"].text(); n = rtosc_message(m, sizeof m, addr.c_str(), op["ty"].s.c_str(), s.c_str()); } }
        if (!n) continue;
        Quiet d; d.obj = &app; memset(loc, 0, sizeof loc); d.loc = loc; d.loc_size = sizeof loc;
        if (addr == "/palloc" || addr == "/fx_on") { app1::App::ports.dispatch(m, d, true); continue; }    // the APPLICATION's change callback allocates the sub-object: not library code
        rt(k == "set" ? "sugar.set" : "sugar.get", [&] { app1::App::ports.dispatch(m, d, true); return d.matches > 0 ? "match" : "nomatch"; });
    }
}


// ------------------------------------------------------------------ a second macro-built application: long names everywhere (port names, option names, string values
// beyond the 15-character small-string buffer) - the realistic way a std::string temporary turns into a heap allocation.  No value model is needed for C03.
namespace app2 {
struct Inner { int inner_integer_parameter_long = 1; float inner_float_parameter_long = 0.5f; static const rtosc::Ports ports; };
struct Big { int integer_parameter_with_a_long_name = 5; float float_parameter_with_a_rather_long_name = 0.5f; bool toggle_parameter_with_a_long_name = false; int option_parameter_with_long_names = 0;
    char string_parameter_with_long_contents[64]; char huge_string_whose_reply_exceeds_the_reply_buffer[9000]; char integer_array_with_a_long_name[4]; Inner subtree_with_a_really_long_name; Inner enumerated_subtrees_with_long_names[3];
    Big() { strcpy(string_parameter_with_long_contents, "initial"); strcpy(huge_string_whose_reply_exceeds_the_reply_buffer, "h"); memset(integer_array_with_a_long_name, 1, 4); }
    static const rtosc::Ports ports; };
#define rObject Inner
inline const rtosc::Ports Inner::ports = {
    rParamI(inner_integer_parameter_long, rLinear(0, 50), rDefault(1), "inner int"),
    rParamF(inner_float_parameter_long, rLinear(-4, 4), rDefault(0.5), "inner float"),
};
#undef rObject
#define rObject Big
#undef rChangeCb
#define rChangeCb
inline const rtosc::Ports Big::ports = {
    rParamI(integer_parameter_with_a_long_name, rLinear(-10, 1000), rDefault(5), "an integer parameter whose documentation string is also fairly long"),
    rParamF(float_parameter_with_a_rather_long_name, rLinear(-2.5, 10.25), rDefault(0.5), "float"),
    rToggle(toggle_parameter_with_a_long_name, rDefault(false), "toggle"),
    rOption(option_parameter_with_long_names, rOptions(the_first_option_with_a_long_name, the_second_option_with_a_long_name, third), rDefault(third), "option"),
    rString(string_parameter_with_long_contents, 64, rDefault("initial"), "string"),
    rString(huge_string_whose_reply_exceeds_the_reply_buffer, 9000, rDefault("h"), "a string whose reply / broadcast does not fit RtData's 8192-byte buffer"),
    rArrayI(integer_array_with_a_long_name, 4, rLinear(0, 100), rDefault([1 1 1 1]), "array"),
    rRecur(subtree_with_a_really_long_name, "member sub-tree"),
    rRecurs(enumerated_subtrees_with_long_names, 3, "enumerated sub-trees"),
};
#undef rObject
}
static void do_app2() {
    app2::Big app; static char loc[1024]; static char m[1024];
    const char *I[] = {"/integer_parameter_with_a_long_name", "/integer_array_with_a_long_name2", "/subtree_with_a_really_long_name/inner_integer_parameter_long", "/enumerated_subtrees_with_long_names2/inner_integer_parameter_long",
                       "/option_parameter_with_long_names", "/an_address_that_is_long_but_names_no_port_at_all", "/subtree_with_a_really_long_name/no_such_port_below_the_subtree"};
    const char *F[] = {"/float_parameter_with_a_rather_long_name", "/subtree_with_a_really_long_name/inner_float_parameter_long", "/enumerated_subtrees_with_long_names0/inner_float_parameter_long"};
    const char *S[] = {"/string_parameter_with_long_contents", "/option_parameter_with_long_names"};
    const char *SV[] = {"", "short", "exactly15chars_", "sixteen_chars_16", "the_second_option_with_a_long_name", "the_first_option_with_a_long_name", "a string value that is much longer than any small string buffer, sixty-one.", "no_such_option_but_a_long_name"};
    auto go = [&](const char *op, size_t n) { if (!n) return; Quiet d; d.obj = &app; memset(loc, 0, sizeof loc); d.loc = loc; d.loc_size = sizeof loc;
        rt(op, [&] { app2::Big::ports.dispatch(m, d, true); return d.matches > 0 ? "match" : "nomatch"; }); };
    for (const char *a : I) { for (int v : {-50, 0, 1, 2, 7, 5000}) { go("sugar.set", rtosc_message(m, sizeof m, a, "i", v)); go("sugar.get", rtosc_message(m, sizeof m, a, "")); } go("sugar.set", rtosc_message(m, sizeof m, a, "f", 1.5)); }
    for (const char *a : F) { for (double v : {-100.0, 0.25, 3.5, 100.0}) { go("sugar.set", rtosc_message(m, sizeof m, a, "f", v)); go("sugar.get", rtosc_message(m, sizeof m, a, "")); } go("sugar.set", rtosc_message(m, sizeof m, a, "i", 1)); }
    for (const char *a : S) for (const char *v : SV) { go("sugar.set", rtosc_message(m, sizeof m, a, "s", v)); go("sugar.get", rtosc_message(m, sizeof m, a, "")); go("sugar.set", rtosc_message(m, sizeof m, a, "S", v)); }
    { static char hm[16384]; static char hv[8700]; memset(hv, 'z', sizeof hv - 1); hv[sizeof hv - 1] = 0;      // replies and broadcasts larger than the 8192-byte formatting buffer
      auto goh = [&](const char *op, size_t n) { if (!n) return; Quiet d; d.obj = &app; memset(loc, 0, sizeof loc); d.loc = loc; d.loc_size = sizeof loc;
          rt(op, [&] { app2::Big::ports.dispatch(hm, d, true); return d.matches > 0 ? "match" : "nomatch"; }); };
      goh("sugar.set", rtosc_message(hm, sizeof hm, "/huge_string_whose_reply_exceeds_the_reply_buffer", "s", hv));
      goh("sugar.get", rtosc_message(hm, sizeof hm, "/huge_string_whose_reply_exceeds_the_reply_buffer", "")); }
    for (const char *t : {"T", "F"}) { go("sugar.set", rtosc_message(m, sizeof m, "/toggle_parameter_with_a_long_name", t)); go("sugar.get", rtosc_message(m, sizeof m, "/toggle_parameter_with_a_long_name", "")); }
}

// ------------------------------------------------------------------ ThreadLink
struct LinkKit { size_t maxmsg, maxmessages; std::string big, over; char small_msg[64], large_msg[256]; rtosc_arg_t ai[1], ab[1], ao[1];
    LinkKit(const J &in) : maxmsg((size_t)in["maxmsg"].num()), maxmessages((size_t)in["maxmessages"].num()), big(maxmsg - 9, 'x'), over(maxmsg + 19, 'y') {
        rtosc_message(small_msg, sizeof small_msg, "/a", "i", 1); rtosc_message(large_msg, sizeof large_msg, "/a", "s", big.c_str());
        ai[0].i = 1; ab[0].s = big.c_str(); ao[0].s = over.c_str(); }
    void apply(ThreadLink &t, const std::string &k) {      // the effect of one script step on the read queue (outside the realtime section)
        if (k == "ws") t.write("/a", "i", 1); else if (k == "wl") t.write("/a", "s", big.c_str()); else if (k == "wo") t.write("/a", "s", over.c_str());
        else if (k == "as") t.writeArray("/a", "i", ai); else if (k == "al") t.writeArray("/a", "s", ab); else if (k == "ao") t.writeArray("/a", "s", ao);
        else if (k == "rs") t.raw_write(small_msg); else if (k == "rl") t.raw_write(large_msg); else if (k == "r") t.read(); }
    // number of messages readable after the first j steps: a fresh link is driven through the prefix and drained (ThreadLink has no size query)
    long queued_after(const J &ops, size_t j, long pre) { ThreadLink t(maxmsg, maxmessages); for (long i = 0; i < pre; ++i) { t.write("/a", "i", 1); if (t.hasNext()) t.read(); } for (size_t i = 0; i < j; ++i) apply(t, ops[i]["o"].s); long n = 0; while (t.hasNext() && n < 1000) { t.read(); ++n; } return n; }
};
static void do_link(const J &in) {
    LinkKit kit(in); ThreadLink tl(kit.maxmsg, kit.maxmessages); merge = false; const J &ops = in["ops"];
    for (long i = 0; i < (long)in["pre"].num(); ++i) { tl.write("/a", "i", 1); if (tl.hasNext()) tl.read(); }     // set-up: move the ring offsets
    for (size_t i = 0; i < ops.size(); ++i) { const std::string &k = ops[i]["o"].s; int first = nagg;
        if (k == "ws") rt("link.write", [&] { tl.write("/a", "i", 1); return ""; });
        else if (k == "wl") rt("link.write", [&] { tl.write("/a", "s", kit.big.c_str()); return ""; });
        else if (k == "wo") rt("link.write", [&] { tl.write("/a", "s", kit.over.c_str()); return ""; });
        else if (k == "as") rt("link.writeArray", [&] { tl.writeArray("/a", "i", kit.ai); return ""; });
        else if (k == "al") rt("link.writeArray", [&] { tl.writeArray("/a", "s", kit.ab); return ""; });
        else if (k == "ao") rt("link.writeArray", [&] { tl.writeArray("/a", "s", kit.ao); return ""; });
        else if (k == "rs") rt("link.raw_write", [&] { tl.raw_write(kit.small_msg); return ""; });
        else if (k == "rl") rt("link.raw_write", [&] { tl.raw_write(kit.large_msg); return ""; });
        else if (k == "r") rt("link.read", [&] { const char *m = tl.read(); return m && m[0] == '/' ? "nonempty" : "garbage"; });
        else if (k == "R") rt("link.readLookahead", [&] { const char *m = tl.read_lookahead(); return m && m[0] == '/' ? "nonempty" : "garbage"; });
        else if (k == "p") rt("link.peak", [&] { volatile const char *m = tl.peak(); (void)m; return "any"; });
        else if (k == "h") rt("link.hasNext", [&] { return tl.hasNext() ? "nonempty" : "empty"; });
        else if (k == "H") rt("link.hasNextLookahead", [&] { return tl.hasNextLookahead() ? "nonempty" : "empty"; });
        bool is_write = k[0] == 'w' || k[0] == 'a' || (k[0] == 'r' && k.size() == 2);
        if (is_write && nagg == first + 1) { long pre = (long)in["pre"].num(); long before = kit.queued_after(ops, i, pre), after = kit.queued_after(ops, i + 1, pre);
            snprintf(agg[first].cls, sizeof agg[first].cls, "%s", k[1] == 'o' ? (after == before ? "oversized" : "stored_oversized") : after == before + 1 ? "fits" : "full"); }
    }
}

// ------------------------------------------------------------------ controls
static void do_control() {
    static std::mutex mu; static char *keep = nullptr; merge = false;
    rt("control.alloc", [&] { keep = new char[100]; keep[0] = 1; return "any"; });
    rt("control.free", [&] { delete[] keep; return "any"; });
    rt("control.lock", [&] { mu.lock(); mu.unlock(); return "any"; });
    rt("msg.length", [&] { return "any"; });     // a quiet step in between: must not be rejected
}

int main(int argc, char **argv) {
    for (int i = 0; i < 5; ++i) real_lock[i] = (lockfn)dlsym(RTLD_NEXT, lock_names[i]);
    if (argc < 3) return 2; FILE *f = fopen(argv[1], "r"); FILE *out = fopen(argv[2], "w"); if (!f || !out) return 2;
    struct sigaction sa; memset(&sa, 0, sizeof sa); sa.sa_handler = on_sig; sa.sa_flags = SA_NODEFER; for (int s : {SIGSEGV, SIGBUS, SIGFPE, SIGILL, SIGABRT, SIGALRM}) sigaction(s, &sa, nullptr);
    std::string line; long lineno = 0;
    while (read_line(f, line)) { if (line.empty()) continue; ++lineno; J in = jparse(line); const std::string &k = in["k"].s;
        nagg = 0; merge = true; long h0 = heap_ops, l0 = lock_ops, ah0 = all_heap, al0 = all_lock; int sig = 0;
        armed = 1; alarm(60);
        if ((sig = sigsetjmp(jmp, 1)) == 0) {
            if (k == "msg") do_msg(in); else if (k == "msgrand") do_msgrand(in); else if (k == "pat") do_pat(in); else if (k == "tree") do_tree(in); else if (k == "app") do_app(in); else if (k == "app2") do_app2();
            else if (k == "link") do_link(in); else if (k == "control") do_control();
        }
        alarm(0); armed = 0; rt_on = 0;
        JW w; w.obj().kstr("k", k).knum("line", lineno).knum("sig", sig).key("setup").obj().knum("heap", (all_heap - ah0) - (heap_ops - h0)).knum("lock", (all_lock - al0) - (lock_ops - l0)).end_obj();
        if (k == "link") { w.key("ops").arr(); for (auto &o : in["ops"].a) w.obj().kstr("o", o["o"].s).kstr("op", o["op"].s).kstr("cls", o["cls"].s).end_obj(); w.end_arr(); }
        w.key("rt").arr(); for (int i = 0; i < nagg; ++i) w.obj().kstr("op", agg[i].op).kstr("cls", agg[i].cls).knum("calls", agg[i].calls).knum("heap", agg[i].heap).knum("lock", agg[i].lock).end_obj(); w.end_arr().end_obj();
        fprintf(out, "%s\n", w.s.c_str());
    }
    fclose(out); return 0;
}
