"""C05 - path-pattern matching follows the documented pattern language.
PathPattern.tla defines a pattern's language set-theoretically; PathPatternGen enumerates
the grammar (BFS); for each pattern the driver sweeps EVERY address over an 11-symbol
alphabet up to a length bound (x 9 type strings) through the real matcher and
PathPatternTrace compares the accepted set with the language; seeded random larger patterns
with mutated addresses are judged point-wise."""
import json, os
from vlib import core


def name_of(r):
    return bytes(r["name"]).decode("latin1")


def alt_prefix_order(pat):
    """some alternative list contains an alternative that is a proper prefix of a LATER one"""
    for g in pat["segs"]:
        if g["k"] == "alt":
            o = g["order"]
            for i in range(len(o)):
                for j in range(i + 1, len(o)):
                    if len(o[i]) < len(o[j]) and o[j][:len(o[i])] == o[i]:
                        return True
    return False


def judge(ctx, log_path, maxlen):
    rej = ctx.validate("PathPatternTrace", "PathPatternTrace.cfg", log_path, env={"MAXLEN": maxlen})
    recs = ctx.read_ndjson(log_path)
    for line, clauses in sorted(rej.items()):
        r = recs[line - 1]
        for c in clauses:
            sig = dict(clause=c, kind=r["k"], pattern=name_of(r), alt_prefix_order=alt_prefix_order(r["pat"]))
            case = dict(k=r["k"], pat=r["pat"], name=r["name"], maxlen=maxlen)
            what = "clause %s fails for pattern '%s'" % (c, name_of(r))
            if r["k"] == "point":
                case.update(addr=r["addr"], tags=r["tags"])
                what += " address '%s' tags '%s' (path %s, full %s)" % (bytes(r["addr"]).decode("latin1"), bytes(r["tags"]).decode("latin1"), r["path_res"], r["full_res"])
            ctx.reject(sig, case, what)
    return recs


def sweep(ctx, vec, maxlen, tag):
    inp = ctx.write_ndjson("pat_%s.ndjson" % tag, vec)
    raw = ctx.path("sweep_%s.raw" % tag)
    ctx.driver("pattern_driver", "asan", ["sweep", inp, maxlen, raw])
    obs = ctx.read_ndjson(raw)
    if len(obs) != len(vec):
        raise core.Broken("pattern driver judged %d of %d patterns" % (len(obs), len(vec)))
    for o, v in zip(obs, vec):
        o["pat"] = v["pat"]
    p = ctx.write_ndjson("sweep_%s.ndjson" % tag, obs)
    os.remove(raw)
    nstr = sum(11 ** k for k in range(maxlen + 1))
    ctx.evaluations += len(vec) * nstr * 10
    for o in obs:
        ctx.nontrivial.add(name_of(o))
    return p


def run(ctx):
    ctx.rule = ("every pattern of PathPatternGen (<= MaxSegs segments over literals {a,b,ab,aa,a/b}, #N for N in {1,2,10,12}, 5 alternative lists incl. "
                "prefix-related ones in both orders; optional trailing '/', 5 type specs) x every address over {a,b,c,0,1,2,9,/,#,{,}} up to MAXLEN "
                "x 9 type strings; plus random larger patterns x mutated members; evaluations = matcher calls; non-trivial = distinct pattern")
    ctx.assumptions = ["the '*' wildcard of the code is not part of the documented grammar and is not generated",
                       "literals never start with a digit after an enumeration and two enumerations are never adjacent (ambiguous in the grammar)"]
    if ctx.replay:
        case = json.load(open(ctx.replay))["case"]
        if case["k"] == "sweep":
            p = sweep(ctx, [dict(name=case["name"], pat=case["pat"])], case["maxlen"], "replay")
            judge(ctx, p, case["maxlen"])
        else:
            raise core.Broken("point cases are replayed through the random mode with the recorded seed (see evidence)")
        return
    thorough = ctx.tier == "thorough"
    vec, r = ctx.vectors("PathPatternGen", "PathPatternGen_3.cfg" if thorough else "PathPatternGen_2.cfg", "pat")
    maxlen = 4
    ctx.bounds = dict(max_segments=3 if thorough else 2, patterns=len(vec), address_maxlen=maxlen, alphabet=11, type_strings=9)
    ctx.exhaustive = True
    p = sweep(ctx, vec, maxlen, "A")
    recs = judge(ctx, p, maxlen)
    if thorough:    # a smaller pattern set against the longer universe (11^5 addresses)
        vec2, _ = ctx.vectors("PathPatternGen", "PathPatternGen_2.cfg", "pat2")
        p2 = sweep(ctx, vec2, 5, "A5")
        judge(ctx, p2, 5)
        ctx.bounds["second_sweep"] = dict(max_segments=2, address_maxlen=5, patterns=len(vec2))
    nrand = 60000 if thorough else 6000
    ctx.driver("pattern_driver", "asan", ["random", ctx.seed, nrand, ctx.path("point.ndjson")])
    pr = judge(ctx, ctx.path("point.ndjson"), 1)
    ctx.evaluations += 2 * len(pr)
    for r in pr:
        ctx.nontrivial.add(name_of(r))
    ctx.notes["random_point_records"] = len(pr)
    ctx.sample(dict(pattern=name_of(recs[len(recs) // 2]), matched=[bytes(a).decode("latin1") for a in recs[len(recs) // 2]["matched"][:8]]))
    ctx.sample(dict(pattern=name_of(pr[-1]), address=bytes(pr[-1]["addr"]).decode("latin1"), tags=bytes(pr[-1]["tags"]).decode("latin1"), path=pr[-1]["path_res"], full=pr[-1]["full_res"]))
