#!/usr/bin/env python3
"""Regenerates MANIFEST.json from the table below (single source of truth)."""
import json, os
V = os.path.dirname(os.path.dirname(os.path.abspath(__file__)))
HOOK_COMMITS = ["8a4f2d3"]
CHECKS = {
 "C01": dict(engine="tlc+replay+tracecheck", technique="TLA+ wire specification (OscWire.tla) model-checked by TLC; TLC-enumerated messages replayed into the real constructors/accessors; recorded observations trace-validated by TLC",
    text="OscWire.tla transcribes the OSC 1.0 wire rules; TLC checks Size=Len(Encode), 4-alignment and Decode(Encode(m))=m on every message of the generator (all type strings up to length 3 over the 17 symbols, boundary values, all address lengths mod 4) and emits each as a vector; the three real constructors and all accessors run on every vector and on seeded random messages (<=40 tags, <=64-byte addresses) in an ASan build, and TLC judges every logged observation against the specification",
    note="bounded: exhaustive to depth 3, random beyond; x86-64 SysV va_list for run-time varargs; signalling-NaN floats not passed through C varargs", ref="DESIGN.md 4 C01"),
 "C02": dict(engine="tlc+replay+tracecheck", technique="TLA+ wire specification; TLC-enumerated messages and bundles replayed into the real constructors at every capacity 0..needed+8; per-capacity observations trace-validated by TLC",
    text="for every message/bundle TLC enumerates (and seeded random ones) the real rtosc_amessage / rtosc_vmessage / rtosc_avmessage / rtosc_bundle are called with a destination of every capacity from 0 to needed+8 (exact-size heap block, 8 guard bytes, ASan red zones); OscWireTrace judges each capacity: fits => exact size and the specification's image, does not fit => 0 and an all-zero buffer, guard untouched, no ASan report; NULL-buffer size query equals Size()",
    note="bounded input space as C01/C08; the internal fixed buffers of ThreadLink::write and RtData::reply are exercised through the same rtosc_vmessage", ref="DESIGN.md 4 C02"),
 "C08": dict(engine="tlc+replay+tracecheck", technique="TLA+ bundle layout specification model-checked by TLC (decomposition inverts composition); enumerated and random bundles replayed into rtosc_bundle and the element API; observations trace-validated by TLC",
    text="OscWire.tla defines EncBundle and the element walk from the layout rules; TLC checks on every generated bundle (0..3 elements from a message pool and nested bundles) that decomposition inverts composition, sizes, time tag, total length, and that no message is taken for a bundle; the real rtosc_bundle / bundle_p / elements / fetch / size / timetag / message_length run on each and on seeded random bundles (0..8 elements, nesting 0..4, random time tags) and TLC judges the observations",
    note="a bundle used as an element is followed by one zero word (the element API takes no length); variadic rtosc_bundle driven with 0..8 elements", ref="DESIGN.md 4 C08"),
 "C07": dict(engine="tlc+replay+tracecheck", technique="TLA+ decoder (OscWire.tla) as the independent OSC decoder; TLC enumerates mutated/small byte strings (OscMutate.tla); real validator and accessors run on each under ASan; observations trace-validated by TLC",
    text="TLC enumerates byte strings (all 1- and 2-step mutations of a pool of well-formed messages: truncation at every offset, every byte to boundary values, aligned words to extreme lengths, word insert/delete; every buffer up to length 8 over a small alphabet; every tail behind a fixed header) and the driver adds seeded structure-aware random mutants up to 512 bytes; each buffer is placed in an exact-size heap block against ASan's red zone; TLC judges no out-of-bounds read, termination, length in {0} u 1..n, and for accepted buffers decodability by the specification's decoder and equality of every accessor result with it",
    note="bounded enumeration + random mutation; ASan decides out-of-bounds reads; 2 s watchdog decides termination; padding content is not compared (lenient reference decoder)", ref="DESIGN.md 4 C07"),
 "C06": dict(engine="tlc+replay+tracecheck", technique="TLA+ specification of the ring with one action per shared access (ThreadLink.tla), exhaustively model-checked by TLC with specification mutants; TLC behaviours forced on the real ThreadLink through guarded hook points (coroutine scheduler); recorded API histories (coroutine schedules and two real threads) trace-validated by TLC with interleaving search",
    text="TLC visits every interleaving of writer and reader at the granularity of individual shared accesses for a small ring (quick: 6 cells, 4 writes incl. oversized, 4 polls incl. lookahead; thorough: 8 cells, 5 writes, 6 polls) and checks Fifo, LaFifo, HasNextExact, NoOverlap, Bounds; four specification mutants must violate the property invariants. Behaviours simulated by TLC are replayed into the real rtosc::ThreadLink: the hook before each shared access yields to a scheduler that follows the behaviour, and hook structure plus hasNext/read results are compared after every operation. API-level histories of random schedules on rings of 4..16 words and of two free-running OS threads (ticket-ordered) must be explainable by some interleaving of the specification",
    note="sequential consistency (the code's seq_cst atomics); chunk-atomic copies justified by the NoOverlap invariant; weaker memory orders outside the model; a hook-structure mismatch degrades the replay to history validation and is reported, not failed", ref="DESIGN.md 4 C06"),
 "C05": dict(engine="tlc+replay+tracecheck", technique="TLA+ set-theoretic definition of the pattern language (PathPattern.tla); TLC enumerates the pattern grammar; each pattern swept over every address up to a length bound through the real matcher; accepted sets and random point results trace-validated by TLC",
    text="PathPattern.tla defines the language of a pattern (literals, #N with maximal digit runs < N, {alternatives}, trailing '/', ':types' with the must/must-not/either rule) without any cursor; TLC enumerates every pattern up to 2 (thorough: 3) segments incl. prefix-related alternatives; for each pattern rtosc_match_path runs on EVERY address over an 11-symbol alphabet up to length 4 (thorough also 5) and rtosc_match on 9 type strings (ASan build, exact-size buffers); TLC compares the accepted sets with the language; seeded random larger patterns (<=6 segments, N up to 1e8, leading zeros, mutated members) are judged point-wise",
    note="bounded small scope + random; '*' wildcard and digit runs longer than 9 are outside the stated domain and not judged", ref="DESIGN.md 4 C05"),
}
NOT_APPLICABLE = []
def main():
    checks = []
    for pid in sorted(CHECKS):
        c = CHECKS[pid]
        checks.append(dict(property_id=pid, quick_cmd="python3 bin/check %s quick" % pid, thorough_cmd="python3 bin/check %s thorough" % pid,
            evidence_file="evidence/%s.json" % pid, replay_cmd_template="python3 bin/check %s --replay {path}" % pid, engine=c["engine"],
            level_claimed=dict(category=c.get("category", "model_checking"), text=c["text"], design_ref=c["ref"]), level_note=c["note"], technique=c["technique"]))
    props = [json.loads(l)["id"] for l in open(os.path.join(V, "properties.jsonl"))]
    na = [x for x in NOT_APPLICABLE]
    listed = set(CHECKS) | {x["property_id"] for x in na}
    for p in props:
        if p not in listed:
            na.append(dict(property_id=p, reason="check not built yet in this revision of /verif (planned: see DESIGN.md section 4 %s); not claimed until its quick command runs green" % p))
    m = dict(version=1, setup_cmd="python3 bin/setup.py",
        hooks=dict(guard="RTOSC_VERIF", enable="compile /repo sources with -DRTOSC_VERIF (vlib/build.py variant 'hooks'); only src/cpp/thread-link.cpp contains guarded code",
                   baseline_off_cmd="cmake -G Ninja -S /repo -B /repo/_build -DCMAKE_BUILD_TYPE=RelWithDebInfo && cmake --build /repo/_build && ctest --test-dir /repo/_build -j8 --timeout 900",
                   source_commits=HOOK_COMMITS, add_only=True),
        engines=[dict(name="tlc", path="spec/", serves_properties=sorted(CHECKS), kind_free_text="TLA+ specifications checked by TLC 1.8 (laws, generators, trace validation)"),
                 dict(name="drivers", path="harness/", serves_properties=sorted(CHECKS), kind_free_text="C++ conformance drivers linked against objects compiled from /repo's working tree (vlib/build.py)")],
        checks=checks, not_applicable=na,
        notes="bin/check <ID> quick|thorough [--replay path]; exit 0 held / 1 VIOLATION / 2 broken check. Known findings: known_findings.json. RTOSC_SRC overrides the source tree (used by bin/selftest on scratch copies).")
    json.dump(m, open(os.path.join(V, "MANIFEST.json"), "w"), indent=1)
if __name__ == "__main__":
    main()
