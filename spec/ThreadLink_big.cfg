CONSTANTS N = 8  Lens = {0, 2, 3, 4}  K = 5  P = 6  Bug = "none"
SPECIFICATION Spec
INVARIANT Fifo LaFifo HasNextExact NoOverlap Bounds
VIEW View
CHECK_DEADLOCK FALSE
