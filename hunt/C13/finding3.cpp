// g++ -std=c++11 -I/tmp/wt/C13_h/include finding3.cpp /tmp/wt/C13_h/_build/librtosc-cpp.a /tmp/wt/C13_h/_build/librtosc.a -o finding3 && ./finding3
//
// C13 finding 3: rDepends(a, b) expands to "a,b," (with a trailing comma, see
// test/default-value.cpp "rDepends (2)"). scan_deps() treats the empty name behind
// the last comma as one more dependency: the directory of the port ("/filter/").
// That "port" has no message, so scan_deps() recurses into it, finds the subtree
// port "filter/" and resolves *its* dependencies one level too deep
// ("/filter/type" instead of "/type"). Result: false edges (a message becomes its
// own predecessor and is silently dropped) or an endless recursion.
#include <rtosc/ports.h>
#include <rtosc/port-sugar.h>
#include <rtosc/savefile.h>
#include <cstdio>
#include <cstring>
#include <string>
#include <unistd.h>
#include <sys/wait.h>
using namespace rtosc;

static bool rw(const char* m, RtData& d, int& ref)
{
    if(*rtosc_argument_string(m)) { ref = rtosc_argument(m, 0).i; return true; }
    d.reply(d.loc, "i", ref); return false;
}

struct Filter
{
    int category = 0, type = 0, cutoff = 64, q = 1;
    static const Ports ports;
};
const Ports Filter::ports = {
    {"category::i", rProp(parameter) rDefault(0), NULL,
        [](const char* m, RtData& d) { Filter* o = (Filter*)d.obj; if(rw(m, d, o->category)) o->type = 0; }},
    // a new category resets the type, a new type resets the cutoff
    {"type::i", rProp(parameter) rDefault(0) rDepends(category), NULL,
        [](const char* m, RtData& d) { Filter* o = (Filter*)d.obj; if(rw(m, d, o->type)) o->cutoff = 64; }},
    {"cutoff::i", rProp(parameter) rDefault(64) rDepends(type), NULL,
        [](const char* m, RtData& d) { rw(m, d, ((Filter*)d.obj)->cutoff); }},
    {"q::i", rProp(parameter) rDefault(1), NULL,
        [](const char* m, RtData& d) { rw(m, d, ((Filter*)d.obj)->q); }},
};
struct Synth
{
    int type = 1; // 0 = no filter, else: where the filter sits
    Filter filter;
    static const Ports ports;
};
#define rObject Synth
const Ports Synth::ports = {
    rRecur(filter, rEnabledBy(type), "filter, present unless type is 0"),
    {"type::i", rProp(parameter) rDefault(1), NULL,
        [](const char* m, RtData& d) { rw(m, d, ((Synth*)d.obj)->type); }},
};
#undef rObject

// load in a child process, so that a crash can be reported
static std::string load(const char* file)
{
    int fd[2]; if(pipe(fd)) return "pipe failed";
    fflush(stdout);
    pid_t pid = fork();
    if(pid == 0) {
        close(fd[0]);
        alarm(20);
        Synth s;
        int r = dispatch_printed_messages(file, Synth::ports, &s);
        char buf[256];
        snprintf(buf, sizeof buf, "%d messages, filter: category=%d type=%d cutoff=%d q=%d",
                 r, s.filter.category, s.filter.type, s.filter.cutoff, s.filter.q);
        (void)!write(fd[1], buf, strlen(buf));
        _exit(0);
    }
    close(fd[1]);
    char buf[512]; ssize_t n = read(fd[0], buf, sizeof buf - 1); buf[n > 0 ? n : 0] = 0; close(fd[0]);
    int st; waitpid(pid, &st, 0);
    if(WIFSIGNALED(st)) return "killed by signal " + std::to_string(WTERMSIG(st)) + (WTERMSIG(st) == SIGSEGV ? " (SIGSEGV: stack overflow in scan_deps)" : "");
    return buf;
}

int main()
{
    int rc = 0;
    {
        Synth saved; saved.filter.type = 2; saved.filter.cutoff = 40; saved.filter.q = 3;
        std::set<std::string> w;
        printf("savefile written by the library for type=2 cutoff=40 q=3:\n%s\n", get_changed_values(Synth::ports, &saved, w, {}).c_str());
    }
    const char* exp1 = "2 messages, filter: category=0 type=2 cutoff=40 q=1";
    const char* files1[2] = { "/filter/type 2\n/filter/cutoff 40\n", "/filter/cutoff 40\n/filter/type 2\n" };
    puts("(a) '/filter/type 2' + '/filter/cutoff 40' (an assertion stops this case if the library is built without NDEBUG)");
    printf("    expected, both orders: %s\n", exp1);
    for(const char* f : files1) {
        std::string got = load(f);
        printf("    got                  : %s\n", got.c_str());
        if(got != exp1) rc = 1;
    }
    const char* exp2 = "2 messages, filter: category=0 type=0 cutoff=40 q=3";
    const char* files2[2] = { "/filter/cutoff 40\n/filter/q 3\n", "/filter/q 3\n/filter/cutoff 40\n" };
    puts("(b) '/filter/cutoff 40' + '/filter/q 3' (the depended-on '/filter/type' is absent)");
    printf("    expected, both orders: %s\n", exp2);
    for(const char* f : files2) {
        std::string got = load(f);
        printf("    got                  : %s\n", got.c_str());
        if(got != exp2) rc = 1;
    }
    if(rc) puts("=> FAIL");
    return rc;
}
