// build: c++ -std=c++17 -I../include finding4.cpp ../_build/librtosc-cpp.a ../_build/librtosc.a -o finding4
//
// C09 / walk_ports with a runtime object: a sub-tree that disables itself
// (rSelf(..., rEnabledBy(enabled))) is skipped, but its enabling port is still
// handed to the walker (documented in port_is_enabled). The walker's third
// argument ("the part of the location which makes up the port", ports.h) then
// points 3 bytes too far: into the middle of the port's name, or - for names
// shorter than 3 characters - behind the string's terminator, into
// uninitialised stack memory.
#include <rtosc/ports.h>
#include <rtosc/port-sugar.h>
#include <cstdio>
#include <cstring>
#include <string>
using namespace rtosc;

struct Child {
    bool enabled = false;
    bool on = false;
    int  x = 0;
    static const Ports ports;
};
struct Child2 : Child { static const Ports ports; };
#define rObject Child
const Ports Child::ports = {
    rSelf(Child, rEnabledBy(enabled)),
    rToggle(enabled, "enables this sub-tree"),
    rParamI(x, "some parameter"),
};
const Ports Child2::ports = {
    rSelf(Child2, rEnabledBy(on)),
    rToggle(on, "enables this sub-tree"),
    rParamI(x, "some parameter"),
};
#undef rObject

struct Parent {
    Child  sub;
    Child2 two;
    static const Ports ports;
};
#define rObject Parent
const Ports Parent::ports = {
    rRecur(sub, "a sub-tree"),
    rRecur(two, "another sub-tree"),
};
#undef rObject

static int bad = 0;
static void walker(const Port* port, const char* name, const char* old_end,
                   const Ports&, void*, void*)
{
    // expected: old_end is the tail of the address that names the port
    std::string pname(port->name, strcspn(port->name, ":"));
    // (do not print old_end when it is wrong: it may be unterminated garbage)
    size_t n = strlen(name);
    bool tail_ok = n >= pname.size() && pname == name + n - pname.size();
    bool ok = tail_ok && !strcmp(old_end, pname.c_str());
    printf("%-14s port \"%s\": expected 3rd argument \"%s\", got %s\n", name, port->name,
           pname.c_str(), ok ? "that" : !memchr(old_end, 0, 16) ? "<unterminated garbage>"
                                       : (std::string("\"") + old_end + "\"").c_str());
    bad += !ok;
}

int main()
{
    Parent p; // both sub-trees disabled
    char buf[1024]; memset(buf, 0, sizeof buf);
    walk_ports(&Parent::ports, buf, sizeof buf, nullptr, walker, true, &p);
    puts(bad ? "FAIL" : "ok");
    return bad != 0;
}
