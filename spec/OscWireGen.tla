---------------------------- MODULE OscWireGen ----------------------------
(* Input machine for C01/C02 (and the corpus of C07/C08): a state is an OSC     *)
(* message in abstract form; Next appends one argument.  TLC's breadth-first    *)
(* search therefore enumerates every type string up to Depth over all 17 tag    *)
(* symbols, crossed with boundary values, and checks the wire laws of           *)
(* OscWire.tla in every state.  With OUT set, every state is written out as one *)
(* JSON line and becomes one conformance vector for the real code.              *)
EXTENDS OscWire, Json, CSV, IOUtils
CONSTANTS Depth,      \* maximal number of type tags
          AddrLens,   \* set of address lengths (bytes incl. the leading '/')
          BaseLen,    \* the address length explored to full Depth (the others to depth 1)
          Rich        \* TRUE: full boundary value sets, FALSE: reduced
VARIABLES addr, args
Addrs == { <<47>> \o [i \in 1..(n-1) |-> 96 + i] : n \in AddrLens }
Lim2 == IF Rich THEN { <<0,0>>, <<0,1>>, <<32767,65535>>, <<32768,0>>, <<65535,65535>>, <<32704,1>> }
                ELSE { <<0,1>>, <<32768,0>>, <<32704,1>> }          \* 7fc00001 = NaN with payload
Lim4 == IF Rich THEN { <<0,0,0,0>>, <<32752,0,0,1>>, <<65535,65535,65535,65535>>, <<32768,0,0,0>>, <<1,2,3,4>> }
                ELSE { <<32752,0,0,1>>, <<32768,0,0,0>>, <<1,2,3,4>> }
Strs == IF Rich THEN { <<>>, <<97>>, <<97,98>>, <<97,98,99>>, <<97,98,99,100>>, <<255,1,44,47,35>> }
                ELSE { <<>>, <<97,98,99>>, <<97,98,99,100>> }
Blobs == IF Rich THEN { <<>>, <<0>>, <<1,2>>, <<1,2,3>>, <<255,0,255,0>>, <<1,2,3,4,5>> }
                 ELSE { <<>>, <<1,2,3>>, <<255,0,255,0>> }
NullBlobs == IF Rich THEN { <<>>, <<0,0>>, <<0,0,0,0>> } ELSE { <<0,0,0>> }
Choices(t) == CASE t \in Four  -> { [t |-> t, v |-> v, z |-> 0] : v \in Lim2 }
                [] t \in Eight -> { [t |-> t, v |-> v, z |-> 0] : v \in Lim4 }
                [] t = "m"     -> { [t |-> t, v |-> <<144,60,127,0>>, z |-> 0] }
                [] t \in Str   -> { [t |-> t, v |-> v, z |-> 0] : v \in Strs }
                [] t = "b"     -> { [t |-> t, v |-> v, z |-> 0] : v \in Blobs } \cup { [t |-> t, v |-> v, z |-> 1] : v \in NullBlobs }
                [] OTHER       -> { [t |-> t, v |-> <<>>, z |-> 0] }
Init == addr \in Addrs /\ args = <<>>
Next == /\ Len(args) < (IF Len(addr) = BaseLen THEN Depth ELSE 1)
        /\ \E t \in Tags : \E a \in Choices(t) : args' = Append(args, a)
        /\ UNCHANGED addr
enc == Encode(addr, args)
dec == Decode(enc)
Plain(as) == [i \in 1..Len(as) |-> [t |-> as[i].t, v |-> as[i].v, z |-> 0]]
Laws == /\ Len(enc) = Size(addr, args)
        /\ Len(enc) % 4 = 0
        /\ dec.ok /\ dec.addr = addr /\ dec.args = Plain(args) /\ dec.len = Len(enc)
        /\ WellFormed(enc)
        /\ ~ IsBundle(enc)
Out == IF "OUT" \in DOMAIN IOEnv THEN IOEnv.OUT ELSE "none"
Emit == Out = "none" \/ CSVWrite("%1$s", <<ToJson([addr |-> addr, args |-> args])>>, Out)
=============================================================================
