---------------------------- MODULE OscBundleGen ----------------------------
(* Input machine for C08 (and the bundle half of C02): a state is a bundle in    *)
(* abstract form; Next appends one element to the top-level bundle - a message   *)
(* from a small pool or a nested bundle built from the pool (nesting up to       *)
(* MaxNest).  Laws: decomposition inverts composition, sizes, time tag, length,  *)
(* and no plain message is taken for a bundle.                                   *)
EXTENDS OscWire, Json, CSV, IOUtils
CONSTANTS MaxElems, MaxNest
VARIABLES tt, elems
A(t, v) == [t |-> t, v |-> v, z |-> 0]
M(addr, args) == [k |-> "m", addr |-> addr, args |-> args]
B(t, es) == [k |-> "b", tt |-> t, elems |-> es]
Msgs == { M(<<47>>, <<>>),
          M(<<47, 97>>, <<A("i", <<0, 1>>)>>),
          M(<<47, 97, 98, 99>>, <<A("s", <<>>), A("T", <<>>)>>),
          M(<<47, 35, 98>>, <<A("b", <<1, 2, 3>>), A("h", <<1, 2, 3, 4>>)>>),      \* address "/#b"
          M(<<47, 98, 117, 110, 100, 108, 101>>, <<A("[", <<>>), A("f", <<16256, 0>>), A("]", <<>>)>>),     \* "/bundle"
          M(<<35, 98, 117, 110, 100, 108, 101, 115>>, <<A("i", <<0, 7>>)>>) }                                    \* "#bundles": a message whose address only BEGINS like the bundle marker
TTs == { <<0, 0, 0, 1>>, <<65535, 65535, 65535, 65535>>, <<4660, 22136, 39612, 57072>> }
RECURSIVE Nested(_)
Nested(d) == IF d = 0 THEN Msgs
             ELSE Msgs \cup { B(t, <<>>) : t \in {<<0, 0, 0, 1>>} }
                       \cup { B(<<1, 2, 3, 4>>, <<e>>) : e \in Nested(d - 1) }
                       \cup { B(<<0, 0, 0, 1>>, <<e, M(<<47>>, <<>>)>>) : e \in Nested(d - 1) }
Init == tt \in TTs /\ elems = <<>>
Next == /\ Len(elems) < MaxElems
        /\ \E e \in Nested(MaxNest) : elems' = Append(elems, e)
        /\ UNCHANGED tt
enc == EncBundle(tt, elems)
found == BundleElems(enc)
Laws == /\ Len(enc) = SizeElem(B(tt, elems))
        /\ IsBundle(enc)
        /\ Len(found) = Len(elems)
        /\ \A i \in 1..Len(elems) : /\ found[i].size = Len(EncElem(elems[i]))
                                    /\ SubSeq(enc, found[i].off + 1, found[i].off + found[i].size) = EncElem(elems[i])
        /\ BundleTime(enc) = tt
        /\ BundleLen(enc) = Len(enc)
        /\ \A i \in 1..Len(elems) : elems[i].k = "m" => ~ IsBundle(EncElem(elems[i]))
Out == IF "OUT" \in DOMAIN IOEnv THEN IOEnv.OUT ELSE "none"
Emit == Out = "none" \/ CSVWrite("%1$s", <<ToJson([tt |-> tt, elems |-> elems])>>, Out)
=============================================================================
