"""Seeded random port tables in the abstract form of spec/PortTree.tla (engine B input
source for C04/C09/C18).  Only *inputs* are produced here; names are rendered from the
abstract patterns and PortTreeTrace re-renders them (clause "render")."""
import random

A = "abc"


def lit(s):
    return dict(k="lit", s=[ord(c) for c in s])


def render_segs(segs):
    out = ""
    for g in segs:
        if g["k"] == "lit":
            out += bytes(g["s"]).decode()
        elif g["k"] == "enum":
            out += "#%d" % g["n"]
    return out


def render(pat):
    s = render_segs(pat["segs"])
    if pat["types"]["has"]:
        for a in pat["types"]["alts"]:
            s += ":" + bytes(a).decode()
    return s


def rand_name(rng, used, maxlen=4):
    for _ in range(100):
        n = "".join(rng.choice(A) for _ in range(rng.randint(1, maxlen)))
        if n not in used:
            used.add(n)
            return n
    return None


class Gen:
    def __init__(self, seed):
        self.rng = random.Random(seed)
        self.next_id = 0

    def table(self, depth, maxports, allow_sub=True):
        rng = self.rng
        n = rng.randint(1, maxports)
        used = set()
        ports = []
        flat = rng.random() < 0.5          # a table without '#': candidates for the perfect hash
        bare_enum = (not flat) and rng.random() < 0.25      # one port whose name BEGINS with the enumeration ("#3", "#3/")
        for _ in range(n):
            nm = rand_name(rng, used)
            if nm is None:
                break
            self.next_id += 1
            pid = self.next_id
            segs = [lit(nm)]
            if bare_enum:
                bare_enum = False
                segs = [dict(k="enum", n=rng.choice([2, 3, 12]))]
            is_sub = allow_sub and depth > 1 and rng.random() < 0.2
            if not flat and segs[0]["k"] == "lit" and rng.random() < 0.35:
                segs.append(dict(k="enum", n=rng.choice([1, 2, 3, 12])))
            if flat and not is_sub and rng.random() < 0.15:      # a leaf whose literal name has several components ("ab/c") in a table without '#'
                segs[0]["s"] = segs[0]["s"] + [47] + [ord(rng.choice(A))]
            types = dict(has=False, alts=[])
            if is_sub:
                last = segs[-1]
                if last["k"] == "lit":
                    last["s"] = last["s"] + [47]
                else:
                    segs.append(lit("/"))
                sub = self.table(depth - 1, max(1, maxports // 3))
            else:
                if rng.random() < 0.35:
                    alts = rng.choice([[""], ["i"], ["i", "f"], ["", "i"], ["if"], ["f", "i"]])
                    types = dict(has=True, alts=[[ord(c) for c in a] for a in alts])
                sub = dict(dflt=False, ports=[])
            pat = dict(segs=segs, types=types)
            ports.append(dict(id=pid, name=[ord(c) for c in render(pat)], pat=pat, leaf=not is_sub, meta=[], ptr="member", enabledby=0, sub=sub))
        return dict(dflt=rng.random() < 0.2, ports=ports)


def lengthen(tb, pre):
    """prefix every port name of the table (recursively) with the literal `pre`: names on both sides of the 15/16-character small-string boundary"""
    for p in tb["ports"]:
        segs = p["pat"]["segs"]
        if segs and segs[0]["k"] == "lit":
            segs[0]["s"] = [ord(c) for c in pre] + segs[0]["s"]
        else:
            segs.insert(0, lit(pre))
        p["name"] = [ord(c) for c in render(p["pat"])]
        if not p["leaf"]:
            lengthen(p["sub"], pre)
    return tb


LONG_PREFIXES = ["volume_envelope", "a_rather_long_port_", "lfo.frequency.modulation.depth.of.voice."]   # 15, 19, 40 characters


def expand(segs):
    outs = [""]
    for g in segs:
        if g["k"] == "lit":
            outs = [o + bytes(g["s"]).decode() for o in outs]
        else:
            outs = [o + str(v) for o in outs for v in ([0, g["n"] - 1, g["n"], g["n"] + 1])] + [o + "0" * k + str(g["n"] - 1) for o in outs[:2] for k in (1, 6)]     # leading zeros (the model reads indices of up to nine digits)
    return outs


def addresses(rng, tb, prefix="", limit=40):
    """members, boundary indices and one-character mutations of the table's addresses"""
    base = []

    def rec(t, pre):
        for p in t["ports"]:
            for e in expand(p["pat"]["segs"])[:6]:
                if p["leaf"]:
                    base.append(pre + e)
                else:
                    rec(p["sub"], pre + e)
    rec(tb, prefix)
    rng.shuffle(base)
    out = set()
    for b in base[:12]:
        out.add(b)
        for _ in range(4):
            m = list(b)
            op = rng.randint(0, 3)
            i = rng.randrange(len(m)) if m else 0
            c = rng.choice("abc/012")
            if op == 0 and len(m) > 1:
                del m[i]
            elif op == 1 and m:
                m[i] = c
            elif op == 2:
                m.insert(i, c)
            else:
                m.append(c)
            out.add("".join(m))
    out.discard("")
    out = sorted(out)
    rng.shuffle(out)
    return [[ord(c) for c in a] for a in out[:limit]]


def meta_bytes(entries):
    """[(key, value|None)] -> metadata block bytes as the rMap/rProp macros build them"""
    out = []
    for k, v in entries:
        out += [58] + [ord(c) for c in k] + [0]
        if v is not None:
            out += [61] + [ord(c) for c in v] + [0]
    return out + [0] if out else []


def walk_table(gen, depth, maxports, multi=False, runtime=False):
    """tables for the walk check: optionally multi-component sub-tree names (a#3/b#2/c/),
    null object pointers and 'enabled by' sibling toggles"""
    rng = gen.rng
    tb = gen.table(depth, maxports)
    toggles = []

    def decorate(t, d):
        extra = []
        for p in t["ports"]:
            if not p["leaf"]:
                if multi and rng.random() < 0.5 and p["pat"]["segs"][0]["k"] == "lit":      # (a name that BEGINS with its enumeration stays as it is)
                    segs = p["pat"]["segs"]
                    # turn "x/" into "x#2/y#3/z/" style
                    base = segs[0]["s"][:]
                    if base and base[-1] == 47:
                        base = base[:-1]
                    new = [dict(k="lit", s=base), dict(k="enum", n=rng.choice([1, 2, 3])), dict(k="lit", s=[47, ord(rng.choice("xy"))]),
                           dict(k="enum", n=2), dict(k="lit", s=[47, ord("z"), 47])]
                    if rng.random() < 0.5:
                        new = new[:2] + [dict(k="lit", s=[47, ord("q"), 47])]
                    p["pat"]["segs"] = new
                    p["name"] = [ord(c) for c in render(p["pat"])]
                if runtime:
                    r = rng.random()
                    if r < 0.25:
                        p["ptr"] = "null"
                    elif r < 0.6:
                        gen.next_id += 1
                        tid = gen.next_id
                        tname = "t%d" % tid
                        p["enabledby"] = tid
                        p["meta"] = meta_bytes([("enabled by", tname)])
                        pat = dict(segs=[lit(tname)], types=dict(has=True, alts=[[], [84], [70]]))
                        extra.append(dict(id=tid, name=[ord(c) for c in render(pat)], pat=pat, leaf=True, meta=meta_bytes([("toggle", None)]),
                                          ptr="member", enabledby=0, sub=dict(dflt=False, ports=[])))
                        toggles.append(tid)
                decorate(p["sub"], d + 1)
        t["ports"] += extra
    decorate(tb, 0)
    return tb, toggles
