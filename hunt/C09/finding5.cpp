// build: c++ -std=c++17 -I../include finding5.cpp ../_build/librtosc-cpp.a ../_build/librtosc.a -o finding5
//
// C09 / walk_ports with a runtime object, rRecurs: the array callbacks
// (rBOILS_BEGIN in port-sugar.h) take the FIRST digit of the message as the
// start of the index. For a member whose name contains a digit (v2[3] ->
// port "v2#3/") the addresses /v20/ /v21/ /v22/ yield the indices 20, 21, 22:
// walk_ports fetches the child objects &v2[20].. (out of bounds), asks their
// "enabled by" toggles there and hands those pointers to the walker.
#include <rtosc/ports.h>
#include <rtosc/port-sugar.h>
#include <cstdio>
#include <cstring>
#include <string>
using namespace rtosc;

struct Child {
    bool on = true;
    int  x = 0;
    static const Ports ports;
};
#define rObject Child
const Ports Child::ports = {
    rSelf(Child, rEnabledBy(on)),
    rToggle(on, "enables this sub-tree"),
    rParamI(x, "some parameter"),
};
#undef rObject

struct Parent {
    Child v2[3];
    static const Ports ports;
};
#define rObject Parent
const Ports Parent::ports = {
    rRecurs(v2, 3, "three children"),
};
#undef rObject

// keep the out-of-bounds accesses inside memory we own, so that the result is
// deterministic (all zero = "disabled")
static struct Arena { Parent p; char zeros[4096]; } arena;

struct Result { std::string addrs; int wrong_rt = 0; };

int main()
{
    Parent& p = arena.p;     // all three children enabled (on == true)
    char buf[1024]; memset(buf, 0, sizeof buf);
    Result res;
    walk_ports(&Parent::ports, buf, sizeof buf, &res,
               [](const Port*, const char* name, const char*, const Ports&,
                  void* data, void* rt) {
                   Result& r = *(Result*)data;
                   r.addrs += name; r.addrs += ";";
                   int idx = name[3] - '0'; // "/v2<idx>/..."
                   if(rt != &arena.p.v2[idx]) {
                       printf("%s: walker got runtime object %p = &v2[%ld], expected &v2[%d]\n",
                              name, rt, (long)((Child*)rt - arena.p.v2), idx);
                       ++r.wrong_rt;
                   }
               }, true, &p);
    std::string expected = "/v20/self;/v20/on;/v20/x;/v21/self;/v21/on;/v21/x;/v22/self;/v22/on;/v22/x;";
    printf("expected walk: %s\n", expected.c_str());
    printf("got      walk: %s\n", res.addrs.c_str());
    bool bad = res.addrs != expected || res.wrong_rt;
    puts(bad ? "FAIL" : "ok");
    return bad;
}
