CONSTANTS MaxMsgs = 12  SimMode = TRUE  OrderRule = TRUE
INIT Init
NEXT Next
CONSTRAINT Emit
CHECK_DEADLOCK FALSE
