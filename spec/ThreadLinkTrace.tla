---------------------------- MODULE ThreadLinkTrace ----------------------------
(* Engine B for C06: API-level histories recorded from the real ThreadLink (coroutine *)
(* schedules or two free-running OS threads) are checked to be behaviours of         *)
(* ThreadLink.tla.  A history is a sequence of Begin/End events of write and poll    *)
(* operations in an order consistent with real time; between an operation's Begin    *)
(* and End the internal actions of the specification run freely, so TLC searches for *)
(* an interleaving that explains the history.  A torn, lost, duplicated or reordered *)
(* message, a wrong hasNext, or a drop that no interleaving with a full ring         *)
(* explains, has none.  Each line of the log is one execution; executions whose ring *)
(* has N cells are judged in this run (x picks the execution, so TLC's workers       *)
(* search them in parallel).  An explained execution ends in a canonical `done`      *)
(* state whose invariant prints <<"ACCEPTED", x>>.                                   *)
EXTENDS ThreadLink, ThreadLinkWords, Json, IOUtils
Log == ndJsonDeserialize(IOEnv.TRACE)
VARIABLES x, l, had, done
tvars == <<vars, x, l, had, done>>
Evs == Log[x].ev
Ev == Evs[l]
More == ~ done /\ l <= Len(Evs)
Consume == l' = l + 1 /\ UNCHANGED <<x, done>>
TInit == /\ Init /\ x \in { i \in 1..Len(Log) : Log[i].N = N } /\ l = 1 /\ had = FALSE /\ done = FALSE
WBegin == More /\ Ev.e = "wb" /\ WStartL(Ev.len) /\ Consume /\ UNCHANGED had
WEnd   == More /\ Ev.e = "we" /\ wpc = "idle" /\ UNCHANGED vars /\ Consume /\ UNCHANGED had
PBegin == More /\ Ev.e = "pb" /\ RStartM(Ev.la) /\ Consume /\ UNCHANGED had
LastDelivered == IF rmode THEN (IF lagot = <<>> THEN <<>> ELSE lagot[Len(lagot)])
                          ELSE (IF got = <<>> THEN <<>> ELSE got[Len(got)])
WordOf(c) == WordAt(c.id, c.off, c.len)                       \* ThreadLinkWords.tla
Words(m) == [i \in 1..Len(m) |-> WordOf(m[i])]
PEnd == /\ More /\ Ev.e = "pe" /\ rpc = "idle"
        /\ Ev.has = had
        /\ (Ev.has => Words(LastDelivered) = Ev.msg)
        /\ UNCHANGED vars /\ Consume /\ UNCHANGED had
IntW == ~ done /\ WInternal /\ UNCHANGED <<x, l, had, done>>
IntR == /\ ~ done /\ RInternal /\ UNCHANGED <<x, l, done>>
        /\ had' = IF rpc = "hn_ld_w" THEN ((w + N - RPos) % N # 0) ELSE had
\* all events consumed: collapse into the canonical accepting state of execution x
Accept == /\ ~ done /\ l > Len(Evs) /\ done' = TRUE /\ l' = 0 /\ had' = FALSE /\ UNCHANGED x
          /\ buf' = [i \in 0..(N - 1) |-> Empty] /\ w' = 0 /\ r' = 0 /\ la' = 0
          /\ wpc' = "idle" /\ wk' = 0 /\ wlen' = 0 /\ wid' = 0 /\ ww' = 0 /\ wnext' = 0 /\ woff' = 0
          /\ rpc' = "idle" /\ rk' = 0 /\ rw' = 0 /\ rlen' = 0 /\ rcopy' = <<>> /\ rnext' = 0 /\ rmode' = FALSE
          /\ accepted' = <<>> /\ got' = <<>> /\ lagot' = <<>> /\ UNCHANGED <<step, hist>>
TNext == WBegin \/ WEnd \/ PBegin \/ PEnd \/ IntW \/ IntR \/ Accept
TSpec == TInit /\ [][TNext]_tvars
TView == <<core, x, l, had, done>>
Announce == done => PrintT(<<"ACCEPTED", x>>)
\* the specification's own invariants must hold along every explanation
Safe == Fifo /\ LaFifo
=============================================================================
