// The curated application "app1" used by the C12 / C13 / C14 checks (and C03): a port tree built with
// the REAL port-sugar macros.  Its abstract description lives in spec/AppModel.tla (AppDef part);
// the two are kept in step by hand - every port here has one entry there.
//
//   /pc      rParam   char  0..127            default 64
//   /pi      rParamI  int   -10..1000         default 5
//   /pn      rParamI  int   no bounds         default 0
//   /pf      rParamF  float -2.5..10.25       default 0.5
//   /pg      rParamF  float max 8 only        default 1
//   /pt      rToggle                          default false
//   /po      rOption  {zero, one, two, one2}  default one
//   /ps      rString  length 8                default "abc"
//   /preset_b rParamI 0..2                    default 0      (NO relation to /preset or /dep: a sibling whose name merely extends "preset", declared before it)
//   /preset  rParamI  0..2                    default 0      (changing it re-initialises /dep)
//   /dep     rParamI  0..100   default depends on /preset: 10, 20, 30
//   /mode    rParamI  0..2     default 0, depends on /preset (a preset message resets it); changing it re-initialises /dep2 and /chain
//   /dep2    rParamI  0..100   default depends on /preset: 1, 2, 3; depends on /mode
//   /chain   rParamI  0..100   default 0; depends on /mode (and through it on /preset)
//   /tg      rToggle  default false; changing it (a toggle runs its callback only on a change) re-initialises /dep3
//   /dep3    rParamI  0..100   default depends on /preset: 5, 6, 7; depends on /tg (two independent dependencies)
//   /ai#3    rArrayI  0..100                  default 3 (all elements, written [3x3])
//   /af#3    rArrayF  -0.5..0.75              default 0.25
//   /at#2    rArrayT                          default false
//   /al#8    rArrayI  0..100                  default 0 (written [8x0])
//   /a2x#3   rArrayI  0..100                  default 0 (written [3x0]): an array whose NAME contains a digit - the element index is what stands where the name has its '#'
//   /ab#8    rArrayT                          default false (written [8xfalse]): its saved form can contain a compressed run of toggles
//   /fx_on   rToggle  default false
//   /fx/     rRecurp  (allocated by fx_on) enabled by fx_on:  gain rParamI 0..10 default 3, level rParamI 0..100 default depends on type: 11 22 33, type rParamI 0..2 (re-initialises level),  voice#2/ rRecurs: vol rParamI 0..127 default 64
//   /sub_on  rToggle                          default true
//   /sub/    rRecur   enabled by sub_on:   si rParamI 0..50 default 7,  sf rParamF -4..4 default 1.5, st rToggle default false, sa#2 rArrayI 0..100 default [4 4]
//   /subs#2/ rRecurs  (same Sub ports)
//   /osc/    rRecur   depends on osc_type (a dependency declared on the SUB-TREE port, inherited by everything below): gain rParamI 0..100 default 5
//   /osc_type rParamI 0..2 default 0; every message to it re-initialises /osc/gain (declared AFTER the sub-tree, so the saved order is the wrong one)
//   /palloc  rToggle  default false  (true allocates the object behind /psub/, false frees it)
//   /psub/   rRecurp  (same Sub ports), enabled by palloc
#pragma once
#include <rtosc/ports.h>
#include <rtosc/port-sugar.h>
#include <cstring>

namespace app1 {
struct Sub { int si = 7; float sf = 1.5f; bool st = false; char sa[2] = {4, 4}; static const rtosc::Ports ports; };
struct Voice { int vol = 64; static const rtosc::Ports ports; };
struct Osc { int gain = 5; static const rtosc::Ports ports; };
struct Fx { int gain = 3; int level = 11; int type = 0; Voice voice[2]; void type_changed() { static const int l[3] = {11, 22, 33}; level = l[type < 0 ? 0 : type > 2 ? 2 : type]; } static const rtosc::Ports ports; };
struct App {
    char pc = 64; int pi = 5; int pn = 0; float pf = 0.5f; float pg = 1.0f; bool pt = false; int po = 1; char ps[8];
    int preset = 0; int dep = 10; int mode = 0; int dep2 = 1; int chain = 0; bool tg = false; int dep3 = 5; char al[8]; bool fx_on = false; Fx *fx = nullptr; char ai[3]; float af[3]; bool at[2]; bool ab[8] = {false, false, false, false, false, false, false, false}; char a2x[3] = {0, 0, 0};
    bool sub_on = true; Sub sub; Sub subs[2]; bool palloc = false; Sub *psub = nullptr; int preset_b = 0; Osc osc; int osc_type = 0;
    App() { strcpy(ps, "abc"); for (int i = 0; i < 3; ++i) { ai[i] = 3; af[i] = 0.25f; } at[0] = at[1] = false; memset(al, 0, sizeof al); }
    ~App() { delete psub; delete fx; }
    App(const App &) = delete;
    void preset_changed() { static const int d[3] = {10, 20, 30}; dep = d[preset < 0 ? 0 : preset > 2 ? 2 : preset]; mode = 0; mode_changed(); tg_changed(); }   // a preset also selects mode 0
    void tg_changed() { static const int d3[3] = {5, 6, 7}; dep3 = d3[preset < 0 ? 0 : preset > 2 ? 2 : preset]; }                                          // the toggle re-initialises its dependant
    void mode_changed() { static const int d2[3] = {1, 2, 3}; dep2 = d2[preset < 0 ? 0 : preset > 2 ? 2 : preset]; chain = 0; }                          // a mode re-initialises its two dependants
    void fx_changed() { if (fx_on && !fx) fx = new Fx; if (!fx_on && fx) { delete fx; fx = nullptr; } }
    void palloc_changed() { if (palloc && !psub) psub = new Sub; if (!palloc && psub) { delete psub; psub = nullptr; } }
    static const rtosc::Ports ports;
};

#define rObject Sub
inline const rtosc::Ports Sub::ports = {
    rParamI(si, rLinear(0, 50), rDefault(7), "sub int"),
    rParamF(sf, rLinear(-4, 4), rDefault(1.5), "sub float"),
    rToggle(st, rDefault(false), "sub toggle"),
    rArrayI(sa, 2, rLinear(0, 100), rDefault([4 4]), "sub int array"),      // an array port below parents whose names carry digits (/subs1/sa0)
};
#undef rObject

#define rObject Osc
inline const rtosc::Ports Osc::ports = { rParamI(gain, rLinear(0, 100), rDefault(5), "osc gain (re-initialised by the type of the oscillator, declared on the parent)") };
#undef rObject
#define rObject Voice
inline const rtosc::Ports Voice::ports = { rParamI(vol, rLinear(0, 127), rDefault(64), "voice volume") };
#undef rObject
#define rObject Fx
inline const rtosc::Ports Fx::ports = { rParamI(gain, rLinear(0, 10), rDefault(3), "fx gain"),
    // a dependency INSIDE a sub-tree, the dependant declared (and therefore saved) before the port it depends on; with fx_on above them: a chain
    rParamI(level, rLinear(0, 100), rDefaultDepends(type), rPresets(11, 22, 33), "fx level: default depends on the sibling 'type'"),
#undef rChangeCb
#define rChangeCb obj->type_changed();
    rParamI(type, rLinear(0, 2), rDefault(0), "fx type (re-initialises level)"),
#undef rChangeCb
#define rChangeCb
    rRecurs(voice, 2, "voices: an enumerated sub-tree BELOW a sub-tree that can be disabled") };
#undef rObject
#define rObject App
inline const rtosc::Ports App::ports = {
    rParam(pc, rDefault('@'), "char parameter"),      // a char default: the runtime value of a ::c port is a char ('@' = 64)
    rParamI(pi, rLinear(-10, 1000), rDefault(5), "int parameter"),
    rParamI(pn, rDefault(0), "int parameter without bounds"),
    rParamF(pf, rLinear(-2.5, 10.25), rDefault(0.5), "float parameter"),
    rParamF(pg, rMap(max, 8), rDefault(1.0), "float parameter with an upper bound only"),
    rToggle(pt, rDefault(false), "toggle"),
    rOption(po, rOptions(zero, one, two, one2), rDefault(one), "option (the last symbol extends the name of an earlier one)"),
    rString(ps, 8, rDefault("abc"), "string"),
    rParamI(preset_b, rLinear(0, 2), rDefault(0), "unrelated parameter whose name extends 'preset'"),
#undef rChangeCb
#define rChangeCb obj->preset_changed();
    rParamI(preset, rLinear(0, 2), rDefault(0), "preset"),
#undef rChangeCb
#define rChangeCb
    rParamI(dep, rLinear(0, 100), rDefaultDepends(preset), rPresets(10, 20, 30), "depends on the preset"),
#undef rChangeCb
#define rChangeCb obj->mode_changed();
    rParamI(mode, rLinear(0, 2), rDefault(0), rDepends(preset), "mode (reset by a preset)"),
#undef rChangeCb
#define rChangeCb
    rParamI(dep2, rLinear(0, 100), rDefaultDepends(preset), rPresets(1, 2, 3), rDepends(mode), "two dependencies: default from the preset, reset by the mode"),
    rParamI(chain, rLinear(0, 100), rDefault(0), rDepends(mode), "depends on the mode only - and through it on the preset"),
#undef rChangeCb
#define rChangeCb obj->tg_changed();
    rToggle(tg, rDefault(false), "re-initialises dep3"),
#undef rChangeCb
#define rChangeCb
    rParamI(dep3, rLinear(0, 100), rDefaultDepends(preset), rPresets(5, 6, 7), rDepends(tg), "two INDEPENDENT dependencies: default from the preset, reset by the toggle"),
    rArrayI(ai, 3, rLinear(0, 100), rDefault([3x3]), "int array"),                 // a default in repeat notation
    rArrayF(af, 3, rLinear(-0.5, 0.75), rDefault([0.25 0.25 0.25]), "float array"),   // bounds that are not whole numbers
    rArrayT(at, 2, rDefault([false false]), "toggle array"),
    rArrayI(al, 8, rLinear(0, 100), rDefault([8x0]), "long int array: its saved form can contain compressed runs"),
    rArrayI(a2x, 3, rLinear(0, 100), rDefault([3x0]), "int array whose name contains a digit"),
    rArrayT(ab, 8, rDefault([8xfalse]), "long toggle array: a compressed run of toggles carries its value in the TYPE of the repeated element"),
#undef rChangeCb
#define rChangeCb obj->fx_changed();
    rToggle(fx_on, rDefault(false), "allocates fx"),
#undef rChangeCb
#define rChangeCb
    rRecurp(fx, rEnabledBy(fx_on), "pointer sub-tree with an enumerated sub-tree inside"),
    rToggle(sub_on, rDefault(true), "enables sub"),
    rRecur(sub, rEnabledBy(sub_on), "member sub-tree"),
    rRecurs(subs, 2, "enumerated sub-trees"),
#undef rChangeCb
#define rChangeCb obj->palloc_changed();
    rToggle(palloc, rDefault(false), "allocates psub"),
#undef rChangeCb
#define rChangeCb
    rRecurp(psub, rEnabledBy(palloc), "pointer sub-tree"),
    rRecur(osc, rDepends(osc_type), "member sub-tree that DEPENDS on a port declared after it"),
#undef rChangeCb
#define rChangeCb obj->osc.gain = 5;
    rParamI(osc_type, rLinear(0, 2), rDefault(0), "re-initialises the osc sub-tree"),
#undef rChangeCb
#define rChangeCb
};
#undef rObject
} // namespace app1
