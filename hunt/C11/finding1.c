// build: gcc -I/tmp/wt/C11_h/include /tmp/wt/C11_h/findings/finding1.c /tmp/wt/C11_h/_build/librtosc-cpp.a /tmp/wt/C11_h/_build/librtosc.a -lm -o /tmp/wt/C11_h/findings/finding1
// Whitespace or a '%' comment in front of the first value: the checker accepts
// the text (and returns n), the scanner does not skip it.
#include <stdio.h>
#include <string.h>
#include <unistd.h>
#include <sys/wait.h>
#include <rtosc/rtosc.h>
#include <rtosc/pretty-format.h>

static int run(const char* text, int as_msg)
{
    fflush(stdout);
    pid_t pid = fork();
    if(pid == 0) {
        rtosc_arg_val_t av[8]; char sb[64], addr[128];
        memset(av, 0, sizeof av);
        int n = as_msg ? rtosc_count_printed_arg_vals_of_msg(text)
                       : rtosc_count_printed_arg_vals(text);
        printf("  checker: %d value(s)\n", n); fflush(stdout);
        if(n != 2) _exit(3);
        size_t rd = as_msg ? rtosc_scan_message(text, addr, sizeof addr, av, n, sb, sizeof sb)
                           : rtosc_scan_arg_vals(text, av, n, sb, sizeof sb);
        printf("  scanner: consumed %zu of %zu bytes, values: %c:%ld %c:%ld\n", rd, strlen(text),
               av[0].type, av[0].type == 'h' ? (long)av[0].val.h : (long)av[0].val.i,
               av[1].type, (long)av[1].val.i);
        int ok = rd == strlen(text) && av[0].type == 'i' && av[0].val.i == 1
                                    && av[1].type == 'i' && av[1].val.i == 2;
        fflush(stdout);
        _exit(ok ? 0 : 1);
    }
    int st; waitpid(pid, &st, 0);
    if(WIFSIGNALED(st)) { printf("  scanner: KILLED by signal %d\n", WTERMSIG(st)); return 1; }
    return WEXITSTATUS(st);
}

int main(void)
{
    int bad = 0;
    const char* t1 = " 1 2";
    const char* t2 = "% two ints\n1 2";
    const char* t3 = "/port % two ints\n 1 2";
    printf("expected for all three texts: 2 values, i:1 i:2, text consumed entirely\n");
    printf("text 1 <%s> (rtosc_scan_arg_vals)\n", t1); bad |= run(t1, 0);
    printf("text 2 <%s> (rtosc_scan_arg_vals)\n", t2); bad |= run(t2, 0);
    printf("text 3 <%s> (rtosc_scan_message)\n", t3);  bad |= run(t3, 1);
    printf(bad ? "FAIL\n" : "ok\n");
    return bad ? 1 : 0;
}
