---------------------------- MODULE UndoHistory ----------------------------
(* rtosc::UndoHistory: a bounded list of change events [a, ty, old, new, t] with a  *)
(* cursor pos.  Actions (one per public call / clock movement):                      *)
(*   Record(e, m)  recordEvent: drop the redo tail; merge into retained entry m      *)
(*                 (same address, inside the 2-second window) or append; keep only   *)
(*                 the Max most recent entries                                       *)
(*   Seek(k)       seekHistory: clamped; emits rewind messages newest first with the *)
(*                 old values / replay messages oldest first with the new values     *)
(*   Tick(d)       the wall clock advances                                           *)
(* Written from the statement of C15, not from the code: an event merges into the     *)
(* newest retained entry of its address when that address was last recorded less     *)
(* than Window ago (exactly Window: either).  Bug selects a specification mutant.    *)
EXTENDS Integers, Sequences, FiniteSets, TLC
CONSTANTS Addr, Vals, Types, Max, Window, MaxClock, Bug
VARIABLES hist, pos, clock, out,      \* the object: entries, cursor; the clock; messages emitted by the last call
          store,                      \* ghost: the parameters the events talk about (for the end-to-end invariants)
          step                        \* ghost: the call just made
vars == <<hist, pos, clock, out, store, step>>
Init == /\ hist = <<>> /\ pos = 0 /\ clock = 0 /\ out = <<>>
        /\ store = [a \in Addr |-> [ty |-> "i", v |-> 0]]
        /\ step = [op |-> "init"]
Touched(h) == { h[i].a : i \in 1..Len(h) }
\* Only the NEWEST retained entry of the same address can absorb a new event: merging into an older
\* one would put "last new value" in front of a later change and break redo (TLC finds the
\* counterexample in 5 steps when any same-address entry inside the window is allowed).
\* Its time stamp is the time that address was last recorded, so: gap < Window must merge,
\* gap = Window may, gap > Window must not.
Newest(h, a) == LET S == { i \in 1..Len(h) : h[i].a = a } IN IF S = {} THEN 0 ELSE CHOOSE i \in S : \A j \in S : j <= i
RecordInto(e, m) ==       \* m = 0: append, otherwise the index merged into
  LET h0 == IF Bug = "keep_tail" THEN hist ELSE SubSeq(hist, 1, pos)
      p0 == IF Bug = "keep_tail" THEN Len(hist) ELSE pos
      n  == Newest(h0, e.a) IN
  /\ m \in {0, n}
  /\ (m # 0) => clock - h0[m].t <= Window
  /\ (m = 0 /\ n # 0) => clock - h0[n].t >= Window
  /\ IF m # 0
     THEN /\ hist' = [h0 EXCEPT ![m] = [a |-> e.a, ty |-> e.ty, old |-> (IF Bug = "merge_old" THEN e.old ELSE h0[m].old), new |-> e.new, t |-> clock]]
          /\ pos' = p0
     ELSE LET h1 == Append(h0, [a |-> e.a, ty |-> e.ty, old |-> e.old, new |-> e.new, t |-> clock])
              cap == IF Bug = "cap_plus1" THEN Max + 1 ELSE Max IN
          IF Len(h1) > cap THEN hist' = Tail(h1) /\ pos' = p0
                           ELSE hist' = h1 /\ pos' = p0 + 1
  /\ out' = <<>> /\ UNCHANGED clock
Record(e) == \E m \in 0..Len(hist) : RecordInto(e, m)
\* rewind / replay: messages and their effect on the parameters
RECURSIVE Rewind(_, _, _, _)
Rewind(h, from, to, st) == IF from = to THEN <<st, <<>>>>
                           ELSE LET e == h[from]  nx == Rewind(h, from - 1, to, [st EXCEPT ![e.a] = [ty |-> e.ty, v |-> e.old]]) IN
                                <<nx[1], << [a |-> e.a, ty |-> e.ty, v |-> e.old] >> \o nx[2]>>
RECURSIVE Replay(_, _, _, _)
Replay(h, from, to, st) == IF from = to THEN <<st, <<>>>>
                           ELSE LET e == h[from + 1]  nx == Replay(h, from + 1, to, [st EXCEPT ![e.a] = [ty |-> e.ty, v |-> e.new]]) IN
                                <<nx[1], << [a |-> e.a, ty |-> e.ty, v |-> e.new] >> \o nx[2]>>
Seek(k) == LET dest == IF pos + k < 0 THEN 0 ELSE IF pos + k > Len(hist) THEN Len(hist) ELSE pos + k
               res == IF dest < pos THEN Rewind(hist, pos, dest, store) ELSE Replay(hist, pos, dest, store) IN
           /\ pos' = dest /\ store' = res[1] /\ out' = res[2]
           /\ UNCHANGED <<hist, clock>>
Tick(d) == clock + d <= MaxClock /\ clock' = clock + d /\ out' = <<>> /\ UNCHANGED <<hist, pos, store>>
\* a parameter changes (as a C14 port would report it): the event carries the true previous value
Set(a, ty, v) == /\ store[a] # [ty |-> ty, v |-> v]
                 /\ Record([a |-> a, ty |-> ty, old |-> store[a].v, new |-> v])
                 /\ store' = [store EXCEPT ![a] = [ty |-> ty, v |-> v]]
                 /\ step' = [op |-> "rec", a |-> a, ty |-> ty, old |-> store[a].v, new |-> v]
\* a parameter has one type (address "b" is a float, "c" a char, every other an int - when those types are in play)
TypeOf(a) == IF "f" \in Types /\ a = "b" THEN "f" ELSE IF "c" \in Types /\ a = "c" THEN "c" ELSE "i"
Next == \/ \E a \in Addr, v \in Vals : Set(a, TypeOf(a), v)
        \/ \E k \in {-Max - 1, -2, -1, 1, 2, Max + 1} : Seek(k) /\ step' = [op |-> "seek", k |-> k]
        \/ \E d \in {1, Window, Window + 1} : Tick(d) /\ step' = [op |-> "tick", d |-> d]
Spec == Init /\ [][Next]_vars
View == <<hist, pos, clock, out, store>>
\* ---------------------------------------------------------------- the property (C15)
Book == 0 <= pos /\ pos <= Len(hist) /\ Len(hist) <= Max
OldestOld(a) == LET i == CHOOSE i \in 1..Len(hist) : hist[i].a = a /\ \A j \in 1..(i - 1) : hist[j].a # a IN hist[i].old
NewestNew(a) == LET i == CHOOSE i \in 1..Len(hist) : hist[i].a = a /\ \A j \in (i + 1)..Len(hist) : hist[j].a # a IN hist[i].new
\* undoing everything retained returns every touched parameter to the value before its oldest retained change;
\* redoing everything returns the latest values
UndoAllRestores == pos = 0 => \A a \in Touched(hist) : store[a].v = OldestOld(a)
RedoAllRestores == pos = Len(hist) => \A a \in Touched(hist) : store[a].v = NewestNew(a)
\* one message per event crossed
OutCount == step.op = "seek" => Len(out) <= Len(hist)
=============================================================================
