// build: gcc -I/tmp/wt/C11_h/include /tmp/wt/C11_h/findings/finding11.c /tmp/wt/C11_h/_build/librtosc-cpp.a /tmp/wt/C11_h/_build/librtosc.a -lm -o /tmp/wt/C11_h/findings/finding11
// '%' comments are only understood between top-level values. Inside an array,
// between the parts of a range, in front of the parenthesised exact value, and
// directly behind a number (without a blank) the checker rejects them.
#include <stdio.h>
#include <rtosc/rtosc.h>
#include <rtosc/pretty-format.h>

int main(void)
{
    int bad = 0;
    struct { const char* text; int expect; } t[] = {
        { "1 % one\n2 % two\n",              2 },  // control
        { "abc% no blank\n2",                2 },  // control: identifier directly followed by a comment
        { "true% no blank\n2",               2 },  // control
        { "1% no blank\n2",                  2 },  // number directly followed by a comment
        { "[1 % one\n 2 % two\n]",           3 },  // comments between array elements
        { "[ % first line\n 1 2]",           3 },
        { "1 % from\n ... 5",                3 },  // comment inside a range
        { "1 ... % up to\n 5",               3 },
        { "1.0 % exactly:\n (0x1p+0)",       1 },  // comment before the exact value
        { 0, 0 } };
    for(int i = 0; t[i].text; ++i) {
        int n = rtosc_count_printed_arg_vals(t[i].text);
        printf("<%s>\n  expected count %d, got %d%s\n", t[i].text, t[i].expect, n,
               n == t[i].expect ? "" : "   <-- WRONG (rejected)");
        if(n != t[i].expect) bad = 1;
    }
    printf(bad ? "FAIL\n" : "ok\n");
    return bad;
}
