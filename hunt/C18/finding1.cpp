// build: g++ -std=c++11 -I/tmp/wt/C18_h/include finding1.cpp /tmp/wt/C18_h/_build/librtosc-cpp.a /tmp/wt/C18_h/_build/librtosc.a -o finding1 && ./finding1
//
// path_search() with reply_with_query=true writes two results past the end of
// 'types' and 'args' when the buffers have exactly the documented size
// (max_args = 2 * number of child ports, max_types = max_args + 1).
// The message flavour path_search(root, msg, max_ports, ...) sizes its stack
// buffers by exactly that rule (ports.cpp:1364-1367), so calling it with
// max_ports == (largest number of child ports) - the documented minimum -
// smashes its own stack.  (With assertions enabled the library aborts instead.)
#include <rtosc/ports.h>
#include <rtosc/rtosc.h>
#include <cstdio>
#include <cstring>
#include <vector>
using namespace rtosc;
static void null_fn(const char*, RtData&) {}

static const Ports children = {
    {"alpha::i", ":parameter\0", 0, null_fn},
    {"beta::f",  ":parameter\0", 0, null_fn},
    {"gamma/",   0,              0, null_fn},
};
static const Ports root = {
    {"sub/", 0, &children, null_fn},
};

int main()
{
    const size_t n_children = 3;              // the largest port table of "the app"
    const size_t max_args   = n_children * 2; // documented: >= 2 * max no. of child ports
    const size_t max_types  = max_args + 1;   // documented: max_args + 1
    const size_t guard      = 4;

    std::vector<char>        types(max_types + guard, 0x55);
    std::vector<rtosc_arg_t> args(max_args + guard);
    memset(args.data(), 0x55, sizeof(rtosc_arg_t) * args.size());

    path_search(root, "/sub/", "", types.data(), max_types,
                args.data(), max_args,
                path_search_opts::unmodified, /*reply_with_query*/ true);

    int bad = 0;
    printf("expected: types[%zu] (last byte of the buffer) is the terminating 0 and\n"
           "          nothing behind types[%zu] / args[%zu] is touched\n",
           max_types - 1, max_types - 1, max_args - 1);
    if(types[max_types - 1] != 0) {
        printf("got     : types[%zu] = '%c' - the type string is not terminated "
               "inside the buffer\n", max_types - 1, types[max_types - 1]);
        bad = 1;
    }
    for(size_t i = max_types; i < max_types + guard; ++i)
        if(types[i] != 0x55) {
            printf("got     : types[%zu] (behind the buffer) overwritten with '%c'\n",
                   i, types[i]);
            bad = 1;
        }
    for(size_t i = max_args; i < max_args + guard; ++i) {
        const unsigned char *p = (const unsigned char*)&args[i];
        bool touched = false;
        for(size_t b = 0; b < sizeof(rtosc_arg_t); ++b)
            if(p[b] != 0x55) touched = true;
        if(touched) {
            printf("got     : args[%zu] (behind the buffer) overwritten\n", i);
            bad = 1;
        }
    }
    if(!bad)
        printf("got     : buffers intact\n");
    return bad;
}
