---------------------------- MODULE PathUtil ----------------------------
(* Path utilities of rtosc::Ports (C18): collapsing '..' components and the child   *)
(* search behind path_search.                                                       *)
EXTENDS Naturals, Sequences, FiniteSets, SequencesExt
DotDot == <<46, 46>>
\* a path is a sequence of components (byte strings without '/'); absolute: rendered as "/c1/c2/..."
RECURSIVE CollapseC(_, _)
CollapseC(todo, stack) ==          \* each '..' cancels the nearest preceding ordinary component; surplus ones at the root are dropped
  IF todo = <<>> THEN stack
  ELSE IF Head(todo) = DotDot THEN CollapseC(Tail(todo), IF stack = <<>> THEN <<>> ELSE SubSeq(stack, 1, Len(stack) - 1))
  ELSE CollapseC(Tail(todo), Append(stack, Head(todo)))
Collapse(comps) == CollapseC(comps, <<>>)
RECURSIVE RenderPath(_)
RenderPath(comps) == IF comps = <<>> THEN <<>> ELSE <<47>> \o Head(comps) \o RenderPath(Tail(comps))
\* what collapsePath may return for a path: the rendering; when everything cancels, "" or "/"
CollapseAllowed(comps) == LET c == Collapse(comps) IN IF c = <<>> THEN { <<>>, <<47>> } ELSE { RenderPath(c) }

\* ------------------------------------------------------------------ child search
\* children: Seq([name, meta]);  needle: bytes;  opt: 0 table order | 1 string order | 2 string order, names below a returned "name/" removed
IsPfxU(s, t) == Len(s) <= Len(t) /\ SubSeq(t, 1, Len(s)) = s
RECURSIVE Less(_, _)
Less(a, b) == IF a = <<>> THEN b # <<>> ELSE IF b = <<>> THEN FALSE                  \* strcmp order on byte strings
              ELSE IF Head(a) # Head(b) THEN Head(a) < Head(b) ELSE Less(Tail(a), Tail(b))
Leq(a, b) == a = b \/ Less(a, b)
Filtered(children, needle) == SelectSeq(children, LAMBDA c : IsPfxU(needle, c.name))
Names(s) == [i \in 1..Len(s) |-> s[i].name]
CountIn(s, x) == Cardinality({ i \in 1..Len(s) : s[i] = x })
SameBagSeq(s, t) == Len(s) = Len(t) /\ \A i \in 1..Len(s) : CountIn(s, s[i]) = CountIn(t, s[i])
SubBagSeq(s, t) == \A i \in 1..Len(s) : CountIn(s, s[i]) <= CountIn(t, s[i])
Sorted(ns) == \A i \in 1..(Len(ns) - 1) : Leq(ns[i], ns[i + 1])
\* the unique-prefix pass over a sorted name sequence
RECURSIVE UniqC(_, _, _)
UniqC(todo, prev, acc) ==
  IF todo = <<>> THEN acc
  ELSE LET c == Head(todo) IN
       IF prev # <<>> /\ prev[Len(prev)] = 47 /\ Len(prev) < Len(c) /\ IsPfxU(prev, c)
       THEN UniqC(Tail(todo), prev, acc)
       ELSE UniqC(Tail(todo), c, Append(acc, c))
UniqPrefix(sortednames) == UniqC(sortednames, <<>>, <<>>)
IsSearchResult(obs, children, needle, opt) ==
  LET f == Filtered(children, needle) IN
  CASE opt = 0 -> obs = f
    [] opt = 1 -> Sorted(Names(obs)) /\ SameBagSeq(obs, f)
    [] opt = 2 -> /\ Sorted(Names(obs)) /\ SubBagSeq(obs, f)
                  /\ Names(obs) = UniqPrefix(SortSeq(Names(f), LAMBDA a, b : Less(a, b)))
=============================================================================
