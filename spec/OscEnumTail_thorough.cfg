CONSTANTS Mode = "enum"  Depth = 0  MaxLen = 12  Alphabet = {0, 44, 98, 105, 115, 255, 252, 1}  Prefix = "hdr"
INIT Init
NEXT Next
INVARIANT Laws
CONSTRAINT Emit
VIEW View
CHECK_DEADLOCK FALSE
