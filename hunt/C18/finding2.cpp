// build: g++ -std=c++11 -I/tmp/wt/C18_h/include finding2.cpp /tmp/wt/C18_h/_build/librtosc-cpp.a /tmp/wt/C18_h/_build/librtosc.a -o finding2 && ./finding2
//
// A subtree port whose name has more than one component ("C/D/", as in the
// library's own tests "subtree2/x/" and "b/c/") cannot be addressed with its
// own address "/C/D/": Ports::apropos returns NULL, so path_search returns an
// empty reply instead of the children.  For "E#2/F/" no spelling of the
// location works at all.
#include <rtosc/ports.h>
#include <rtosc/rtosc.h>
#include <cstdio>
#include <cstring>
#include <string>
using namespace rtosc;
static void null_fn(const char*, RtData&) {}

static const Ports leaves = {
    {"x::i", ":parameter\0", 0, null_fn},
    {"y::f", 0,              0, null_fn},
};
static const Ports root = {
    {"A/",     0, &leaves, null_fn},   // one component: works
    {"C/D/",   0, &leaves, null_fn},   // two components
    {"E#2/F/", 0, &leaves, null_fn},   // two components, enumerated
};

static std::string names(const char *loc)
{
    char        types[16];
    rtosc_arg_t args[15];
    path_search(root, loc, "", types, sizeof(types), args, 15,
                path_search_opts::unmodified, false);
    std::string r;
    for(size_t i = 0; i + 1 < strlen(types); i += 2)
        r += std::string(r.empty() ? "" : " ") + args[i].s;
    return r;
}

static char walked[4][64]; static int n_walked = 0;
static void walker(const Port*, const char *name, const char *old_end,
                   const Ports&, void*, void*)
{   // remember the address of the Ports table each leaf was reported under
    std::string base(name, old_end - name);
    for(int i = 0; i < n_walked; ++i) if(base == walked[i]) return;
    if(n_walked < 4) strcpy(walked[n_walked++], base.c_str());
}

int main()
{
    int bad = 0;
    char buf[256]; memset(buf, 0, sizeof(buf));
    walk_ports(&root, buf, sizeof(buf), NULL, walker);
    printf("the walk reports the children under:");
    for(int i = 0; i < n_walked; ++i) printf(" %s", walked[i]);
    printf("\n\n");

    const struct { const char *loc; const Port *port; } q[] = {
        {"/A/",    &root.ports[0]},
        {"/C/D/",  &root.ports[1]},
        {"/E0/F/", &root.ports[2]},
        {"/E1/F/", &root.ports[2]},
    };
    for(auto &t : q) {
        const Port *p = root.apropos(t.loc);
        std::string got = names(t.loc);
        bool ok = p == t.port && got == "x::i y::f";
        printf("location %-8s expected: apropos -> \"%s\", children \"x::i y::f\"\n"
               "                  got     : apropos -> %s%s%s, children \"%s\"  %s\n",
               t.loc, t.port->name,
               p ? "\"" : "", p ? p->name : "NULL", p ? "\"" : "",
               got.c_str(), ok ? "ok" : "WRONG");
        bad |= !ok;
    }
    printf("\nwithout the trailing slash: \"/C/D\" -> \"%s\" (works by the "
           "prefix rule), \"/E0/F\" -> \"%s\"\n",
           names("/C/D").c_str(), names("/E0/F").c_str());
    return bad;
}
