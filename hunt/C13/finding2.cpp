// g++ -std=c++11 -I/tmp/wt/C13_h/include finding2.cpp /tmp/wt/C13_h/_build/librtosc-cpp.a /tmp/wt/C13_h/_build/librtosc.a -o finding2 && ./finding2
//
// C13 finding 2: a Ports struct that is enabled through its own "self:" port
// (doc/Guide.adoc: rSelf(some_parameters, rEnabledBy(i_am_enabled))) - the form
// walk_ports()/port_is_enabled() evaluate when the file is written - gets no
// dependency edge when the file is read: scan_deps() only reads the metadata of
// the "sub/" port in the parent, never that of sub's "self:" port.
#include <rtosc/ports.h>
#include <rtosc/port-sugar.h>
#include <rtosc/savefile.h>
#include <cstdio>
#include <string>
using namespace rtosc;

static std::string order; // order in which the setters ran

struct Sub
{
    int on = 0, gain = 5;
    static const Ports ports;
};
#define rObject Sub
const Ports Sub::ports = {
    rSelf(Sub, rEnabledBy(on)),
    {"gain::i", rProp(parameter) rDefault(5), NULL,
        [](const char* m, RtData& d) { Sub* o = (Sub*)d.obj;
            if(*rtosc_argument_string(m)) {
                order += "gain ";
                if(o->on) o->gain = rtosc_argument(m, 0).i; // a disabled unit ignores its parameters
            } else d.reply(d.loc, "i", o->gain); }},
    {"on::T:F", rProp(parameter) rDefault(false), NULL,
        [](const char* m, RtData& d) { Sub* o = (Sub*)d.obj;
            if(*rtosc_argument_string(m)) { order += "on "; o->on = rtosc_type(m, 0) == 'T'; }
            else d.reply(d.loc, o->on ? "T" : "F"); }},
};
#undef rObject
struct Root { Sub sub; static const Ports ports; };
#define rObject Root
const Ports Root::ports = { rRecur(sub, "a unit that is enabled by its own toggle") };
#undef rObject

int main()
{
    Root saved; saved.sub.on = 1; saved.sub.gain = 9;
    std::set<std::string> w;
    std::string file = get_changed_values(Root::ports, &saved, w, {});
    printf("savefile written by the library:\n%s\n", file.c_str());

    Root l1, l2;
    order.clear(); int r1 = dispatch_printed_messages("/sub/gain 9\n/sub/on true\n", Root::ports, &l1); std::string o1 = order;
    order.clear(); int r2 = dispatch_printed_messages("/sub/on true\n/sub/gain 9\n", Root::ports, &l2); std::string o2 = order;
    printf("expected for both line orders: 2 messages, applied as 'on gain', on=1 gain=9\n");
    printf("'/sub/gain 9' first  : %d messages, applied as '%s', on=%d gain=%d\n", r1, o1.c_str(), l1.sub.on, l1.sub.gain);
    printf("'/sub/on true' first : %d messages, applied as '%s', on=%d gain=%d\n", r2, o2.c_str(), l2.sub.on, l2.sub.gain);
    if(o1 != "on gain " || o2 != "on gain " || l1.sub.gain != 9 || l2.sub.gain != 9) {
        puts("=> FAIL: the enabling port is not applied before the ports it enables; result depends on the line order");
        return 1;
    }
    return 0;
}
