"""C19 - automation output stays in range and MIDI-learn requests are served in order.
Automation.tla (slots, sub-automations, learn queue as the statement intends it, controller
and NRPN handling, exact value mapping on scaled integers) is model-checked by TLC
(ServedInOrder, InRange, QueueSane, LinearAtDefault, MonotoneMapping) with two specification
mutants; TLC-simulated behaviours and seeded random histories are executed on a real
AutomationMgr and validated step by step by AutomationTrace."""
import json, os
from vlib import core


def steps_of(ev):
    return [{k: v for k, v in e.items() if k not in ("out", "slots", "qlen")} for e in ev]


def unrelated_clear_while_waiting(ev, upto):
    """was a slot cleared that was not waiting for MIDI learn while another slot was waiting?"""
    for e in ev[:upto]:
        pass
    prev = None
    for e in ev[:upto]:
        if e["op"] == "clear" and prev is not None:
            s = e["s"] - 1
            if prev["slots"][s]["rank"] <= 0 and any(x["rank"] > 0 for x in prev["slots"]):
                return True
        prev = e
    return False


def judge(ctx, log, label):
    rej = ctx.validate_execs("AutomationTrace", "AutomationTrace.cfg", log, timeout=1800)
    recs = ctx.read_ndjson(log)
    for i, r in enumerate(recs, 1):
        ctx.evaluations += len(r["ev"])
        if sum(1 for e in r["ev"] if e["out"]) >= 2 and any(e["op"] == "cc" for e in r["ev"]):
            ctx.nontrivial.add((label, i))
        if r.get("sig") or r.get("asan"):
            ctx.reject(dict(clause="crash_or_memory_error", source=label), dict(steps=[]), "crash/ASan report in a %s automation history: %s" % (label, r.get("asan_what")))
        if i in rej:
            cl, l = rej[i]
            uc = unrelated_clear_while_waiting(r["ev"], l)
            e = r["ev"][l - 1]
            for c in cl:
                ctx.reject(dict(clause=c, source=label, op=e["op"], unrelated_clear_while_waiting=uc), dict(steps=steps_of(r["ev"][:l])),
                           "%s history, call %d (%s): %s; observed out=%s ranks=%s qlen=%s" % (label, l, steps_of([e])[0], c, e["out"], [s["rank"] for s in e["slots"]], e["qlen"]))
    return recs


def run(ctx):
    ctx.rule = ("(a) exhaustive TLC search of Automation.tla (3 slots x 2 subs, 2 parameters, gains +-100, 2 controllers + NRPN bytes, 5 operations) + 2 mutants; "
                "(b) TLC-simulated behaviours (4 slots x 2 subs, 5 parameters incl. log-scale and toggle, gains 100/50/200/-100, offsets 0/+-25, slot values -1/8..9/8, "
                "4 controllers, NRPN sequences) replayed on the real manager; (c) seeded random histories of 1..40 calls; evaluations = calls validated; "
                "non-trivial = history with a controller event and >= 2 emitting calls")
    ctx.assumptions = ["slot values are k/8, gains multiples of 50 %, offsets multiples of 25 %, bounds multiples of 1/4: float arithmetic is exact, values are compared exactly",
                       "controller values are 0 or 127 (slot value 0 or 1); NRPN bytes arrive only while no slot waits with an incomplete assembly",
                       "log-scale parameter: range with relative tolerance 1e-5, no exact value"]
    if ctx.replay:
        case = json.load(open(ctx.replay))["case"]
        p = ctx.path("steps.ndjson")
        open(p, "w").write(json.dumps(case["steps"]) + "\n")
        ctx.driver("auto_driver", "asan", ["replay", p, ctx.path("log.ndjson")])
        judge(ctx, ctx.path("log.ndjson"), "replay")
        return
    thorough = ctx.tier == "thorough"
    ctx.spec_law("Automation", "Automation_none.cfg", workers=16)
    ctx.exhaustive = True
    for b in ("lifo", "clear_disturbs"):
        ctx.spec_mutant("Automation", "Automation_%s.cfg" % b, workers=8)
    raw = ctx.path("sim.raw")
    depth = 40
    r = ctx.tlc("AutomationSim", "AutomationSim.cfg", env={"OUT": raw, "DEPTH": depth}, workers=4, simulate=3000 if thorough else 300, depth=depth, seed=ctx.seed)
    seen = set()
    with open(ctx.path("steps.ndjson"), "w") as f:
        for line in open(raw):
            s = json.loads(line)
            if s not in seen:
                seen.add(s)
                f.write(s + "\n")
    os.remove(raw)
    ctx.driver("auto_driver", "asan", ["replay", ctx.path("steps.ndjson"), ctx.path("logA.ndjson")])
    recs = judge(ctx, ctx.path("logA.ndjson"), "simulated")
    ctx.notes["simulated_behaviours"] = len(recs)
    ctx.driver("auto_driver", "asan", ["random", ctx.seed, 30000 if thorough else 3000, ctx.path("logB.ndjson")])
    recs2 = judge(ctx, ctx.path("logB.ndjson"), "random")
    ctx.notes["random_histories"] = len(recs2)
    if recs:
        ctx.sample(dict(steps=steps_of(recs[0]["ev"][:12])))
    ctx.sample(dict(steps=steps_of(recs2[-1]["ev"][:12])))
