---------------------------- MODULE OscWireTrace ----------------------------
(* Trace validation of the OSC wire family (C01 C02 C07 C08).  The log is a     *)
(* stateless trace: each line holds one abstract input and what the real code   *)
(* did with it.  Every line is a state of this module (Init picks the line), so *)
(* TLC's workers judge the lines in parallel; the judgement is the set of       *)
(* property clauses of OscWire.tla the observation breaks.  A non-empty set is  *)
(* printed as <<"REJECT", line, clauses>> and collected by bin/check.           *)
EXTENDS OscWire, Json, IOUtils
Log == ndJsonDeserialize(IOEnv.TRACE)
VARIABLE l
Init == l \in 1..Len(Log)
Next == UNCHANGED l

NonBr(args) == SelectSeq(args, LAMBDA a : a.t \notin {"[", "]"})
ExpVal(a) == CASE a.t = "T" -> <<1>> [] a.t = "F" -> <<0>> [] OTHER -> a.v
Has(r, f) == f \in DOMAIN r

\* ------------------------------------------------------------------ C01
MsgFails(r) ==
  IF r.sig # 0 THEN {"crash"}
  ELSE LET enc == Encode(r.addr, r.args)
           nb  == NonBr(r.args)
           tg  == TagBytes(r.args)
       IN  {k \in {"asan", "sizeq", "ret_a", "bytes_a", "ret_v", "bytes_v", "ret_av", "bytes_av",
                   "untouched_tail", "mlen", "argstr", "nargs", "types", "vals", "itr", "itr_count"} :
            ~ CASE k = "asan"     -> r.asan = 0
                [] k = "sizeq"    -> r.sizeq = Size(r.addr, r.args)
                [] k = "ret_a"    -> r.ret_a = Len(enc)
                [] k = "bytes_a"  -> r.bytes = enc
                [] k = "ret_v"    -> r.v_done => r.ret_v = Len(enc)
                [] k = "bytes_v"  -> r.v_done => (r.eq_v \/ r.bytes # enc)      \* judged against the amessage image
                [] k = "ret_av"   -> r.av_done => r.ret_av = Len(enc)
                [] k = "bytes_av" -> r.av_done => (r.eq_av \/ r.bytes # enc)
                [] k = "untouched_tail" -> r.tail_ok
                [] k = "mlen"     -> r.acc => r.mlen = Len(enc)
                [] k = "argstr"   -> r.acc => r.argstr = tg
                [] k = "nargs"    -> r.acc => r.nargs = NArgs(r.args)
                [] k = "types"    -> r.acc => r.types = [i \in 1..Len(nb) |-> Code(nb[i].t)]
                [] k = "vals"     -> r.acc => r.vals = [i \in 1..Len(nb) |-> ExpVal(nb[i])]
                [] k = "itr"      -> r.acc => /\ r.itr_end
                                              /\ r.itr = [i \in 1..Len(nb) |-> [t |-> Code(nb[i].t), v |-> ExpVal(nb[i])]]
                [] k = "itr_count" -> r.acc => Len(r.itr) = NArgs(r.args) }

\* ------------------------------------------------------------------ C02
\* for every capacity c (index c+1): fits => exact size and image; does not fit =>
\* 0 and an all-zero buffer; the guard zone is never touched; no ASan report.
CapFailsOne(r, enc, rets, zero, eq, guard, asan) ==
  LET n == Len(enc) IN
  {k \in {"cap_count", "fit_ret", "fit_bytes", "short_ret", "short_zero", "guard", "asan"} :
   ~ CASE k = "cap_count" -> Len(rets) = n + 9
       [] k = "fit_ret"   -> \A i \in 1..Len(rets) : (i - 1 >= n) => rets[i] = n
       [] k = "fit_bytes" -> \A i \in 1..Len(rets) : (i - 1 >= n) => eq[i]
       [] k = "short_ret" -> \A i \in 1..Len(rets) : (i - 1 < n) => rets[i] = 0
       [] k = "short_zero" -> \A i \in 1..Len(rets) : (i - 1 < n) => zero[i]
       [] k = "guard"     -> \A i \in 1..Len(rets) : guard[i]
       [] k = "asan"      -> \A i \in 1..Len(rets) : asan[i] = 0 }
Tagged(p, S) == { p \o k : k \in S }
CapFails(r) ==
  IF r.sig # 0 THEN {"crash"}
  ELSE LET enc == Encode(r.addr, r.args) IN
       (IF r.sizeq = Len(enc) THEN {} ELSE {"sizeq"})
       \cup (IF r.ret_big = Len(enc) /\ r.bytes = enc THEN {} ELSE {"reference_image"})
       \cup Tagged("a:", CapFailsOne(r, enc, r.rets_a, r.zero_a, r.eq_a, r.guard_a, r.asan_a))
       \cup Tagged("v:", CapFailsOne(r, enc, r.rets_v, r.zero_v, r.eq_v, r.guard_v, r.asan_v))
       \cup (IF r.av_done THEN Tagged("av:", CapFailsOne(r, enc, r.rets_av, r.zero_av, r.eq_av, r.guard_av, r.asan_av)) ELSE {})

Fails(r) == CASE r.k = "msg" -> MsgFails(r)
              [] r.k = "cap" -> CapFails(r)
              [] OTHER -> {"unknown_record_kind"}
Judge == LET f == Fails(Log[l]) IN f = {} \/ PrintT(<<"REJECT", l, f>>)
=============================================================================
