---------------------------- MODULE PortTree ----------------------------
(* Port trees (rtosc::Ports) denotationally: which ports a message reaches       *)
(* (Dispatch), which addresses a tree answers to (Walk), which port an address   *)
(* names (Lookup).  There is no notion of hashing, scanning order or buffers     *)
(* here - a table is a finite sequence of ports, a port is a pattern             *)
(* (PathPattern.tla) plus, for sub-tree ports, a child table.                    *)
(*                                                                               *)
(*   table == [ports |-> Seq(port), dflt |-> BOOLEAN]                            *)
(*   port  == [id |-> Nat, name |-> bytes, pat |-> pattern, leaf |-> BOOLEAN,    *)
(*             sub |-> table (empty for leaves), meta |-> bytes,                 *)
(*             ptr |-> "member" | "null" , enabledby |-> 0 | id of a toggle port] *)
(*   A sub-tree port's pattern is one path component ending in '/'.              *)
EXTENDS PathPattern

RECURSIVE Concat(_)
Concat(ss) == IF ss = <<>> THEN <<>> ELSE Head(ss) \o Concat(Tail(ss))
Range(f) == { f[i] : i \in DOMAIN f }
RECURSIVE FirstSlash(_, _)
FirstSlash(a, k) == IF k > Len(a) THEN 0 ELSE IF a[k] = 47 THEN k ELSE FirstSlash(a, k + 1)
\* index carried by the first digit run of a component (0 when there is none), as rRecurs computes it
RECURSIVE FirstIndex(_)
FirstIndex(a) == IF a = <<>> THEN 0 ELSE IF IsDigit(Head(a)) THEN Val(a, DigitRun(a)) ELSE FirstIndex(Tail(a))

\* ------------------------------------------------------------------ dispatch (C04)
\* The callbacks a message [addr (without the leading '/'), tags] must / may trigger below
\* table tb: a sequence of [id, chain, loc, must].  chain is the runtime-object path handed
\* down by the parent levels: <<port position in its table, enumeration index>> per level;
\* loc is the full address the callback has to see in the location buffer.
RECURSIVE Calls(_, _, _, _, _)
Calls(tb, addr, tags, chain, prefix) ==
  Concat([i \in 1..Len(tb.ports) |->
    LET p == tb.ports[i] IN
    IF p.leaf
    THEN IF MatchPath(p.pat, addr) /\ TypeVerdict(p.pat, tags) >= 1
         THEN << [id |-> p.id, chain |-> chain, loc |-> prefix \o addr, must |-> TypeVerdict(p.pat, tags) = 2] >>
         ELSE <<>>
    ELSE LET k == FirstSlash(addr, 1) IN
         IF k = 0 \/ ~ MatchPath(p.pat, addr) THEN <<>>
         ELSE Calls(p.sub, SubSeq(addr, k + 1, Len(addr)), tags,
                    Append(chain, <<i, FirstIndex(SubSeq(addr, 1, k))>>), prefix \o SubSeq(addr, 1, k)) ])
Dispatch(tree, addr, tags) == Calls(tree, addr, tags, <<>>, <<47>>)
Key(c) == <<c.id, c.chain>>
Must(cs) == { Key(cs[i]) : i \in { j \in 1..Len(cs) : cs[j].must } }
May(cs) == { Key(cs[i]) : i \in 1..Len(cs) }

\* ------------------------------------------------------------------ walk (C09)
\* Every concrete address of every leaf: each #N expanded to 0..N-1, in table order.
RECURSIVE Expand(_)
Expand(segs) ==     \* all spellings of a segment list, enumerations ascending (alternatives are not walked)
  IF segs = <<>> THEN << <<>> >>
  ELSE LET g == Head(segs)  rest == Expand(Tail(segs))
           heads == CASE g.k = "lit" -> << g.s >>
                      [] g.k = "enum" -> [v \in 1..g.n |-> ToDec(v - 1)]
                      [] OTHER -> << <<>> >> IN
       Concat([h \in 1..Len(heads) |-> [t \in 1..Len(rest) |-> heads[h] \o rest[t]]])
\* rt = TRUE: a runtime object is supplied, so sub-trees whose object pointer is null or whose
\* enabling toggle (state: function from toggle ids to BOOLEAN) is off are skipped
RECURSIVE WalkT(_, _, _, _)
WalkT(tb, prefix, rt, state) ==
  \* a table may switch ITSELF off (its "self:" port is 'enabled by' a toggle of the same table, selfen = that toggle's id): the walk then
  \* reports the enabling port only - "an enabling port must always be traversed" (ports.cpp) - and nothing else of the table
  IF rt /\ "selfen" \in DOMAIN tb /\ tb.selfen # 0 /\ ~ state[tb.selfen]
  THEN LET e == CHOOSE i \in 1..Len(tb.ports) : tb.ports[i].id = tb.selfen  nm == Expand(tb.ports[e].pat.segs)[1] IN << [id |-> tb.selfen, addr |-> prefix \o nm, plen |-> Len(nm)] >>
  ELSE
  Concat([i \in 1..Len(tb.ports) |->
    LET p == tb.ports[i]  names == Expand(p.pat.segs) IN
    \* plen: the length of the port's own part of the address - the walker is handed a pointer to where that part begins
    IF p.leaf THEN [n \in 1..Len(names) |-> [id |-> p.id, addr |-> prefix \o names[n], plen |-> Len(names[n])]]
    ELSE IF rt /\ (p.ptr = "null" \/ (p.enabledby # 0 /\ ~ state[p.enabledby])) THEN <<>>
    ELSE Concat([n \in 1..Len(names) |-> WalkT(p.sub, prefix \o names[n], rt, state)]) ])
Walk(tree, prefix) == WalkT(tree, prefix, FALSE, <<>>)
NoDups(s) == \A i, j \in 1..Len(s) : i # j => s[i] # s[j]
\* two sibling ports are "namesakes" when they spell the same path (they may differ in ':types');
\* only without namesakes does an address identify one port
RECURSIVE PathKey(_)
PathKey(segs) == IF segs = <<>> THEN <<>>
                 ELSE (IF Head(segs).k = "lit" THEN Head(segs).s ELSE <<35>>) \o PathKey(Tail(segs))
RECURSIVE NoNamesakes(_)
NoNamesakes(tb) == /\ \A i, j \in 1..Len(tb.ports) : i # j => PathKey(tb.ports[i].pat.segs) # PathKey(tb.ports[j].pat.segs)
                   /\ \A i \in 1..Len(tb.ports) : tb.ports[i].leaf \/ NoNamesakes(tb.ports[i].sub)

\* ------------------------------------------------------------------ derived tables (ClonePorts, MergePorts)
\* MergePorts: the ports of the given tables in order, a port whose NAME is already present is left out (no default handler).
\* ClonePorts: the named ports of a table in the order of the names (a "*" entry stands for the default handler).
NameIn(n, ps) == \E i \in 1..Len(ps) : ps[i].name = n
RECURSIVE MergeSeq(_, _)
MergeSeq(acc, ps) == IF ps = <<>> THEN acc ELSE MergeSeq(IF NameIn(Head(ps).name, acc) THEN acc ELSE Append(acc, Head(ps)), Tail(ps))
Merge(t1, t2) == [dflt |-> FALSE, ports |-> MergeSeq(MergeSeq(<<>>, t1.ports), t2.ports)]
Clone(tb, names, withDefault) == [dflt |-> withDefault, ports |-> [k \in 1..Len(names) |-> (CHOOSE i \in 1..Len(tb.ports) : tb.ports[i].name = names[k] /\ \A j \in (i + 1)..Len(tb.ports) : tb.ports[j].name # names[k]) ] ]
\* (ClonePorts keeps the LAST port of that name; the function above yields positions - CloneTable turns them into ports)
CloneTable(tb, names, withDefault) == LET c == Clone(tb, names, withDefault) IN [dflt |-> c.dflt, ports |-> [k \in 1..Len(names) |-> tb.ports[c.ports[k]]]]
Names(tb) == [i \in 1..Len(tb.ports) |-> tb.ports[i].name]
DistinctNames(tb) == \A i, j \in 1..Len(tb.ports) : i # j => tb.ports[i].name # tb.ports[j].name
\* the two routes the conformance driver uses to build a table it already has: they must give the table back
MergeOfOverlappingHalves(tb, k) == Merge([dflt |-> FALSE, ports |-> SubSeq(tb.ports, 1, k)], [dflt |-> FALSE, ports |-> SubSeq(tb.ports, k, Len(tb.ports))])
\* ------------------------------------------------------------------ lookup (C18, second sentence)
\* the port a walked address names: the unique leaf the address reaches
LookupIds(tree, addr) == { c.id : c \in Range(Dispatch(tree, addr, <<>>)) }
=============================================================================
