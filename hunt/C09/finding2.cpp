// build: c++ -std=c++17 -I../include finding2.cpp ../_build/librtosc-cpp.a ../_build/librtosc.a -o finding2
//
// C09 / walk_ports: a LEAF port with two '#N' components ("a#3/b#2/c::i") has
// only its first '#N' expanded; the reported addresses still contain "#2",
// are no OSC addresses the port answers to, and 3 instead of 6 are reported.
#include <rtosc/ports.h>
#include <rtosc/rtosc.h>
#include <cstdio>
#include <cstring>
#include <string>
#include <vector>
using namespace rtosc;

static std::vector<std::string> dispatched;
static const Ports ports = {
    {"a#3/b#2/c::i", 0, 0, [](const char*, RtData& d){ dispatched.push_back(d.loc); }},
};

int main()
{
    // 1. the port answers to the six concrete addresses
    int answered = 0;
    for(int i = 0; i < 3; ++i) for(int j = 0; j < 2; ++j) {
        char addr[64], msg[128], loc[128] = "";
        snprintf(addr, sizeof addr, "/a%d/b%d/c", i, j);
        rtosc_message(msg, sizeof msg, addr, "");
        RtData d; d.loc = loc; d.loc_size = sizeof loc;
        dispatched.clear();
        ports.dispatch(msg, d, true);
        answered += dispatched.size() == 1 && dispatched[0] == addr;
    }
    printf("concrete addresses /a{0..2}/b{0..1}/c answered by the port: %d of 6\n", answered);

    // 2. walk
    char buf[1024]; memset(buf, 0, sizeof buf);
    std::vector<std::string> rep;
    walk_ports(&ports, buf, sizeof buf, &rep,
               [](const Port*, const char* name, const char*, const Ports&,
                  void* data, void*) { ((std::vector<std::string>*)data)->push_back(name); });
    std::string got, expected = "/a0/b0/c;/a0/b1/c;/a1/b0/c;/a1/b1/c;/a2/b0/c;/a2/b1/c;";
    int undispatchable = 0;
    for(auto& a : rep) {
        got += a + ";";
        char msg[128], loc[128] = "";
        rtosc_message(msg, sizeof msg, a.c_str(), "");
        RtData d; d.loc = loc; d.loc_size = sizeof loc;
        dispatched.clear();
        ports.dispatch(msg, d, true);
        if(dispatched.size() != 1) { ++undispatchable; printf("reported address %s is not dispatched to any port\n", a.c_str()); }
    }
    printf("expected walk: %s\n", expected.c_str());
    printf("got      walk: %s\n", got.c_str());
    printf("buffer after walk: '%s' (expected '/')\n", buf);
    bool bad = answered != 6 || got != expected || undispatchable || strcmp(buf, "/");
    puts(bad ? "FAIL" : "ok");
    return bad;
}
