// Minimal JSON value, reader and writer for the conformance drivers.
// Numbers are integers only (nothing wider than 31 bits crosses the TLC boundary).
#pragma once
#include <cstdio>
#include <cstdlib>
#include <cstring>
#include <cstdint>
#include <map>
#include <string>
#include <vector>

struct J {
    enum K { NUL, BOOL, NUM, STR, ARR, OBJ } k = NUL;
    bool b = false;
    long long n = 0;
    std::string s;
    std::vector<J> a;
    std::vector<std::pair<std::string, J>> o;
    const J &operator[](const char *key) const {
        for (auto &p : o) if (p.first == key) return p.second;
        static J nul; return nul;
    }
    bool has(const char *key) const { for (auto &p : o) if (p.first == key) return true; return false; }
    const J &operator[](size_t i) const { return a[i]; }
    const J &operator[](int i) const { return a[(size_t)i]; }
    size_t size() const { return k == ARR ? a.size() : o.size(); }
    long long num() const { return k == BOOL ? (b ? 1 : 0) : n; }
    std::vector<uint8_t> bytes() const { std::vector<uint8_t> r; for (auto &x : a) r.push_back((uint8_t)x.n); return r; }
    std::string text() const { if (k == STR) return s; std::string r; for (auto &x : a) r.push_back((char)x.n); return r; }
};

struct JParser {
    const char *p;
    explicit JParser(const char *s) : p(s) {}
    void ws() { while (*p == ' ' || *p == '\t' || *p == '\n' || *p == '\r') ++p; }
    J parse() {
        ws(); J v;
        if (*p == '{') { ++p; v.k = J::OBJ; ws(); if (*p == '}') { ++p; return v; }
            for (;;) { ws(); J key = parse(); ws(); if (*p == ':') ++p; J val = parse(); v.o.emplace_back(key.s, val); ws(); if (*p == ',') { ++p; continue; } if (*p == '}') { ++p; break; } break; } }
        else if (*p == '[') { ++p; v.k = J::ARR; ws(); if (*p == ']') { ++p; return v; }
            for (;;) { v.a.push_back(parse()); ws(); if (*p == ',') { ++p; continue; } if (*p == ']') { ++p; break; } break; } }
        else if (*p == '"') { ++p; v.k = J::STR;
            while (*p && *p != '"') { if (*p == '\\') { ++p; switch (*p) { case 'n': v.s += '\n'; break; case 't': v.s += '\t'; break; case 'r': v.s += '\r'; break; case 'b': v.s += '\b'; break; case 'f': v.s += '\f'; break;
                        case 'u': { unsigned c = 0; sscanf(p + 1, "%4x", &c); v.s += (char)c; p += 4; break; } default: v.s += *p; } ++p; } else v.s += *p++; }
            if (*p == '"') ++p; }
        else if (!strncmp(p, "true", 4)) { p += 4; v.k = J::BOOL; v.b = true; }
        else if (!strncmp(p, "false", 5)) { p += 5; v.k = J::BOOL; v.b = false; }
        else if (!strncmp(p, "null", 4)) { p += 4; v.k = J::NUL; }
        else { v.k = J::NUM; char *e; v.n = strtoll(p, &e, 10); if (e == p) { ++p; } else p = e; }
        return v;
    }
};
inline J jparse(const std::string &s) { JParser q(s.c_str()); return q.parse(); }

// ---- writer: builds one line of JSON
struct JW {
    std::string s;
    std::vector<bool> first;
    void sep() { if (!first.empty()) { if (!first.back()) s += ','; first.back() = false; } }
    JW &obj() { sep(); s += '{'; first.push_back(true); return *this; }
    JW &arr() { sep(); s += '['; first.push_back(true); return *this; }
    JW &end_obj() { s += '}'; first.pop_back(); return *this; }
    JW &end_arr() { s += ']'; first.pop_back(); return *this; }
    JW &key(const char *k) { sep(); s += '"'; s += k; s += "\":"; first.back() = true; return *this; }
    JW &num(long long v) { sep(); s += std::to_string(v); return *this; }
    JW &boolean(bool v) { sep(); s += v ? "true" : "false"; return *this; }
    JW &str(const std::string &v) { sep(); s += '"'; for (unsigned char c : v) { if (c == '"' || c == '\\') { s += '\\'; s += (char)c; } else if (c < 32 || c > 126) { char b[8]; snprintf(b, 8, "\\u%04x", c); s += b; } else s += (char)c; } s += '"'; return *this; }
    JW &bytes(const uint8_t *p, size_t n) { arr(); for (size_t i = 0; i < n; ++i) num(p[i]); return end_arr(); }
    JW &bytes(const std::vector<uint8_t> &v) { return bytes(v.data(), v.size()); }
    JW &raw(const std::string &json) { sep(); s += json; return *this; }
    JW &knum(const char *k, long long v) { key(k); return num(v); }
    JW &kbool(const char *k, bool v) { key(k); return boolean(v); }
    JW &kstr(const char *k, const std::string &v) { key(k); return str(v); }
    JW &kbytes(const char *k, const uint8_t *p, size_t n) { key(k); return bytes(p, n); }
    JW &kbytes(const char *k, const std::vector<uint8_t> &v) { key(k); return bytes(v); }
    // 16-bit limbs, most significant first
    JW &limbs32(uint32_t v) { arr(); num(v >> 16); num(v & 0xffff); return end_arr(); }
    JW &limbs64(uint64_t v) { arr(); num((v >> 48) & 0xffff); num((v >> 32) & 0xffff); num((v >> 16) & 0xffff); num(v & 0xffff); return end_arr(); }
};

inline bool read_line(FILE *f, std::string &out) {
    out.clear(); int c;
    while ((c = fgetc(f)) != EOF) { if (c == '\n') return true; out.push_back((char)c); }
    return !out.empty();
}
inline uint32_t from_limbs32(const J &a) { return ((uint32_t)a[0].n << 16) | (uint32_t)a[1].n; }
inline uint64_t from_limbs64(const J &a) { return ((uint64_t)a[0].n << 48) | ((uint64_t)a[1].n << 32) | ((uint64_t)a[2].n << 16) | (uint64_t)a[3].n; }
