CONSTANTS MaxMsgs = 3  SimMode = FALSE  OrderRule = FALSE
INIT Init
NEXT Next
INVARIANT DefaultSavesNothing RoundTrip OrderIndependent
CONSTRAINT Emit
CHECK_DEADLOCK FALSE
