CONSTANTS Addrs = {"p", "q"}  Ids = {1, 2, 3}  V = 2  MaxOps = 6  Fix = TRUE  Bug = "lifo"
SPECIFICATION Spec
INVARIANT LearnOrder UniqueIds GenConsistent DrivesItsAddress AssignedIsLive OneMessage InRange
VIEW View
CHECK_DEADLOCK FALSE
