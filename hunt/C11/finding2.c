// build: gcc -I/tmp/wt/C11_h/include /tmp/wt/C11_h/findings/finding2.c /tmp/wt/C11_h/_build/librtosc-cpp.a /tmp/wt/C11_h/_build/librtosc.a -lm -o /tmp/wt/C11_h/findings/finding2
// The checker looks for the value left of a range's start ("a" in "a b ... c")
// with strstr(previous_value_text, "..."): three dots inside a string or inside
// a comment are taken for the ellipsis of a preceding range.
#include <stdio.h>
#include <string.h>
#include <rtosc/rtosc.h>
#include <rtosc/pretty-format.h>

int main(void)
{
    int bad = 0;
    struct { const char* text; int expect; } t[] = {
        // a string, then the range 3 4 5 6  (string: 1 cell, range: 3 cells)
        { "\"x...y\" 3 ... 6",       4 },   // control: accepted
        { "\"x... 1 \" 3 ... 6",     4 },   // same, other string content
        { "\"this is... 1 \" 3 ... 6", 4 },
        // nil, then the range 3 4 5 6, with and without a comment in between
        { "nil 3 ... 6",             4 },   // control: accepted
        { "nil % see ... 1\n 3 ... 6", 4 },
        { 0, 0 } };
    for(int i = 0; t[i].text; ++i) {
        int n = rtosc_count_printed_arg_vals(t[i].text);
        printf("<%s>\n  expected count %d, got %d%s\n", t[i].text, t[i].expect, n,
               n == t[i].expect ? "" : "   <-- WRONG");
        if(n != t[i].expect) bad = 1;
    }
    // the other direction: "2 4 ... 7" has no n with 4+2n=7 and is rejected,
    // with a comment containing "..." the checker accepts it
    int n1 = rtosc_count_printed_arg_vals("2 4 ... 7");
    int n2 = rtosc_count_printed_arg_vals("2 %...\n 4 ... 7");
    printf("<2 4 ... 7> count %d; with comment <2 %%...\\n 4 ... 7> count %d (expected: equal verdicts)%s\n",
           n1, n2, (n1 > 0) == (n2 > 0) ? "" : "   <-- WRONG");
    if((n1 > 0) != (n2 > 0)) bad = 1;
    printf(bad ? "FAIL\n" : "ok\n");
    return bad;
}
