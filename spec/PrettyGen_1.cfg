CONSTANTS MaxItems = 1
INIT Init
NEXT Next
CONSTRAINT Emit
CHECK_DEADLOCK FALSE
