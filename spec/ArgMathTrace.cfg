INIT TInit
NEXT TNext
INVARIANT Judge
CHECK_DEADLOCK FALSE
