CONSTANTS NSlots = 4  PerSlot = 2  Params = {"/i"}  PosValues = {0}  NegValues = {}  PosGains = {100}  NegGains = {}  PosOffsets = {0}  NegOffsets = {}  CCs = {1}  MaxOps = 100000000  Bug = "none"
INIT TInit
NEXT TNext
INVARIANT Judge
CHECK_DEADLOCK FALSE
