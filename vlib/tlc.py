"""Thin wrapper around TLC: runs a module/cfg from /verif/spec with its own
metadir, passes inputs through environment variables (read in TLA+ via IOEnv),
and parses TLC's own summary lines.  A TLC that does not finish cleanly is a
*broken check* (ModelError), never a pass and never a violation."""
import os, re, shutil, subprocess, time

VERIF = os.path.dirname(os.path.dirname(os.path.abspath(__file__)))
SPEC = os.path.join(VERIF, "spec")
JAR = "/opt/veriftools/tla/tla2tools.jar:/opt/veriftools/tla/CommunityModules-deps.jar"


class ModelError(Exception):
    pass


class Result:
    def __init__(self):
        self.generated = 0
        self.distinct = 0
        self.depth = 0
        self.violated = None      # name of violated invariant / property, if any
        self.out = ""
        self.wall = 0.0
        self.coverage = {}        # action -> (taken distinct, generated)


def run(module, cfg, workdir, env=None, workers=8, simulate=None, depth=None, seed=None,
        timeout=900, coverage=False, deque=False, xmx="8g", expect_violation=False, extra=()):
    """module: name in spec/ (without .tla); cfg: file name in spec/"""
    os.makedirs(workdir, exist_ok=True)
    cfgname = os.path.splitext(os.path.basename(cfg))[0]
    meta = os.path.join(workdir, "meta_%s_%d" % (cfgname, os.getpid()))
    shutil.rmtree(meta, ignore_errors=True)
    jopts = ["-XX:+UseParallelGC", "-Xmx" + xmx, "-Xss32m"]      # worker threads evaluate deep recursive operators (byte images of ~1 kB)
    if deque:
        jopts.append("-Dtlc2.tool.queue.IStateQueue=StateDeque")
    cmd = ["timeout", str(timeout), "java"] + jopts + ["-cp", JAR, "tlc2.TLC",
           "-workers", str(workers), "-metadir", meta, "-noGenerateSpecTE",
           "-config", cfg if os.path.isabs(cfg) else os.path.join(SPEC, cfg)]
    if simulate is not None:
        cmd += ["-simulate", "num=%d" % simulate]
        if depth:
            cmd += ["-depth", str(depth)]
    if seed is not None:
        cmd += ["-seed", str(seed)]
    if coverage:
        cmd += ["-coverage", "1"]
    cmd += list(extra) + [os.path.join(SPEC, module + ".tla")]
    e = dict(os.environ)
    e.pop("JAVA_TOOL_OPTIONS", None)
    if env:
        e.update({k: str(v) for k, v in env.items()})
    t = time.time()
    p = subprocess.run(cmd, cwd=SPEC, env=e, stdout=subprocess.PIPE, stderr=subprocess.STDOUT, text=True)
    r = Result()
    r.wall = time.time() - t
    r.out = p.stdout
    shutil.rmtree(meta, ignore_errors=True)
    with open(os.path.join(workdir, "tlc_%s.log" % cfgname), "w") as f:
        f.write(" ".join(cmd) + "\n" + p.stdout)
    m = re.findall(r"(\d+) states generated, (\d+) distinct states found", p.stdout)
    if m:
        r.generated, r.distinct = int(m[-1][0]), int(m[-1][1])
    m = re.search(r"depth of the complete state graph search is (\d+)", p.stdout)
    if m:
        r.depth = int(m.group(1))
    m = re.search(r"Invariant (\S+) is violated", p.stdout)
    if m:
        r.violated = m.group(1)
    m2 = re.search(r"Action property (\S+) is violated|Temporal properties were violated|The postcondition (\S+)? ?(is|was) violated", p.stdout)
    if m2 and not r.violated:
        r.violated = m2.group(1) or m2.group(2) or "property"
    if "Assumption" in p.stdout and "is false" in p.stdout:
        r.violated = r.violated or "ASSUME"
    for a, tk, gen in re.findall(r"<(\w+) line [^>]*>: (\d+):(\d+)", p.stdout):
        o = r.coverage.get(a, (0, 0))
        r.coverage[a] = (o[0] + int(tk), o[1] + int(gen))
    if p.returncode == 124:
        raise ModelError("TLC timed out after %ds on %s/%s" % (timeout, module, cfg))
    if simulate is not None:
        # simulation mode never says "Model checking completed"; it ends by num= or by error
        finished = ("The number of states generated" in p.stdout) or r.violated
    else:
        finished = "Model checking completed" in p.stdout or r.violated
    if r.violated:
        if expect_violation:
            return r
        return r
    if not finished or ("Error:" in p.stdout and not r.violated):
        raise ModelError("TLC failed on %s/%s (exit %d):\n%s" % (module, cfg, p.returncode, p.stdout[-3000:]))
    return r


def sany(module):
    p = subprocess.run(["java", "-cp", JAR, "tla2sany.SANY", os.path.join(SPEC, module + ".tla")],
                       cwd=SPEC, stdout=subprocess.PIPE, stderr=subprocess.STDOUT, text=True)
    return p.returncode == 0 and "error" not in p.stdout.lower(), p.stdout
