"""Shared engine of C12 / C13 / C14: scripts on the curated application app1 (real port-sugar
macros).  AppGen.tla enumerates message sequences (TLC BFS to depth 2, simulation to depth 12)
and checks the design laws (DefaultSavesNothing, RoundTrip, OrderIndependent) plus the
no-order-rule mutant; the driver runs each script on a fresh instance (set + get, then save and
load back under every permutation / single-line omission); AppTrace.tla judges every operation.
Each property reports the clauses with its own prefix."""
import json, os, random
from vlib import core

BAD_FILES = [
    ("wrong first line", "% NOT AN RT OSC v0.3.1 savefile\n% app1 v1.2.3\n/pi 7\n"),
    ("no header", "/pi 7\n"),
    ("other application", "% RT OSC v0.3.1 savefile\n% app2 v1.2.3\n/pi 7\n"),
    ("application whose name extends ours", "% RT OSC v0.3.1 savefile\n% app12 v1.2.3\n/pi 7\n"),
    ("application whose name extends ours (letter)", "% RT OSC v0.3.1 savefile\n% app1x v1.2.3\n/pi 7\n"),
    ("application whose name is a prefix of ours", "% RT OSC v0.3.1 savefile\n% app v1.2.3\n/pi 7\n"),
    ("application whose name ends with ours", "% RT OSC v0.3.1 savefile\n% xapp1 v1.2.3\n/pi 7\n"),
    ("application version missing", "% RT OSC v0.3.1 savefile\n% app1\n/pi 7\n"),
    ("library version component beyond 255", "% RT OSC v0.256.1 savefile\n% app1 v1.2.3\n/pi 7\n"),
    ("application version component beyond 255", "% RT OSC v0.3.1 savefile\n% app1 v1.2.300\n/pi 7\n"),
    ("unparsable line", "% RT OSC v0.3.1 savefile\n% app1 v1.2.3\n/pi 7\n/pf $$$\n"),
    ("unterminated string", "% RT OSC v0.3.1 savefile\n% app1 v1.2.3\n/ps \"abc\n"),
    ("line no port accepts (unknown port)", "% RT OSC v0.3.1 savefile\n% app1 v1.2.3\n/pi 7\n/nope 1\n"),
    ("line no port accepts (wrong type)", "% RT OSC v0.3.1 savefile\n% app1 v1.2.3\n/pi 1.5\n"),
    ("line no port accepts (null sub-tree)", "% RT OSC v0.3.1 savefile\n% app1 v1.2.3\n/psub/si 3\n"),
]


def script_desc(ev, upto):
    return [{k: v for k, v in e.items() if k in ("op", "addr", "ty", "v", "text", "ins")} for e in ev[:upto]]


def run(ctx, prefix):
    if ctx.replay:
        case = json.load(open(ctx.replay))["case"]
        scripts = [case["script"]]
    else:
        thorough = ctx.tier == "thorough"
        ctx.spec_law("AppGen", "AppGen_1.cfg", workers=8, env={"OUT": "none"})
        ctx.spec_mutant("AppGen", "AppGen_noorder.cfg", workers=16, env={"OUT": "none"})
        vec, r = ctx.vectors("AppGen", "AppGen_2.cfg", "scripts", timeout=1800)
        ctx.bounds["two_message_scripts"] = r.distinct
        rng = random.Random(ctx.seed)
        if not thorough:
            vec = [v for v in vec if len(v) <= 2 or rng.random() < 0.2]
        ctx.exhaustive = thorough
        raw = ctx.path("sim.raw")
        ctx.tlc("AppGen", "AppGen_sim.cfg", env={"OUT": raw}, workers=4, simulate=(1500 if thorough else 150), depth=13, seed=ctx.seed, count=False)
        seen = set()
        sim = []
        for line in open(raw):
            s = json.loads(line)
            if s not in seen:
                seen.add(s)
                sim.append(json.loads(s))
        os.remove(raw)
        ctx.notes["simulated_scripts"] = len(sim)
        scripts = []
        for ops in vec + sim:
            out = []
            for o in ops:
                out.append(o)
                if o["op"] == "set":
                    out.append(dict(op="get", addr=o["addr"]))
            scripts.append(out)
        # messages whose type the port does not admit, and queries below a null pointer
        for addr, ty, v in (("/pi", "f", 4), ("/pf", "i", 3), ("/pt", "i", 1), ("/ps", "i", 1), ("/ai1", "f", 4), ("/psub/si", "i", 3), ("/sub/st", "i", 1)):
            scripts.append([dict(op="set", addr=addr, ty=ty, v=v), dict(op="get", addr=addr), dict(op="saveload", seed=0)])
        # long arrays: their saved form contains compressed runs ("5x7", "1 ... 6"); and the enumerated sub-tree below a sub-tree that can be disabled
        def sets(pairs):
            out = []
            for a, v in pairs:
                out += [dict(op="set", addr=a, ty="i", v=v), dict(op="get", addr=a)]
            return out + [dict(op="saveload", seed=1)]
        scripts.append(sets([("/al%d" % i, 7) for i in range(5)] + [("/al5", 1), ("/al6", 2)]))
        scripts.append(sets([("/al%d" % i, i + 1) for i in range(6)] + [("/al6", 9)]))
        scripts.append(sets([("/al%d" % i, 5) for i in range(2, 8)]))
        scripts.append(sets([("/al%d" % i, 10 - i) for i in range(8)]))
        # long toggle arrays: the saved form holds a compressed run of toggles ("5xfalse true", "6xtrue false true")
        T = lambda a, on=True: dict(op="set", addr=a, ty="T" if on else "F")
        scripts.append([T("/ab5"), dict(op="saveload", seed=6)])
        scripts.append([T("/ab%d" % i) for i in range(6)] + [T("/ab7"), dict(op="saveload", seed=7)])
        scripts.append([T("/ab%d" % i) for i in range(8)] + [T("/ab6", False), dict(op="saveload", seed=8)])
        scripts.append([T("/ab0"), T("/ab6"), T("/ab7"), dict(op="saveload", seed=9)])
        scripts.append([dict(op="set", addr="/fx_on", ty="T"), dict(op="set", addr="/fx/voice1/vol", ty="i", v=100), dict(op="set", addr="/fx/gain", ty="i", v=9), dict(op="saveload", seed=2)])
        scripts.append([dict(op="set", addr="/fx/voice0/vol", ty="i", v=1), dict(op="set", addr="/fx_on", ty="T"), dict(op="set", addr="/fx/voice1/vol", ty="i", v=127), dict(op="saveload", seed=3)])
        scripts.append([dict(op="set", addr="/fx_on", ty="T"), dict(op="set", addr="/fx/type", ty="i", v=2), dict(op="set", addr="/fx/level", ty="i", v=55), dict(op="saveload", seed=4)])
        scripts.append([dict(op="set", addr="/fx_on", ty="T"), dict(op="set", addr="/fx/type", ty="i", v=1), dict(op="set", addr="/fx/level", ty="i", v=77), dict(op="set", addr="/pi", ty="i", v=9), dict(op="saveload", seed=5)])
        for what, text in BAD_FILES:
            scripts.append([dict(op="loadraw", text=text, what=what)])
        # a line without a value is a query the port answers: whatever the loader makes of it, it must come back
        scripts.append([dict(op="loadraw", text="% RT OSC v0.3.1 savefile\n% app1 v1.2.3\n/pi\n", what="line without a value", any_result=True)])
        scripts.append([dict(op="loadraw", text="% RT OSC v0.3.1 savefile\n% app1 v1.2.3\n/pi 7\n/pt\n/pf 1.5\n", what="line without a value between two lines", any_result=True)])
        # loading through a dispatcher with hooks (discard / abort / rename / change an argument), on a sample of the scripts above
        nh = 0
        for k, sc in enumerate(list(scripts)):
            if k % (4 if thorough else 23) or not sc or sc[-1].get("op") != "saveload":
                continue
            touched = [o["addr"] for o in sc if o.get("op") == "set"]
            if not touched:
                continue
            hook = dict(op="savehook", discard=[], abort="", ren_from="", ren_to="", inc_addr="", inc_by=0)
            mode = nh % 5
            nh += 1
            if mode == 0:
                hook["discard"] = [rng.choice(touched)] + (["/ai", "/al"] if nh % 2 else ["/sub/sa"])
            elif mode == 1:
                hook["abort"] = rng.choice(touched)
            elif mode == 2 and "/pn" not in touched:
                hook["ren_from"], hook["ren_to"] = "/pi", "/pn"
            elif mode == 3:
                hook["inc_addr"], hook["inc_by"] = "/pi", rng.choice([3, -7, 2000])
            else:
                hook["discard"] = [a for a in touched if a.startswith(("/fx", "/sub", "/psub"))][:2]
                hook["inc_addr"], hook["inc_by"] = "/dep", 1
            if nh % 3 == 0:
                hook["file_vers"] = [rng.choice([0, 255]), rng.randint(0, 255), rng.randint(0, 255), rng.choice([0, 1, 255]), rng.randint(0, 255), rng.randint(0, 255)]
            scripts.append(sc[:-1] + ([dict(op="set", addr="/pi", ty="i", v=40)] if mode in (2, 3) else []) + [hook])
        ctx.notes["scripts_loaded_through_hooks"] = nh
        # C14 at the resolution of float bit patterns: every sequence of FloatPort.tla (neighbouring floats, denormals, each port's bound and its neighbours)
        fseq, rf = ctx.vectors("FloatPort", "FloatPort_3.cfg" if thorough else "FloatPort_2.cfg", "fseq")
        ctx.bounds["float_pattern_sequences"] = len(fseq)
        for i, q in enumerate(fseq):
            for addr in (("/pg", "/pf", "/af1", "/sub/sf") if (thorough or len(q) == 1) else (("/pg", "/pf", "/af1", "/sub/sf")[i % 4],)):
                scripts.append([dict(op="floatseq", addr=addr, ins=q + [1065353216])])
    p = ctx.path("scripts.ndjson")
    with open(p, "w") as f:
        for s in scripts:
            f.write(json.dumps(s) + "\n")
    ctx.driver("app_driver", "asan", ["run", p, ctx.path("log.ndjson")], timeout=3000)
    rej = ctx.validate_execs("AppTrace", "AppTrace.cfg", ctx.path("log.ndjson"), timeout=3000)
    nperm = 0
    with open(ctx.path("log.ndjson")) as f:
        for i, line in enumerate(f, 1):
            r = json.loads(line)
            ev = r["ev"]
            if r.get("sig"):
                ctx.reject(dict(clause="crash_or_hang"), dict(script=scripts[i - 1]), "crash or hang while running a script on app1: %s" % r.get("asan_what"))
                continue
            ctx.evaluations += len(ev)
            for e in ev:
                if e["op"] == "saveload":
                    nperm += e["nperm"] + len(e["drops"])
                    if len(e["lines"]) >= 2:
                        ctx.nontrivial.add(json.dumps(script_desc(ev, len(ev))))
            if i in rej:
                cl, l = rej[i]
                mine = [c for c in cl if c.startswith(prefix) or (prefix == "c12:" and c == "memory_error")]
                e = ev[l - 1]
                for c in mine:
                    extra = ""
                    if e["op"] == "saveload":
                        extra = " saved lines %s; load outcomes %s" % ([ln["text"] for ln in e["lines"]], [(o["count"], o["res"]["ret"]) for o in e["outcomes"]][:4])
                    elif e["op"] in ("set", "get"):
                        extra = " events %s" % [(x["kind"], x["addr"], x["tags"], [(a["t"], a["n"]) for a in x["args"]]) for x in e["events"]]
                    elif e["op"] == "savehook":
                        extra = " saved lines %s; hook %s; load_from_file returned %s after %s hook call(s)" % ([ln["text"] for ln in e["lines"]], e["hook"], e["ret"], e["hook_calls"])
                    elif e["op"] == "floatseq":
                        extra = " float patterns %s sent to %s: stored %s, undo events %s" % (e["ins"], e["addr"], [x["stored"] for x in e["steps"]], [x["undo"] for x in e["steps"]])
                    elif e["op"] == "loadraw":
                        extra = " load_from_file returned %s for a file with: %s" % (e["ret"], scripts[i - 1][0].get("what"))
                    ctx.reject(dict(clause=c, op=e["op"], addr=e.get("addr", "")), dict(script=scripts[i - 1][:l] if e["op"] != "saveload" else scripts[i - 1][:l]),
                               "%s after %s;%s" % (c, script_desc(ev, l)[-3:], extra))
            if i % 2500 == 3 and ev:
                ctx.sample(dict(script=script_desc(ev, min(len(ev), 7)), saved=[ln["text"] for e in ev if e["op"] == "saveload" for ln in e["lines"]][:6]))
    ctx.notes["scripts"] = len(scripts)
    ctx.notes["savefile_loads_performed"] = nperm
    os.remove(ctx.path("log.ndjson"))


def run_serialize(ctx, prefix="c08:"):
    """subtree_serialize / subtree_deserialize on app1 (C08's second half): states reached by TLC-simulated message
    sequences (AppGen) and by directed ones; after each script the tree is serialised into a dirty buffer of every
    capacity around 0..20 and around the needed size, the image is compared byte for byte with EncBundle of the model's
    elements (AppModel.SerElems, OscWire.EncBundle) and replayed into a fresh instance (AppModel.Deserialized)."""
    thorough = ctx.tier == "thorough"
    if ctx.replay:
        scripts = [json.load(open(ctx.replay))["case"]["script"]]
    else:
        raw = ctx.path("sersim.raw")
        ctx.tlc("AppGen", "AppGen_sim.cfg", env={"OUT": raw}, workers=4, simulate=(600 if thorough else 60), depth=13, seed=ctx.seed + 8, count=False)
        seen, sim = set(), []
        for line in open(raw):
            s1 = json.loads(line)
            if s1 not in seen:
                seen.add(s1)
                sim.append([o for o in json.loads(s1) if o["op"] == "set"])
        os.remove(raw)
        S = lambda a, t, v=0: dict(op="set", addr=a, ty=t, v=v)
        directed = [[], [S("/fx_on", "T")], [S("/palloc", "T")], [S("/fx_on", "T"), S("/palloc", "T"), S("/sub_on", "F")],
                    [S("/fx_on", "T"), S("/fx/type", "i", 1), S("/fx/level", "i", 50), S("/fx/voice1/vol", "i", 127)],          # level stands before type: replay re-initialises it
                    [S("/preset", "i", 2), S("/dep", "i", 99), S("/mode", "i", 1), S("/dep2", "i", 98), S("/chain", "i", 97), S("/tg", "T"), S("/dep3", "i", 96)],
                    [S("/pn", "i", -70000), S("/pi", "i", -10), S("/pf", "f", -10), S("/pg", "f", -4000), S("/af1", "f", -2), S("/sub/sf", "f", 16), S("/subs1/sf", "f", -16)],
                    [S("/ps", "s", list(b"q\"%\n'")), S("/po", "S", list(b"two")), S("/pt", "T"), S("/at1", "T"), S("/pc", "c", 127)],
                    [S("/ps", "s", []), S("/al7", "i", 100), S("/ai0", "i", 0), S("/psub/si", "i", 3), S("/palloc", "T"), S("/psub/si", "i", 50), S("/psub/sa1", "i", 9)],
                    [S("/palloc", "T"), S("/psub/st", "T"), S("/palloc", "F"), S("/fx_on", "T"), S("/fx/gain", "i", 10), S("/fx_on", "F")]]
        scripts = [sc + [dict(op="serialize")] for sc in directed + sim]
        ctx.notes["serialize_scripts"] = len(scripts)
    p = ctx.path("ser_scripts.ndjson")
    with open(p, "w") as f:
        for sc in scripts:
            f.write(json.dumps(sc) + "\n")
    ctx.driver("app_driver", "asan", ["run", p, ctx.path("ser_log.ndjson")], timeout=3000)
    rej = ctx.validate_execs("AppTrace", "AppTrace.cfg", ctx.path("ser_log.ndjson"), timeout=3000)
    ncap = 0
    with open(ctx.path("ser_log.ndjson")) as f:
        for i, line in enumerate(f, 1):
            r = json.loads(line)
            ev = r["ev"]
            if r.get("sig"):
                ctx.reject(dict(clause="crash_or_hang", op="serialize"), dict(script=scripts[i - 1]), "crash or hang while serialising app1: %s" % r.get("asan_what"))
                continue
            e = ev[-1]
            ctx.evaluations += 2 + len(e.get("caps", []))
            ncap += len(e.get("caps", []))
            if e.get("ret", 0) > 16:
                ctx.nontrivial.add(json.dumps(script_desc(ev, len(ev))))
            if i in rej:
                cl, l = rej[i]
                for c in [c for c in cl if c.startswith(prefix) or c == "memory_error"]:
                    bad = [(k["cap"], k["ret"]) for k in ev[l - 1].get("caps", []) if not k["guard"] or k["asan"] or k["ret"] != (e["ret"] if k["cap"] >= e["ret"] else 0)][:4]
                    ctx.reject(dict(clause=c, op=ev[l - 1]["op"]), dict(script=scripts[i - 1][:l]),
                               "%s after %s; serialiser returned %s (%s elements, length function %s); odd capacities (cap, ret) %s" % (c, script_desc(ev, l)[-4:-1], e.get("ret"), e.get("nelems_buf"), e.get("mlen_buf"), bad))
            if i in (2, len(scripts)):
                ctx.sample(dict(script=script_desc(ev, min(len(ev), 6)), serialized_bytes=e.get("ret"), elements=e.get("nelems_buf"), capacities_tried=len(e.get("caps", []))))
    ctx.notes["serialize_capacities_tried"] = ncap
    os.remove(ctx.path("ser_log.ndjson"))
