---------------------------- MODULE ThreadLink ----------------------------
(* The single-writer / single-reader ring of rtosc::ThreadLink, one action per   *)
(* access to the state shared by the two threads, in the order in which          *)
(* src/cpp/thread-link.cpp performs them (each action ends immediately before     *)
(* the next RTOSC_VERIF_POINT of that thread, so a TLC behaviour is a schedule    *)
(* the conformance driver can force on the real code).                            *)
(*                                                                                *)
(* The ring has N cells; a cell is one 4-byte word.  Cell(id, off, len) is word   *)
(* `off` of message `id`, which is `len` words long.  The reader frames a         *)
(* message from what it finds in the ring (rtosc_message_ring_length), so stale   *)
(* or torn content yields a wrong length - as in the code.                        *)
(*                                                                                *)
(*   writer op :  WStart -> WLoadR (space test: accept | drop) -> WCopy [-> WCopy2] -> WPublish *)
(*   poll op   :  RStart -> RHasNext (FALSE: done) -> RLoadW -> RScan -> RCopy [-> RCopy2] -> RRelease *)
(*                                                                                *)
(* Loads of an index that only the loading thread ever writes are merged into the *)
(* neighbouring step (they commute with every step of the other thread).          *)
(* A write becomes part of `accepted` when it is published (its linearization     *)
(* point); a write whose length is 0 models an oversized message (the message     *)
(* constructor returned 0): it runs through the same steps and changes nothing.   *)
(* Bug selects a specification mutant (vacuity guard for the invariants).         *)
EXTENDS Naturals, Sequences, TLC, FiniteSets
CONSTANTS N,      \* ring cells (the code keeps one cell free)
          Lens,   \* message lengths in words a writer may choose (0 = oversized/empty write)
          K, P,   \* number of write operations / poll operations
          Bug     \* "none" | "publish_first" | "release_first" | "no_slot" | "no_resync"
VARIABLES buf, w, r, la,                               \* shared: cells, write index, read index, lookahead index
          wpc, wk, wlen, wid, ww, wnext, woff,         \* writer locals
          rpc, rk, rw, rlen, rcopy, rnext, rmode,      \* reader locals
          accepted, got, lagot,                        \* history: published messages, delivered by read / by lookahead since the last read
          step, hist                                   \* ghost: the action just taken; the behaviour so far
core == <<buf, w, r, la, wpc, wk, wlen, wid, ww, wnext, woff, rpc, rk, rw, rlen, rcopy, rnext, rmode, accepted, got, lagot>>
vars == <<core, step, hist>>
Cell(id, off, len) == [id |-> id, off |-> off, len |-> len]
Empty == [id |-> 0, off |-> 0, len |-> 0]
Triples(m) == [i \in 1..Len(m) |-> <<m[i].id, m[i].off, m[i].len>>]

Init == /\ buf = [i \in 0..(N - 1) |-> Empty] /\ w = 0 /\ r = 0 /\ la = 0
        /\ wpc = "idle" /\ wk = 0 /\ wlen = 0 /\ wid = 0 /\ ww = 0 /\ wnext = 0 /\ woff = 0
        /\ rpc = "idle" /\ rk = 0 /\ rw = 0 /\ rlen = 0 /\ rcopy = <<>> /\ rnext = 0 /\ rmode = FALSE
        /\ accepted = <<>> /\ got = <<>> /\ lagot = <<>>
        /\ step = [th |-> "-", act |-> "init", arg |-> 0, at |-> 0, end |-> FALSE, has |-> FALSE, msg |-> <<>>]
        /\ hist = <<>>
\* `at` = the RTOSC_VERIF_POINT at which the thread waits after the action (0: the operation has returned)
St(th, act, arg, at, has, msg) ==
  LET x == [th |-> th, act |-> act, arg |-> arg, at |-> at, end |-> (at = 0), has |-> has, msg |-> msg] IN step' = x /\ hist' = Append(hist, x)
WU == UNCHANGED <<rpc, rk, rw, rlen, rcopy, rnext, rmode, got, lagot>>
RU == UNCHANGED <<wpc, wk, wlen, wid, ww, wnext, woff, accepted>>

\* ------------------------------------------------------------------ writer
Free(wi, ri) == IF Bug = "no_slot"
                THEN (IF ri = wi THEN N ELSE (ri + N - wi) % N)
                ELSE (IF ri = wi THEN N - 1 ELSE ((ri + N - wi) % N) - 1)    \* one cell stays free
WStartL(L) == /\ wpc = "idle" /\ wk < K
              /\ wlen' = L /\ wk' = wk + 1 /\ wid' = wk + 1 /\ ww' = w /\ wpc' = "ld_r"
              /\ St("w", "start", L, 2, FALSE, <<>>)
              /\ UNCHANGED <<buf, w, r, la, wnext, woff, accepted>> /\ WU
WStart == \E L \in Lens : WStartL(L)
WLoadR == /\ wpc = "ld_r"
          /\ IF Free(ww, r) >= wlen
             THEN /\ wnext' = (ww + wlen) % N /\ woff' = 0
                  /\ wpc' = IF Bug = "publish_first" THEN "publish" ELSE "copy"
                  /\ St("w", "ld_r", 0, IF Bug = "publish_first" THEN 5 ELSE 3, FALSE, <<>>)
             ELSE /\ wpc' = "idle" /\ UNCHANGED <<wnext, woff>>            \* dropped whole
                  /\ St("w", "ld_r", 0, 0, FALSE, <<>>)
          /\ UNCHANGED <<buf, w, r, la, wk, wlen, wid, ww, accepted>> /\ WU
\* the code takes the two-copy branch exactly when next_write < write, i.e. ww + wlen >= N (and wlen > 0)
WWrap == ww + wlen >= N /\ wlen > 0
WCopy == /\ wpc \in {"copy", "copy2"}
         /\ LET first == wpc = "copy"
                start == IF first THEN ww ELSE 0
                chunk == IF first THEN (IF WWrap THEN N - ww ELSE wlen) ELSE wlen - woff IN
            /\ buf' = [i \in 0..(N - 1) |-> IF i >= start /\ i < start + chunk
                                              THEN Cell(wid, woff + (i - start), wlen) ELSE buf[i]]
            /\ woff' = woff + chunk
            /\ wpc' = IF first /\ WWrap THEN "copy2"
                      ELSE IF Bug = "publish_first" THEN "idle" ELSE "publish"
            /\ St("w", "copy", 0, IF first /\ WWrap THEN 4 ELSE IF Bug = "publish_first" THEN 0 ELSE 5, FALSE, <<>>)
         /\ UNCHANGED <<w, r, la, wk, wlen, wid, ww, wnext, accepted>> /\ WU
WPublish == /\ wpc = "publish" /\ w' = wnext
            /\ wpc' = IF Bug = "publish_first" THEN "copy" ELSE "idle"
            /\ accepted' = IF wlen > 0 THEN Append(accepted, [id |-> wid, len |-> wlen]) ELSE accepted
            /\ St("w", "publish", 0, IF Bug = "publish_first" THEN 3 ELSE 0, FALSE, <<>>)
            /\ UNCHANGED <<buf, r, la, wk, wlen, wid, ww, wnext, woff>> /\ WU
WInternal == WLoadR \/ WCopy \/ WPublish

\* ------------------------------------------------------------------ reader
RPos == IF rmode THEN la ELSE r
RStartM(m) == /\ rpc = "idle" /\ rk < P
              /\ rmode' = m /\ rk' = rk + 1 /\ rpc' = "hn_ld_w"
              /\ St("r", "start", IF m THEN 1 ELSE 0, 1, FALSE, <<>>)
              /\ UNCHANGED <<buf, w, r, la, rw, rlen, rcopy, rnext, got, lagot>> /\ RU
RStart == \E m \in BOOLEAN : RStartM(m)
RHasNext == /\ rpc = "hn_ld_w"
            /\ IF (w + N - RPos) % N # 0
               THEN rpc' = "rd_ld_w" /\ St("r", "hasnext", 0, 1, TRUE, <<>>)
               ELSE rpc' = "idle" /\ St("r", "hasnext", 0, 0, FALSE, <<>>)
            /\ UNCHANGED <<buf, w, r, la, rk, rw, rlen, rcopy, rnext, rmode, got, lagot>> /\ RU
RLoadW == /\ rpc = "rd_ld_w" /\ rw' = w /\ rpc' = "scan"
          /\ St("r", "ld_w", 0, 9, FALSE, <<>>)
          /\ UNCHANGED <<buf, w, r, la, rk, rlen, rcopy, rnext, rmode, got, lagot>> /\ RU
Avail == (rw + N - RPos) % N
RScan == /\ rpc = "scan"
         /\ LET hdr == buf[RPos]
                len == IF Avail = 0 THEN 0 ELSE IF hdr.len <= Avail THEN hdr.len ELSE 0 IN
            /\ rlen' = len /\ rnext' = (RPos + len) % N /\ rcopy' = <<>>
            /\ rpc' = IF Bug = "release_first" THEN "release" ELSE "copy"
         /\ St("r", "scan", 0, IF Bug = "release_first" THEN 8 ELSE 6, FALSE, <<>>)
         /\ UNCHANGED <<buf, w, r, la, rk, rw, rmode, got, lagot>> /\ RU
RBase == IF Bug = "release_first" THEN (rnext + N - rlen) % N ELSE RPos    \* where this message starts
RWrap == RBase + rlen >= N /\ rlen > 0
RCopy == /\ rpc \in {"copy", "copy2"}
         /\ LET first == rpc = "copy"
                start == IF first THEN RBase ELSE 0
                chunk == IF first THEN (IF RWrap THEN N - RBase ELSE rlen) ELSE rlen - Len(rcopy)
                out   == rcopy \o [i \in 1..chunk |-> buf[start + i - 1]]
                last  == ~ (first /\ RWrap) IN
            /\ rcopy' = out
            /\ IF Bug = "release_first" /\ last
               THEN /\ rpc' = "idle"
                    /\ IF rmode THEN lagot' = Append(lagot, out) /\ got' = got
                                ELSE got' = Append(got, out) /\ lagot' = <<>>
                    /\ St("r", "copy", 0, 0, TRUE, Triples(out))
               ELSE /\ rpc' = IF first /\ RWrap THEN "copy2" ELSE "release"
                    /\ UNCHANGED <<got, lagot>>
                    /\ St("r", "copy", 0, IF first /\ RWrap THEN 7 ELSE 8, FALSE, <<>>)
         /\ UNCHANGED <<buf, w, r, la, rk, rw, rlen, rnext, rmode>> /\ RU
RRelease == /\ rpc = "release"
            /\ IF rmode THEN la' = rnext /\ r' = r
                        ELSE r' = rnext /\ la' = (IF Bug = "no_resync" THEN la ELSE rnext)
            /\ IF Bug = "release_first"
               THEN rpc' = "copy" /\ UNCHANGED <<got, lagot>> /\ St("r", "release", 0, 6, FALSE, <<>>)
               ELSE /\ rpc' = "idle"
                    /\ IF rmode THEN lagot' = Append(lagot, rcopy) /\ got' = got
                                ELSE got' = Append(got, rcopy) /\ lagot' = <<>>
                    /\ St("r", "release", 0, 0, TRUE, Triples(rcopy))
            /\ UNCHANGED <<buf, w, rk, rw, rlen, rcopy, rnext, rmode>> /\ RU
RInternal == RHasNext \/ RLoadW \/ RScan \/ RCopy \/ RRelease

Next == WStart \/ WInternal \/ RStart \/ RInternal
Spec == Init /\ [][Next]_vars
View == core

\* ------------------------------------------------------------------ the property (C06)
Whole(m, a) == Len(m) = a.len /\ \A i \in 1..Len(m) : m[i] = Cell(a.id, i - 1, a.len)
\* every message returned by read is a whole accepted message, in order, none lost or duplicated
Fifo == Len(got) <= Len(accepted) /\ \A i \in 1..Len(got) : Whole(got[i], accepted[i])
\* lookahead reads return the same sequence without consuming; a normal read resynchronises (lagot = <<>>)
LaFifo == \A i \in 1..Len(lagot) : Len(got) + i <= Len(accepted) /\ Whole(lagot[i], accepted[Len(got) + i])
\* hasNext is false exactly when everything accepted (published) has been consumed
HasNextExact == step.act = "hasnext" =>
                  (step.has <=> (IF rmode THEN Len(got) + Len(lagot) ELSE Len(got)) < Len(accepted))
\* the two threads are never working on the same cell (justifies chunk-atomic copies)
WCells == IF wpc \in {"copy", "copy2"} THEN { (ww + i) % N : i \in woff..(wlen - 1) } ELSE {}
RCells == CASE rpc \in {"copy", "copy2"} -> { (RBase + i) % N : i \in Len(rcopy)..(rlen - 1) }
            [] rpc = "scan" -> { (RPos + i) % N : i \in 0..(Avail - 1) }
            [] OTHER -> {}
NoOverlap == WCells \cap RCells = {}
\* indices stay inside the ring; the lookahead position is never behind the read position
Bounds == /\ w \in 0..(N - 1) /\ r \in 0..(N - 1) /\ la \in 0..(N - 1)
          /\ (la + N - r) % N <= (w + N - r) % N
=============================================================================
