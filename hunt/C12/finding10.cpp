// build: g++ -std=c++11 -I/tmp/wt/C12_h/include finding10.cpp /tmp/wt/C12_h/_build/librtosc-cpp.a /tmp/wt/C12_h/_build/librtosc.a -o finding10
//
// save_to_file() writes the application name as it is, load_from_file() reads
// it back with sscanf("%127s"), i.e. up to the first blank and at most 127
// characters. An application whose name contains a blank (or is longer than
// 127 characters) gets its own savefiles rejected as "another application's".
#include <rtosc/rtosc.h>
#include <rtosc/ports.h>
#include <rtosc/savefile.h>
#include <rtosc/port-sugar.h>
#include <cstdio>
#include <string>
#include <set>
using namespace rtosc;

struct App { static const Ports& ports; int pi = 0; };
#define rObject App
static const Ports app_ports = { rParamI(pi, rDefault(0), "an int parameter") };
#undef rObject
const Ports& App::ports = app_ports;

static int check(const char* appname)
{
    App a; a.pi = 5;
    std::set<std::string> written;
    std::string f = save_to_file(app_ports, &a, appname, rtosc_version{1,0,0}, written, {});
    App b;
    int r = load_from_file(f.c_str(), app_ports, &b, appname, rtosc_version{1,0,0});
    printf("application \"%.40s\"%s: expected load result 1 and pi=5, happened: %d and pi=%d\n",
           appname, std::string(appname).size() > 40 ? "..." : "", r, b.pi);
    return (r == 1 && b.pi == 5) ? 0 : 1;
}

int main()
{
    int bad = 0;
    bad += check("synth");        // works
    bad += check("My Synth");     // rejected
    std::string longname(128, 'n');
    bad += check(longname.c_str()); // rejected
    return bad ? 1 : 0;
}
