/* build+run (from findings/): cc -I../include finding2.c ../_build/librtosc.a -o finding2 && ./finding2 */
/* rtosc_match_args keeps advancing through the message's type string after its
 * terminator: a type alternative longer than the type tag (plus padding) makes
 * rtosc_match read behind the end of the message.
 * The message is placed directly in front of an inaccessible page, so the
 * overread is visible without a sanitizer (SIGSEGV is caught and reported).
 * With clang -fsanitize=address: heap-buffer-overflow in rtosc_match_args,
 * src/dispatch.c:142. */
#include <rtosc/rtosc.h>
#include <stdio.h>
#include <string.h>
#include <signal.h>
#include <unistd.h>
#include <sys/mman.h>

static const char *cur_pattern;
static void on_segv(int sig)
{
    (void)sig;
    static const char m[] = "  -> got: SIGSEGV, rtosc_match read behind the end of the message\n";
    write(1, m, sizeof(m)-1);
    _exit(1);
}

int main(void)
{
    long pg = sysconf(_SC_PAGESIZE);
    char *area = mmap(NULL, 2*pg, PROT_READ|PROT_WRITE,
                      MAP_PRIVATE|MAP_ANONYMOUS, -1, 0);
    if(area == MAP_FAILED) return 2;
    mprotect(area+pg, pg, PROT_NONE);
    signal(SIGSEGV, on_segv);

    /* the complete 8 byte message "a" without arguments: "a\0\0\0,\0\0\0" */
    char tmp[16];
    size_t len = rtosc_message(tmp, sizeof(tmp), "a", "");
    char *msg = area + pg - len;          /* ends exactly at the page border */
    memcpy(msg, tmp, len);
    printf("message 'a' (no arguments), %zu bytes, last byte at %p, guard page at %p\n",
           len, (void*)(msg+len-1), (void*)(area+pg));

    const char *pats[] = {"a:iii", "a:iiii", "a:ffff:i", NULL};
    for(int i=0; pats[i]; ++i) {
        cur_pattern = pats[i];
        printf("pattern '%s': expected: no match, no access outside the %zu bytes\n",
               pats[i], len);
        fflush(stdout);
        int r = rtosc_match(pats[i], msg, NULL);
        printf("  -> got: %s, no fault\n", r ? "match" : "no match");
    }
    return 0;
}
