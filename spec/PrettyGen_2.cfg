CONSTANTS MaxItems = 2
INIT Init
NEXT Next
CONSTRAINT Emit
CHECK_DEADLOCK FALSE
