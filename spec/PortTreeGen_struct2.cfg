CONSTANTS Family = "struct"  MaxPorts = 2
INIT Init
NEXT Next
INVARIANT Laws RouteLaws
CONSTRAINT Emit
CHECK_DEADLOCK FALSE
