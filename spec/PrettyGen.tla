---------------------------- MODULE PrettyGen ----------------------------
(* Input machine for C10: a state is an argument list built from items - a single   *)
(* value of any printable type (boundary values per type), a constant or arithmetic  *)
(* run of 3..7 equal-typed numbers (the compression threshold is crossed), or an     *)
(* array of 0..3 elements - together with print options.  Values are bit patterns    *)
(* (16-bit limbs, most significant first) or byte strings.                           *)
(* Reachability obligations (checked with -coverage by bin/check): runs of every     *)
(* length 3..7, a run next to a same-typed value, negative numbers next to each      *)
(* other, a time tag followed by a float, every type inside an array.                *)
EXTENDS Integers, Sequences, FiniteSets, TLC, Json, CSV, IOUtils
CONSTANTS MaxItems
VARIABLES items, opts
V(t, v) == [t |-> t, v |-> v]
I32(n) == IF n >= 0 THEN <<n \div 65536, n % 65536>> ELSE <<65535 - ((0 - n - 1) \div 65536), (65536 - ((0 - n) % 65536)) % 65536>>
I64(n) == IF n >= 0 THEN <<0, 0, n \div 65536, n % 65536>> ELSE <<65535, 65535>> \o I32(n)
\* float bit patterns: 0.0, 1.0, -1.5, 0.1f, FLT_MAX, min denormal, 0.25 k for runs
F(k) == CASE k = 0 -> <<0, 0>> [] k = 1 -> <<16256, 0>> [] k = 2 -> <<49088, 0>> [] k = 3 -> <<15820, 52429>> [] k = 4 -> <<32639, 65535>> [] k = 5 -> <<0, 1>>
D(k) == CASE k = 0 -> <<0, 0, 0, 0>> [] k = 1 -> <<16368, 0, 0, 0>> [] k = 2 -> <<16361, 60293, 7864, 20972>> [] k = 3 -> <<32751, 65535, 65535, 65535>> [] k = 4 -> <<0, 0, 0, 1>> [] k = 5 -> <<49144, 0, 0, 0>>
Quarter(n) == \* float pattern of n / 4 for n in -8..8 (exact)
  CASE n = 0 -> <<0, 0>> [] n = 1 -> <<16000, 0>> [] n = 2 -> <<16128, 0>> [] n = 3 -> <<16192, 0>> [] n = 4 -> <<16256, 0>> [] n = 5 -> <<16288, 0>>
    [] n = 6 -> <<16320, 0>> [] n = 7 -> <<16352, 0>> [] n = 8 -> <<16384, 0>> [] n = 0 - 1 -> <<48768, 0>> [] n = 0 - 2 -> <<48896, 0>> [] n = 0 - 3 -> <<48960, 0>>
    [] n = 0 - 4 -> <<49024, 0>> [] OTHER -> <<0, 0>>
Singles ==
  { V("i", I32(0)), V("i", I32(0 - 11)), V("i", I32(0 - 1)), V("i", <<32768, 0>>), V("i", <<32767, 65535>>), V("i", I32(2017)),
    V("h", I64(0 - 19)), V("h", <<32767, 65535, 65535, 65535>>), V("h", <<32768, 0, 0, 0>>), V("h", <<15, 65535, 65535, 65535>>),
    V("c", I32(97)), V("c", I32(39)), V("c", I32(10)), V("c", I32(92)), V("c", I32(0)), V("c", I32(1)),
    V("f", F(1)), V("f", F(2)), V("f", F(3)), V("f", F(4)), V("f", F(5)), V("d", D(1)), V("d", D(2)), V("d", D(3)), V("d", D(4)), V("d", D(5)),
    V("s", <<46, 46, 46, 32, 51, 32>>),                  \* "... 3 ": three dots inside a value are not the ellipsis of a range
    V("s", <<>>), V("s", <<97>>), V("s", <<97, 34, 98, 10, 37, 92>>), V("s", [i \in 1..30 |-> 96 + (i % 26) + 1]),
    V("S", <<97, 98, 95, 49>>), V("S", <<116, 114, 117, 101>>), V("S", <<110, 111, 32, 105, 100>>), V("S", <<>>),
    V("b", <<>>), V("b", <<0, 255, 16>>), V("b", [i \in 1..24 |-> i * 9]), V("m", <<144, 60, 127, 0>>), V("r", <<35757, 61453>>),
    V("T", <<>>), V("F", <<>>), V("N", <<>>), V("I", <<>>),
    V("t", <<58463, 63232, 0, 0>>), V("t", <<58463, 63239, 0, 0>>), V("t", <<58463, 63292, 0, 0>>), V("t", <<58464, 1296, 0, 0>>), V("t", <<58465, 18559, 0, 0>>),   \* 2021-06-01 00:00:00, 00:00:07, 00:01:00, 01:00:00, 23:59:59
    V("t", <<0, 0, 0, 1>>), V("t", <<58462, 13440, 0, 0>>), V("t", <<58462, 13441, 32768, 0>>), V("t", <<58462, 13500, 8256, 0>>) }
Runs == { [k |-> "run", t |-> t, start |-> s, delta |-> d, n |-> n] : t \in {"i", "h", "f"}, s \in {0 - 7, 2}, d \in {0, 0 - 3, 1}, n \in 3..7 }
\* runs of 64-bit integers whose stride does not fit into 32 bits: value i = (shi + (i - 1) * dhi) * 2^32 + 5
WideRuns == { [k |-> "wrun", t |-> "h", start |-> s, delta |-> d, n |-> n] : s \in {0 - 7, 2}, d \in {1, 0 - 3}, n \in 4..6 }
RunVals(r) == IF r.k = "wrun" THEN [i \in 1..r.n |-> V("h", I32(r.start + (i - 1) * r.delta) \o <<0, 5>>)] ELSE
              [i \in 1..r.n |-> LET x == r.start + (i - 1) * r.delta IN
                 IF r.t = "i" THEN V("i", I32(x)) ELSE IF r.t = "h" THEN V("h", I64(x)) ELSE V("f", Quarter(IF x < 0 - 4 \/ x > 8 THEN 0 ELSE x))]
Arrays == { [t |-> "a", et |-> "i", v |-> <<>>], [t |-> "a", et |-> "i", v |-> <<V("i", I32(1)), V("i", I32(0 - 2))>>],
            [t |-> "a", et |-> "s", v |-> <<V("s", <<97>>), V("s", <<>>)>>], [t |-> "a", et |-> "T", v |-> <<V("T", <<>>), V("F", <<>>), V("T", <<>>)>>],
            [t |-> "a", et |-> "f", v |-> <<V("f", F(3))>>], [t |-> "a", et |-> "i", v |-> [i \in 1..6 |-> V("i", I32(5))]],
            [t |-> "a", et |-> "i", v |-> [i \in 1..10 |-> V("i", I32(IF i <= 5 THEN i ELSE i - 1))]],      \* two runs in one array: 1..5 and 5..9
            [t |-> "a", et |-> "h", v |-> <<V("h", I64(0 - 19)), V("h", I64(3))>>], [t |-> "a", et |-> "c", v |-> <<V("c", I32(97))>>] }
ItemVals(it) == IF it.k \in {"run", "wrun"} THEN RunVals(it) ELSE <<it.x>>
RECURSIVE Flat(_)
Flat(its) == IF its = <<>> THEN <<>> ELSE ItemVals(Head(its)) \o Flat(Tail(its))
OptChoices == { [lossless |-> TRUE, prec |-> p, linelen |-> w, compress |-> c] : p \in {0, 2, 9}, w \in {10, 40, 120}, c \in {0, 1} }
Init == items = <<>> /\ opts \in OptChoices
Next == /\ Len(items) < MaxItems
        /\ \/ \E x \in Singles \cup Arrays : items' = Append(items, [k |-> "one", x |-> x])
           \/ \E r \in Runs \cup WideRuns : items' = Append(items, r)
        /\ UNCHANGED opts
Out == IF "OUT" \in DOMAIN IOEnv THEN IOEnv.OUT ELSE "none"
Emit == Out = "none" \/ CSVWrite("%1$s", <<ToJson([list |-> Flat(items), opts |-> opts, addr |-> IF opts.prec = 2 /\ opts.linelen = 40 THEN <<47, 97, 47, 98>> ELSE <<>>])>>, Out)
=============================================================================
