// build: gcc -I/tmp/wt/C11_h/include /tmp/wt/C11_h/findings/finding5.c /tmp/wt/C11_h/_build/librtosc-cpp.a /tmp/wt/C11_h/_build/librtosc.a -lm -o /tmp/wt/C11_h/findings/finding5
// Octal literals: the manual lists "077" among the 'i' spellings and says the
// behaviour is that of a C99 parser (scanf "%i"). 077i and 077h are read as 63,
// the plain 077 is read as decimal 77.
#include <stdio.h>
#include <string.h>
#include <rtosc/rtosc.h>
#include <rtosc/pretty-format.h>

static long scan1(const char* text, char* type)
{
    rtosc_arg_val_t av[2]; char sb[8];
    memset(av, 0, sizeof av);
    int n = rtosc_count_printed_arg_vals(text);
    if(n != 1) { *type = '?'; return -1; }
    rtosc_scan_arg_vals(text, av, n, sb, sizeof sb);
    *type = av[0].type;
    return av[0].type == 'h' ? (long)av[0].val.h : (long)av[0].val.i;
}

int main(void)
{
    int bad = 0;
    struct { const char* text; char type; long val; } t[] = {
        { "077i", 'i', 63 }, { "077h", 'h', 63 }, { "0x3f", 'i', 63 },
        { "077", 'i', 63 }, { "-010", 'i', -8 }, { "0123", 'i', 83 }, { 0, 0, 0 } };
    for(int i = 0; t[i].text; ++i) {
        char type; long v = scan1(t[i].text, &type);
        int ok = type == t[i].type && v == t[i].val;
        printf("<%s> expected %c:%ld, got %c:%ld%s\n", t[i].text, t[i].type, t[i].val, type, v,
               ok ? "" : "   <-- WRONG");
        if(!ok) bad = 1;
    }
    printf(bad ? "FAIL\n" : "ok\n");
    return bad;
}
