// build (in findings/): g++ -std=c++11 -I../include finding1.cpp ../_build/librtosc-cpp.a ../_build/librtosc.a -o finding1
// One NRPN message sequence (CC 99, 98, 6, 38 = ONE controller) serves FOUR
// queued MIDI-learn requests; three slots end up bound to CC 0 of channel 0,
// a controller that was never touched, and CC 0 then drives three slots.
#include <rtosc/ports.h>
#include <rtosc/automations.h>
#include <rtosc/port-sugar.h>
#include <cstdio>
#include <string>
#include <vector>
struct D { float a,b,c,d; };
#define rObject D
static rtosc::Ports ports = {
    rParamF(a, rLinear(0,1), "a"), rParamF(b, rLinear(0,1), "b"),
    rParamF(c, rLinear(0,1), "c"), rParamF(d, rLinear(0,1), "d"),
};
static std::vector<std::string> emitted;
int main()
{
    rtosc::AutomationMgr m(4, 1, 16);
    m.set_ports(ports);
    m.backend = [](const char *msg){ emitted.push_back(msg); };
    m.createBinding(0, "/a", true);
    m.createBinding(1, "/b", true);
    m.createBinding(2, "/c", true);
    m.createBinding(3, "/d", true);
    // the user turns ONE knob that sends NRPN 1:2 (=130) with value 64:32
    m.handleMidi(0, 99, 1);
    m.handleMidi(0, 98, 2);
    m.handleMidi(0,  6, 64);
    m.handleMidi(0, 38, 32);

    int bad = 0;
    printf("expected: slot 0 bound to NRPN 130, slots 1..3 still waiting as 1,2,3, no slot bound to a CC\n");
    for(int i=0; i<4; ++i) {
        printf("slot %d: learning=%d midi_cc=%d midi_nrpn=%d\n", i,
               m.slots[i].learning, m.slots[i].midi_cc, m.slots[i].midi_nrpn);
        if(m.slots[i].midi_cc != -1) bad++;
    }
    if(m.slots[0].midi_nrpn != 130) bad++;
    for(int i=1; i<4; ++i)
        if(m.slots[i].learning != i) bad++;

    // CC 0 on channel 0 (bank select) was never moved while learning
    emitted.clear();
    bool r = m.handleMidi(0, 0, 127);
    printf("CC 0 (never learned): expected unbound (no slot driven); got handled=%d, %zu message(s):", r, emitted.size());
    for(auto &e : emitted) printf(" %s", e.c_str());
    printf("\n");
    if(r || emitted.size() > 1) bad++; // at most the ONE waiting slot that learns it now

    printf(bad ? "FAIL\n" : "ok\n");
    return bad != 0;
}
