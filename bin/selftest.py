#!/usr/bin/env python3
"""bin/selftest.py [--only C04,C05] [--kind mutants|seeded|all] [--jobs N] [--tier quick]
Binding demonstration: every property-breaking change on record is applied to a SCRATCH copy of
/repo's sources (never to /repo) and the property's check is run against that copy
(RTOSC_SRC, own build directory, VERIF_TAG so that evidence/ is not touched).
  mutants/catalog.json      hand-written edits (file, old text, new text)
  seeded/<id>/patch.diff    changes written by independent agents from the property text alone
A change counts as caught when the check exits 1 with a VIOLATION line; exit 2 (broken check,
e.g. the change does not compile any more) is reported as such.  Results: selftest/RESULTS.md +
selftest/results.json.  Exit 0 iff every change marked "expect": "caught" was caught."""
import concurrent.futures, json, os, shutil, subprocess, sys, tempfile, time
V = os.path.dirname(os.path.dirname(os.path.abspath(__file__)))
REPO = "/repo"


def load(kind, only):
    items = []
    if kind in ("mutants", "all"):
        cat = json.load(open(os.path.join(V, "mutants", "catalog.json")))
        for m in cat:
            items.append(dict(kind="mutant", prop=m["property"], name=m["name"], edits=m["edits"], why=m["why"], expect=m.get("expect", "caught"),
                              checks=m.get("checks", [m["property"]])))
    if kind in ("seeded", "all"):
        sd = os.path.join(V, "seeded")
        for d in sorted(os.listdir(sd)) if os.path.isdir(sd) else []:
            mp = os.path.join(sd, d, "meta.json")
            if not os.path.exists(mp):
                continue
            meta = json.load(open(mp))
            items.append(dict(kind="seeded", prop=meta["property"], name=d, patch=os.path.join(sd, d, "patch.diff"), why=meta.get("summary", ""),
                              expect=meta.get("expect", "caught"), checks=meta.get("checks", [meta["property"]])))
    if only:
        items = [i for i in items if i["prop"] in only or i["name"] in only]
    return items


def run_one(item, tier):
    t0 = time.time()
    scratch = tempfile.mkdtemp(prefix="rtosc_selftest_")
    res = dict(kind=item["kind"], property=item["prop"], name=item["name"], why=item["why"], expect=item["expect"], results={})
    try:
        for sub in ("src", "include", "CMakeLists.txt"):
            s = os.path.join(REPO, sub)
            (shutil.copytree if os.path.isdir(s) else shutil.copy)(s, os.path.join(scratch, sub))
        if item["kind"] == "mutant":
            for e in item["edits"]:
                p = os.path.join(scratch, e["file"])
                txt = open(p).read()
                if txt.count(e["old"]) < 1:
                    res["results"] = {c: "edit-does-not-apply" for c in item["checks"]}
                    return res
                open(p, "w").write(txt.replace(e["old"], e["new"], e.get("count", 1)))
        else:
            p = subprocess.run(["patch", "-p1", "-s", "-d", scratch, "-i", item["patch"]], stdout=subprocess.PIPE, stderr=subprocess.STDOUT, text=True)
            if p.returncode != 0:
                res["results"] = {c: "patch-does-not-apply: " + p.stdout[-200:] for c in item["checks"]}
                return res
        env = dict(os.environ)
        env.update(RTOSC_SRC=scratch, VERIF_BUILD=os.path.join(scratch, "_verif_build"), VERIF_TAG="_st_" + item["name"].replace("/", "_"))
        for c in item["checks"]:
            p = subprocess.run(["python3", os.path.join(V, "bin", "check"), c, tier], cwd=V, env=env, stdout=subprocess.PIPE, stderr=subprocess.STDOUT, text=True)
            viol = [l for l in p.stdout.splitlines() if l.startswith("VIOLATION")]
            broken = [l for l in p.stdout.splitlines() if l.startswith("BROKEN-CHECK")]
            if p.returncode == 1 and viol:
                res["results"][c] = "caught: " + viol[0][:300]
            elif p.returncode == 0:
                res["results"][c] = "not caught"
            else:
                res["results"][c] = "broken: " + (broken[0][:300] if broken else p.stdout[-300:])
            shutil.rmtree(os.path.join(V, "out", c + env["VERIF_TAG"]), ignore_errors=True)
    finally:
        shutil.rmtree(scratch, ignore_errors=True)
        res["seconds"] = round(time.time() - t0)
    return res


def main():
    a = sys.argv[1:]
    only = set(a[a.index("--only") + 1].split(",")) if "--only" in a else None
    kind = a[a.index("--kind") + 1] if "--kind" in a else "all"
    jobs = int(a[a.index("--jobs") + 1]) if "--jobs" in a else 3
    tier = a[a.index("--tier") + 1] if "--tier" in a else "quick"
    items = load(kind, only)
    out = []
    with concurrent.futures.ThreadPoolExecutor(jobs) as ex:
        for r in ex.map(lambda i: run_one(i, tier), items):
            out.append(r)
            print("%-7s %-4s %-40s %s" % (r["kind"], r["property"], r["name"], "; ".join("%s: %s" % (c, v[:90]) for c, v in r["results"].items())), flush=True)
    os.makedirs(os.path.join(V, "selftest"), exist_ok=True)
    rp = os.path.join(V, "selftest", "results.json")
    old = {(r["kind"], r["name"]): r for r in (json.load(open(rp)) if os.path.exists(rp) else [])}
    for r in out:
        old[(r["kind"], r["name"])] = r
    allr = sorted(old.values(), key=lambda r: (r["property"], r["kind"], r["name"]))
    json.dump(allr, open(rp, "w"), indent=1)
    with open(os.path.join(V, "selftest", "RESULTS.md"), "w") as f:
        f.write("# Property-breaking changes tried against the checks (bin/selftest.py, %s tier)\n\n" % tier)
        f.write("| Property | Kind | Change | What it does | Result |\n|---|---|---|---|---|\n")
        for r in allr:
            f.write("| %s | %s | %s | %s | %s |\n" % (r["property"], r["kind"], r["name"], r["why"].replace("|", "/").replace("\n", " ")[:260],
                                                 "<br>".join("%s: %s" % (c, v.split(" replay=")[0].replace("|", "/")[:60] + (" — " + v.split("  (", 1)[1][:160].replace("|", "/") if "  (" in v else "")) for c, v in r["results"].items())))
    bad = [r for r in out if r["expect"] == "caught" and not any(v.startswith("caught") for v in r["results"].values())]
    for r in bad:
        print("NOT-CAUGHT %s %s" % (r["property"], r["name"]))
    return 1 if bad else 0


sys.exit(main())
