CONSTANTS MaxTokens = 2  SimMode = FALSE  PoolName = "texts"
INIT Init
NEXT Next
CONSTRAINT Emit
CHECK_DEADLOCK FALSE
