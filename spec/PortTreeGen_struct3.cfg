CONSTANTS Family = "struct"  MaxPorts = 3
INIT Init
NEXT Next
INVARIANT Laws RouteLaws
CONSTRAINT Emit
CHECK_DEADLOCK FALSE
