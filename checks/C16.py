"""C16 - argument-value comparison is a coherent order, blind to range compression.
ArgVals.tla defines lists, all their compressed forms (Forms) and the prescribed order on
same-typed scalars (checked by TLC to be a strict weak order); ArgValsGen enumerates lists
of up to 3 values over three value pools and emits every form; the driver materialises blocks
of forms as rtosc_arg_val_t[] and computes the K x K matrices of rtosc_arg_vals_cmp /
rtosc_arg_vals_eq, the iteration sequences and the messages; ArgValsTrace judges the laws over
all pairs and triples of each block."""
import json, os, random
from vlib import core


def show(form):
    out = []
    for it in form:
        x = it["x"]
        v = x["t"] + (":" + str(x["v"]) if x["t"] != "a" else "[%s]" % ",".join(e["t"] + ":" + str(e["v"]) for e in x["v"]))
        out.append(v if it["k"] == "one" else ("%dx%s" % (it["n"], v) if it["k"] == "rep" else "%s..+%s*%d" % (v, it["d"], it["n"])))
    return " ".join(out) or "(empty)"


def blob_prefix_pair(forms):
    bl = [f[0]["x"]["v"] for f in forms if len(f) == 1 and f[0]["k"] == "one" and f[0]["x"]["t"] == "b"]
    return any(a != b and len(a) < len(b) and b[:len(a)] == a and b[len(a)] == 0 for a in bl for b in bl)


def array_type_mix(forms):
    ts = set()
    for f in forms:
        for it in f:
            if it["x"]["t"] == "a":
                ts.add(it["x"]["et"])
    return len(ts) > 1 and bool(ts & {"T", "F"})


def run_math(ctx, records):
    """the arithmetic the ranges are built on (start + i * delta and the operations below it): every record of ArgMath.tla
    (TLC checks the algebra's laws on each) through the real functions, judged by ArgMathTrace.tla"""
    if records is None:
        records, r = ctx.vectors("ArgMathGen", "ArgMathGen.cfg", "argmath")
        uniq = {}
        for q in records:               # (every state is written once as an initial state and once as its own stuttering successor)
            uniq[json.dumps(q, sort_keys=True)] = q
        records = [uniq[k] for k in sorted(uniq)]
        if len(records) != r.distinct:
            raise core.Broken("ArgMath wrote %d distinct records for %d states" % (len(records), r.distinct))
        ctx.bounds["arithmetic_records"] = len(records)
    p = ctx.write_ndjson("argmath.ndjson", records)
    ctx.driver("argmath_driver", "asan", [p, ctx.path("argmath_log.ndjson")])
    rej = ctx.validate("ArgMathTrace", "ArgMathTrace.cfg", ctx.path("argmath_log.ndjson"))
    recs = ctx.read_ndjson(ctx.path("argmath_log.ndjson"))
    for i, r in enumerate(recs, 1):
        ctx.evaluations += 1
        q = r["rec"]
        if q["op"] in ("range", "mult", "div"):
            ctx.nontrivial.add(json.dumps(q, sort_keys=True))
        for c in rej.get(i, []):
            ctx.reject(dict(clause="arithmetic:" + c, op=q["op"], type=q["a"]["t"]), q,
                       "clause %s fails for %s(%s:%s%s%s)%s: the function returned %s, %s:%s" % (c, q["op"], q["a"]["t"], q["a"]["n"], (", %s:%s" % (q["b"]["t"], q["b"]["n"])) if q["b"]["t"] != "?" else "",
                            (", i = %s" % q["i"]) if q["op"] in ("range", "fromint") else "", " (64-bit operands times 2^32)" if q["scale"] else "", r["ok"], r["t"], r["n"]))
    ctx.notes["arithmetic_records"] = len(recs)
    ctx.sample(dict(arithmetic=recs[len(recs) // 3]["rec"], returned=dict(ok=recs[len(recs) // 3]["ok"], t=recs[len(recs) // 3]["t"], n=recs[len(recs) // 3]["n"])))


def run(ctx):
    ctx.rule = ("lists of 0..3 values from three pools (numbers i/h/f/d/c with runs; texts s/S/b/m/t/r with prefixes and 'immediately'; T/F/N/I and arrays of "
                "i/s/T/F/S of length 0..2) x every compressed form; blocks of up to 40 forms: all pairs and triples; plus blocks of longer lists "
                "(up to 6 values: constant stretches and +1 steps, each list against each of its proper prefixes, every compressed form of both); evaluations = comparisons; non-trivial = distinct form containing a compressed run")
    ctx.assumptions = ["default comparison options (no float tolerance)", "MIDI and colour values: only the coherence laws are judged (no order is prescribed)",
                       "a repeated value is never an array (the iterator cannot repeat one)"]
    if ctx.replay:
        case = json.load(open(ctx.replay))["case"]
        if "op" in case:
            run_math(ctx, [case])
            return
        blocks = [case]
    else:
        thorough = ctx.tier == "thorough"
        rng = random.Random(ctx.seed)
        blocks = []
        for pool in ("numbers", "texts", "misc"):
            vec, r = ctx.vectors("ArgValsGen", "ArgValsGen_%s.cfg" % pool, "av_" + pool)
            ctx.bounds[pool] = r.distinct
            # one block with every single value of the pool (all same-typed scalar pairs meet), one with all pairs of values
            singles = [v for v in vec if len(v["list"]) == 1]
            blocks.append(dict(forms=[v["forms"][0] for v in singles], owner=list(range(1, len(singles) + 1))))
            rng.shuffle(vec)
            if not thorough:
                vec = vec[:1500]
            cur, owner, nlist = [], [], 0
            for v in vec:
                fs = v["forms"]
                if len(cur) + len(fs) > 36 or nlist >= 10:
                    blocks.append(dict(forms=cur, owner=owner))
                    cur, owner, nlist = [], [], 0
                nlist += 1
                for f in fs:
                    cur.append(f)
                    owner.append(nlist)
            if cur:
                blocks.append(dict(forms=cur, owner=owner))
        # lists of up to 6 values made of constant stretches and +1 steps: every list meets each of its proper prefixes, all forms of both in one block
        vec, r = ctx.vectors("ArgValsGen", "ArgValsGen_runs.cfg", "av_runs")
        ctx.bounds["runs"] = r.distinct
        by = {json.dumps(v["list"], sort_keys=True): v for v in vec}
        pairs = []
        for v in vec:
            L = v["list"]
            for k in range(1, len(L)):
                a = by.get(json.dumps(L[:k], sort_keys=True))
                if a is not None and len(a["forms"]) + len(v["forms"]) <= 40:
                    pairs.append((a, v))
        if not thorough:
            rng.shuffle(pairs)
            pairs = pairs[:400]
        for a, v in pairs:
            blocks.append(dict(forms=a["forms"] + v["forms"], owner=[1] * len(a["forms"]) + [2] * len(v["forms"])))
        ctx.notes["prefix_pair_blocks"] = len(pairs)
        ctx.exhaustive = thorough
    p = ctx.path("blocks.ndjson")
    with open(p, "w") as f:
        for b in blocks:
            f.write(json.dumps(dict(forms=b["forms"], owner=b["owner"]), separators=(",", ":")) + "\n")
    ctx.driver("argval_driver", "asan", [p, ctx.path("log.ndjson")])
    rej = ctx.validate("ArgValsTrace", "ArgValsTrace.cfg", ctx.path("log.ndjson"), timeout=3000)
    recs = ctx.read_ndjson(ctx.path("log.ndjson"))
    for i, r in enumerate(recs, 1):
        K = len(r["forms"])
        ctx.evaluations += 2 * K * K
        for f in r["forms"]:
            if any(it["k"] != "one" for it in f):
                ctx.nontrivial.add(json.dumps(f, sort_keys=True))
        for c in rej.get(i, []):
            ctx.reject(dict(clause=c, blob_zero_extension_pair=blob_prefix_pair(r["forms"]), array_type_mix=array_type_mix(r["forms"])),
                       dict(forms=r["forms"], owner=r["owner"]), "clause %s fails in a block of %d forms, e.g. %s" % (c, K, [show(f) for f in r["forms"][:6]]))
    if not ctx.replay:
        run_math(ctx, None)
    ctx.notes["blocks"] = len(recs)
    if recs:
        r = recs[len(recs) // 2]
        ctx.sample(dict(forms=[show(f) for f in r["forms"][:10]], cmp_row=r.get("cmp", [[]])[0][:10]))
