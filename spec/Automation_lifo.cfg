CONSTANTS NSlots = 3  PerSlot = 2  Params = {"/i", "/t"}  PosValues = {0, 4, 8}  NegValues = {}  PosGains = {100}  NegGains = {100}  PosOffsets = {0}  NegOffsets = {}  CCs = {1, 2}  MaxOps = 5  Bug = "lifo"
SPECIFICATION Spec
INVARIANT ServedInOrder InRange QueueSane LinearAtDefault MonotoneMapping
VIEW View
CHECK_DEADLOCK FALSE
