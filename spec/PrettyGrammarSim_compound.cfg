CONSTANTS MaxTokens = 10  SimMode = TRUE  PoolName = "compound"
INIT Init
NEXT Next
CONSTRAINT Emit
CHECK_DEADLOCK FALSE
