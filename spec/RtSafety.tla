------------------------------ MODULE RtSafety ------------------------------
(* C03 - realtime safety of the message path.                                          *)
(* A process has two kinds of life: set-up (port tables are built, refreshMagic runs,   *)
(* thread links are constructed: heap and locks may be used freely) and the realtime    *)
(* section (messages are built, measured, read, matched, dispatched, written to and     *)
(* read from a ThreadLink).  The abstract state is the pair of counters an allocator    *)
(* and a lock observer would keep; the specification of the LIBRARY is that a realtime   *)
(* operation is a step that leaves both counters alone, for every operation of the       *)
(* alphabet and every class of input.  RtQuiet is then an inductive invariant.           *)
(* The trace specification (RtSafetyTrace.tla) replaces the library's step by the        *)
(* OBSERVED step - the counter deltas the interposed malloc/free/new/delete/             *)
(* pthread_mutex_lock measured inside the real call - and TLC checks RtQuiet on it.      *)
EXTENDS RtAlphabet
\* ------------------------------------------------------------------ the monitor
VARIABLES phase, heapOps, lockOps, frozenHeap, frozenLock
mvars == <<phase, heapOps, lockOps, frozenHeap, frozenLock>>
MInit == phase = "setup" /\ heapOps = 0 /\ lockOps = 0 /\ frozenHeap = 0 /\ frozenLock = 0
Setup(dh, dl) == /\ phase = "setup" /\ heapOps' = heapOps + dh /\ lockOps' = lockOps + dl /\ UNCHANGED <<phase, frozenHeap, frozenLock>>
EnterRt == /\ phase = "setup" /\ phase' = "rt" /\ frozenHeap' = heapOps /\ frozenLock' = lockOps /\ UNCHANGED <<heapOps, lockOps>>
LeaveRt == /\ phase = "rt" /\ phase' = "setup" /\ UNCHANGED <<heapOps, lockOps, frozenHeap, frozenLock>>
\* a step of the realtime section with the given effect on the counters
RtStep(op, dh, dl) == /\ phase = "rt" /\ heapOps' = heapOps + dh /\ lockOps' = lockOps + dl /\ UNCHANGED <<phase, frozenHeap, frozenLock>>
\* what the library promises for every operation of the alphabet
LibRtOp(op) == op \in RtOpNames /\ RtStep(op, 0, 0)
MNext == (\E dh, dl \in 0..2 : Setup(dh, dl)) \/ EnterRt \/ LeaveRt \/ (\E op \in RtOpNames : LibRtOp(op))
MSpec == MInit /\ [][MNext]_mvars
RtQuiet == phase = "rt" => heapOps = frozenHeap /\ lockOps = frozenLock
\* a broken library (used by the mutant configuration: TLC must find RtQuiet violated)
BadNext == MNext \/ RtStep("dispatch.loc", 1, 0)
Bound == heapOps <= 4 /\ lockOps <= 4
=============================================================================
