// build: g++ -std=c++11 -g -I/tmp/wt/C14_h/include finding1.cpp /tmp/wt/C14_h/_build/librtosc-cpp.a /tmp/wt/C14_h/_build/librtosc.a -o finding1 && ./finding1
//
// An array port whose C identifier contains a digit (osc2vol, v8, ...) takes
// its element index from the FIRST digit of the address, not from the digits
// that stand where the port name has its '#': /osc2vol3 touches element 2,
// /v81 touches element 81 of a two element array (out-of-bounds write).
#include <rtosc/ports.h>
#include <rtosc/port-sugar.h>
#include <cstdarg>
#include <cstdio>
#include <cstring>
#include <string>
#include <vector>
using namespace rtosc;

struct Obj {
    int osc2vol[4];
    int v8[2];
    int behind_v8[100];   // what lies behind v8 in memory (keeps the stray write inside this object)
};
#define rObject Obj
static const Ports ports = {
    rArrayI(osc2vol, 4, "per-voice volume of oscillator 2"),
    rArrayI(v8,      2, "some two element array"),
};

static std::vector<std::string> out;
struct Rt : RtData {
    char buf[256];
    Rt(Obj *o) { memset(buf, 0, sizeof buf); loc = buf; loc_size = sizeof buf; obj = o; }
    void reply(const char *path, const char *args, ...) override {
        va_list va; va_start(va, args);
        char m[512]; rtosc_vmessage(m, sizeof m, path, args, va); va_end(va);
        reply(m);
    }
    void reply(const char *m) override {
        char line[512];
        if(!strcmp(m, "/undo_change"))
            snprintf(line, sizeof line, "undo %s %d->%d", rtosc_argument(m,0).s, rtosc_argument(m,1).i, rtosc_argument(m,2).i);
        else
            snprintf(line, sizeof line, "%s %d", m, rtosc_argument(m,0).i);
        out.push_back(line);
    }
};
static void send(Rt &rt, const char *path, const char *args, ...)
{
    char m[512]; va_list va; va_start(va, args);
    rtosc_vmessage(m, sizeof m, path, args, va); va_end(va);
    out.clear();
    ports.dispatch(m, rt, true);
    printf("  %s %s ->", path, args);
    for(auto &l : out) printf(" [%s]", l.c_str());
    printf("\n");
}

int main()
{
    Obj o; memset(&o, 0, sizeof o);
    Rt rt(&o);
    int bad = 0;

    puts("set /osc2vol3 to 9, then query /osc2vol3 and /osc2vol2");
    send(rt, "/osc2vol3", "i", 9);
    send(rt, "/osc2vol3", "");
    printf("  expected osc2vol = {0,0,0,9}\n  got      osc2vol = {%d,%d,%d,%d}\n",
           o.osc2vol[0], o.osc2vol[1], o.osc2vol[2], o.osc2vol[3]);
    if(o.osc2vol[3] != 9 || o.osc2vol[2] != 0) { puts("  WRONG: element 2 was written instead of element 3"); bad = 1; }

    puts("set /v81 to 6 (v8 has two elements: v80 and v81)");
    send(rt, "/v81", "i", 6);
    printf("  expected v8 = {0,6}, nothing else touched\n  got      v8 = {%d,%d}", o.v8[0], o.v8[1]);
    for(int i = 0; i < 100; ++i)
        if(o.behind_v8[i]) printf(", behind_v8[%d] = %d (that is v8[%d])", i, o.behind_v8[i], i+2);
    printf("\n");
    if(o.v8[1] != 6) { puts("  WRONG: the write went to index 81 of a 2 element array"); bad = 1; }

    puts(bad ? "FAIL" : "ok");
    return bad;
}
