// build: gcc -I/tmp/wt/C11_h/include /tmp/wt/C11_h/findings/finding3.c /tmp/wt/C11_h/_build/librtosc-cpp.a /tmp/wt/C11_h/_build/librtosc.a -lm -o /tmp/wt/C11_h/findings/finding3
// Inside an array, a range that follows another range (as 2nd or 3rd element)
// takes the FIRST value of the preceding range as its "a" - the checker and the
// scanner outside of arrays take the LAST one.
#include <stdio.h>
#include <string.h>
#include <rtosc/rtosc.h>
#include <rtosc/arg-ext.h>
#include <rtosc/pretty-format.h>

static int second_range(const char* text, int* num, int* delta, int* first)
{
    rtosc_arg_val_t av[16]; char sb[16];
    memset(av, 0, sizeof av);
    int n = rtosc_count_printed_arg_vals(text);
    if(n <= 0 || n > 16) return n;
    rtosc_scan_arg_vals(text, av, n, sb, sizeof sb);
    // the second range is the last three cells: '-' delta first
    const rtosc_arg_val_t* r = av + n - 3;
    *num = rtosc_av_rep_num(r); *delta = r[1].val.i; *first = r[2].val.i;
    return n;
}

int main(void)
{
    int bad = 0, num, delta, first;
    struct { const char* text; int num, delta; } t[] = {
        { "1 ... 3 5 ... 9",       3, 2 },  // control, top level: 1 2 3 5 7 9
        { "[1 ... 3 5 ... 9]",     3, 2 },  // same values expected in an array
        { "[0 1 ... 3 5 ... 9]",   3, 2 },
        { "[0 0 1 ... 3 5 ... 9]", 3, 2 },  // control: from the 4th element on it works
        { "[1 ... 3 4 ... 6]",     3, 1 },  // 1 2 3 4 5 6
        { "[1 ... 3 5 ... 11]",    4, 2 },  // 1 2 3 5 7 9 11
        { 0, 0, 0 } };
    for(int i = 0; t[i].text; ++i) {
        int n = second_range(t[i].text, &num, &delta, &first);
        int ok = n > 0 && num == t[i].num && delta == t[i].delta;
        printf("<%s>\n  checker count %d; second range expected: %d values, step %d; got: %d values, step %d%s\n",
               t[i].text, n, t[i].num, t[i].delta, num, delta, ok ? "" : "   <-- WRONG");
        if(!ok) bad = 1;
    }
    printf(bad ? "FAIL\n" : "ok\n");
    return bad;
}
